(* Proofs/CursorTrackProofs.v — the tracker of Model/CursorTrack.v (all five repairs present) against the
   cursor-only terminal of Spec/VtCursorSpec.v: invariant over all operation sequences. *)
From Coq Require Import ZArith NArith List Bool Lia ZifyN ZifyBool ZifyNat.
From Tup Require Import Lib.ByteStr Lib.Dec Lib.DecFacts Gen.CursorGen Model.CursorTrack Spec.VtCursorSpec Proofs.VtCursorFacts.
Import ListNotations.
Ltac Zify.zify_post_hook ::= Z.to_euclidean_division_equations.
Open Scope Z_scope.

(* ------------------------------------------------------------------ what the source tree must look like *)
Lemma src_fixes_all : src_fixes = all_fixed. Proof. reflexivity. Qed.

Lemma src_cud d : fmt_d cg_cud [d] = [27; 91]%N ++ pyd d ++ [66]%N. Proof. reflexivity. Qed.
Lemma src_cuu d : fmt_d cg_cuu [d] = [27; 91]%N ++ pyd d ++ [65]%N. Proof. reflexivity. Qed.
Lemma src_cuf d : fmt_d cg_cuf [d] = [27; 91]%N ++ pyd d ++ [67]%N. Proof. reflexivity. Qed.
Lemma src_cub d : fmt_d cg_cub [d] = [27; 91]%N ++ pyd d ++ [68]%N. Proof. reflexivity. Qed.
Lemma src_vpa d : fmt_d cg_vpa [d] = [27; 91]%N ++ pyd d ++ [100]%N. Proof. reflexivity. Qed.
Lemma src_cha d : fmt_d cg_cha [d] = [27; 91]%N ++ pyd d ++ [71]%N. Proof. reflexivity. Qed.
Lemma src_put_cha d : fmt_d cg_put_cha [d] = [27; 91]%N ++ pyd d ++ [71]%N. Proof. reflexivity. Qed.
Lemma src_su d : fmt_d cg_su [d] = [27; 91]%N ++ pyd d ++ [83]%N. Proof. reflexivity. Qed.
Lemma src_sd d : fmt_d cg_sd [d] = [27; 91]%N ++ pyd d ++ [84]%N. Proof. reflexivity. Qed.
Lemma src_put_scroll d : fmt_d cg_put_scroll [d] = [27; 91]%N ++ pyd d ++ [83]%N. Proof. reflexivity. Qed.
Lemma src_ph_back d : fmt_d cg_ph_back [d] = [27; 91]%N ++ pyd d ++ [68]%N. Proof. reflexivity. Qed.
Lemma src_decstbm a b : fmt_d cg_decstbm [a; b] = [27; 91]%N ++ pyd a ++ [59]%N ++ pyd b ++ [114]%N. Proof. reflexivity. Qed.
Lemma src_ph_cup a b : fmt_d cg_ph_cup [a; b] = [27; 91]%N ++ pyd a ++ [59]%N ++ pyd b ++ [72]%N. Proof. reflexivity. Qed.
Lemma src_cpr : cg_cpr_query = [27; 91; 54; 110]%N /\ cg_cpr_intro = [27; 91]%N /\ single cg_cpr_final = 82%N /\ single cg_cpr_sep = 59%N.
Proof. repeat split; reflexivity. Qed.

(* ------------------------------------------------------------------ effects of the emitted sequences *)
Lemma pyd_nonneg z : 0 <= z -> pyd z = dec (Z.to_N z).
Proof. intros H. unfold pyd. destruct (z <? 0) eqn:E; [lia|reflexivity]. Qed.

Lemma Eff_csi1 z f g : 0 <= z -> is_final f = true -> (forall t, vt_csi t [Z.to_N z] f = (g t, [])) ->
  Eff g ([27; 91]%N ++ pyd z ++ [f]).
Proof.
  intros Hz Hf Hg. rewrite pyd_nonneg by exact Hz.
  eapply Eff_of_parse; [exact (parse_csi [Z.to_N z] f ltac:(discriminate) Hf)|].
  intro t. cbn [vt_run vt_apply]. rewrite Hg. reflexivity.
Qed.
Lemma Eff_csi2 a b f g : 0 <= a -> 0 <= b -> is_final f = true ->
  (forall t, vt_csi t [Z.to_N a; Z.to_N b] f = (g t, [])) ->
  Eff g ([27; 91]%N ++ pyd a ++ [59]%N ++ pyd b ++ [f]).
Proof.
  intros Ha Hb Hf Hg. rewrite !pyd_nonneg by assumption.
  replace ([27; 91]%N ++ dec (Z.to_N a) ++ [59]%N ++ dec (Z.to_N b) ++ [f])
    with ([27; 91]%N ++ csi_params [Z.to_N a; Z.to_N b] ++ [f]) by (cbn [csi_params app]; rewrite <- !app_assoc; reflexivity).
  eapply Eff_of_parse; [exact (parse_csi [Z.to_N a; Z.to_N b] f ltac:(discriminate) Hf)|].
  intro t. cbn [vt_run vt_apply]. rewrite Hg. reflexivity.
Qed.

Lemma par1_pos d : 1 <= d -> par1 [Z.to_N d] 0 = d.
Proof. intros H. unfold par1, par. cbn [nth]. destruct (Z.of_N (Z.to_N d) =? 0) eqn:E; lia. Qed.
Lemma par_0 a r : 0 <= a -> par (Z.to_N a :: r) 0 = a.
Proof. intros H. unfold par. cbn [nth]. lia. Qed.
Lemma par_1 a b : 0 <= b -> par [a; Z.to_N b] 1 = b.
Proof. intros H. unfold par. cbn [nth]. lia. Qed.

Lemma Eff_cud d : 1 <= d -> Eff (fun t => vt_down t d) (fmt_d cg_cud [d]).
Proof. intros H. rewrite src_cud. apply Eff_csi1; [lia|reflexivity|]. intro t. rewrite csi_B, par1_pos by exact H. reflexivity. Qed.
Lemma Eff_cuu d : 1 <= d -> Eff (fun t => vt_up t d) (fmt_d cg_cuu [d]).
Proof. intros H. rewrite src_cuu. apply Eff_csi1; [lia|reflexivity|]. intro t. rewrite csi_A, par1_pos by exact H. reflexivity. Qed.
Lemma Eff_cuf d : 1 <= d -> Eff (fun t => vt_right t d) (fmt_d cg_cuf [d]).
Proof. intros H. rewrite src_cuf. apply Eff_csi1; [lia|reflexivity|]. intro t. rewrite csi_C, par1_pos by exact H. reflexivity. Qed.
Lemma Eff_cub d : 1 <= d -> Eff (fun t => vt_left t d) (fmt_d cg_cub [d]).
Proof. intros H. rewrite src_cub. apply Eff_csi1; [lia|reflexivity|]. intro t. rewrite csi_D, par1_pos by exact H. reflexivity. Qed.
Lemma Eff_ph_back d : 1 <= d -> Eff (fun t => vt_left t d) (fmt_d cg_ph_back [d]).
Proof. intros H. rewrite src_ph_back. apply Eff_csi1; [lia|reflexivity|]. intro t. rewrite csi_D, par1_pos by exact H. reflexivity. Qed.
Lemma Eff_vpa r : 0 <= r -> Eff (fun t => vt_goto t (vx t) r) (fmt_d cg_vpa [r + 1]).
Proof.
  intros H. rewrite src_vpa. apply Eff_csi1; [lia|reflexivity|]. intro t. rewrite csi_d, par1_pos by lia.
  replace (r + 1 - 1) with r by lia. reflexivity.
Qed.
Lemma Eff_cha k : 0 <= k -> Eff (fun t => vt_goto t k (vy t)) (fmt_d cg_cha [k + 1]).
Proof.
  intros H. rewrite src_cha. apply Eff_csi1; [lia|reflexivity|]. intro t. rewrite csi_G, par1_pos by lia.
  replace (k + 1 - 1) with k by lia. reflexivity.
Qed.
Lemma Eff_put_cha k : 0 <= k -> Eff (fun t => vt_goto t k (vy t)) (fmt_d cg_put_cha [k + 1]).
Proof. intros H. rewrite src_put_cha, <- src_cha. apply Eff_cha. exact H. Qed.
Lemma Eff_su n : 0 <= n -> Eff (fun t => t) (fmt_d cg_su [n]).
Proof. intros H. rewrite src_su. apply Eff_csi1; [lia|reflexivity|]. intro t. apply csi_S. Qed.
Lemma Eff_sd n : 0 <= n -> Eff (fun t => t) (fmt_d cg_sd [n]).
Proof. intros H. rewrite src_sd. apply Eff_csi1; [lia|reflexivity|]. intro t. apply csi_T. Qed.
Lemma Eff_put_scroll n : 0 <= n -> Eff (fun t => t) (fmt_d cg_put_scroll [n]).
Proof. intros H. rewrite src_put_scroll, <- src_su. apply Eff_su. exact H. Qed.
Lemma Eff_decstbm a b : 0 <= a -> 0 <= b -> Eff (fun t => vt_decstbm t (a + 1) (b + 1)) (fmt_d cg_decstbm [a + 1; b + 1]).
Proof.
  intros Ha Hb. rewrite src_decstbm. apply Eff_csi2; [lia|lia|reflexivity|]. intro t.
  rewrite csi_r, par_0, par_1 by lia. reflexivity.
Qed.
Lemma Eff_ph_cup a b : 0 <= a -> 0 <= b -> Eff (fun t => vt_goto t b a) (fmt_d cg_ph_cup [a + 1; b + 1]).
Proof.
  intros Ha Hb. rewrite src_ph_cup. apply Eff_csi2; [lia|lia|reflexivity|]. intro t.
  rewrite csi_H. unfold par1. rewrite par_0, par_1 by lia.
  destruct (a + 1 =? 0) eqn:E1; [lia|]. destruct (b + 1 =? 0) eqn:E2; [lia|].
  replace (b + 1 - 1) with b by lia. replace (a + 1 - 1) with a by lia. reflexivity.
Qed.

Lemma Eff_reset_sgr : Eff (fun t => t) cg_reset_sgr. Proof. apply Eff_null. reflexivity. Qed.
Lemma Eff_sgr0 : Eff (fun t => t) sgr0. Proof. apply Eff_null. reflexivity. Qed.
Lemma Eff_reset_margins : Eff (fun t => vt_decstbm t 0 0) cg_reset_margins.
Proof. eapply Eff_of_parse; [reflexivity|]. intro t. reflexivity. Qed.
Lemma Eff_reset_ris : Eff (fun t => vt_blank (vW t) (vH t)) cg_reset_ris.
Proof. eapply Eff_of_parse; [reflexivity|]. intro t. reflexivity. Qed.
Lemma Eff_clear_line : Eff (fun t => t) cg_clear_line.
Proof. eapply Eff_of_parse; [reflexivity|]. intro t. reflexivity. Qed.
Lemma Eff_clear_screen : Eff (fun t => t) cg_clear_screen.
Proof. eapply Eff_of_parse; [reflexivity|]. intro t. reflexivity. Qed.
Lemma Eff_put_nel : Eff (fun t => vt_cr (vt_index t)) cg_put_nel.
Proof. eapply Eff_of_parse; [reflexivity|]. intro t. reflexivity. Qed.
Lemma Eff_ph_save : Eff vt_save cg_ph_save.
Proof. eapply Eff_of_parse; [reflexivity|]. intro t. reflexivity. Qed.
Lemma Eff_ph_restore : Eff vt_restore cg_ph_restore.
Proof. eapply Eff_of_parse; [reflexivity|]. intro t. reflexivity. Qed.
Lemma Eff_ph_ind : Eff vt_index cg_ph_ind.
Proof. eapply Eff_of_parse; [reflexivity|]. intro t. reflexivity. Qed.
Lemma Eff_ph_lf : Eff vt_index cg_ph_lf.
Proof. eapply Eff_of_parse; [reflexivity|]. intro t. reflexivity. Qed.

(* the cursor position report *)
Lemma feed_cpr t : vt_feed (PGround, t) cg_cpr_query =
  ((PGround, t), [27; 91]%N ++ vt_dec (vy t + 1) ++ [59]%N ++ vt_dec (vx t + 1) ++ [82]%N).
Proof.
  unfold vt_feed. cbn [fst snd]. change (vt_parse PGround cg_cpr_query) with (PGround, [EvCsi [6%N] 110%N]).
  cbn [vt_run vt_apply].
  change (vt_csi t [6%N] 110) with (t, [27; 91]%N ++ vt_dec (vy t + 1) ++ [59]%N ++ vt_dec (vx t + 1) ++ [82]%N).
  cbv beta iota. rewrite app_nil_r. reflexivity.
Qed.

(* ------------------------------------------------------------------ the placeholder's bytes *)
Lemma diacritics_null : forallb vt_null cg_diacritics = true.
Proof. vm_compute. reflexivity. Qed.
Lemma Eff_placeholder_char : Eff vt_print1 cg_placeholder_char.
Proof. eapply Eff_of_parse; [vm_compute; reflexivity|]. intro t. reflexivity. Qed.
Lemma Eff_space : Eff vt_print1 [32%N].
Proof. eapply Eff_of_parse; [reflexivity|]. intro t. reflexivity. Qed.

Lemma Eff_diac0 i : Eff (fun t => t) (diac0 i).
Proof.
  unfold diac0, diac. destruct (nth_error cg_diacritics (Z.to_nat i)) as [d|] eqn:E; [|apply Eff_nil].
  apply Eff_null. apply nth_error_In in E. pose proof diacritics_null as H. rewrite forallb_forall in H. apply H, E.
Qed.
Lemma Eff_tail4 image : Eff (fun t => t) (tail4 image).
Proof. unfold tail4. destruct (fourth image =? 0); [apply Eff_nil|apply Eff_diac0]. Qed.

Lemma Eff_pn_app a b n m : Eff (pn n) a -> Eff (pn m) b -> Eff (pn (n + m)) (a ++ b).
Proof. intros Ha Hb. eapply Eff_ext; [|exact (Eff_app _ _ a b Ha Hb)]. intro t. symmetry. apply pn_add. Qed.
Lemma Eff_id_pn a b n : Eff (fun t => t) a -> Eff (pn n) b -> Eff (pn n) (a ++ b).
Proof. intros Ha Hb. exact (Eff_app _ _ a b Ha Hb). Qed.
Lemma Eff_pn_id a b n : Eff (pn n) a -> Eff (fun t => t) b -> Eff (pn n) (a ++ b).
Proof. intros Ha Hb. exact (Eff_app _ _ a b Ha Hb). Qed.

Lemma Eff_sgr ps : ps <> [] -> Eff (fun t => t) ([27; 91]%N ++ csi_params ps ++ [109]%N).
Proof.
  intros Hne. eapply Eff_of_parse; [exact (parse_csi ps 109 Hne eq_refl)|].
  intro t. apply run_null. reflexivity.
Qed.

Lemma Eff_color5 x : 0 <= x -> Eff (fun t => t) ([27; 91; 51; 56; 59; 53; 59]%N ++ pyd x ++ [109]%N).
Proof.
  intros H. rewrite pyd_nonneg by exact H.
  exact (Eff_sgr [38%N; 5%N; Z.to_N x] ltac:(discriminate)).
Qed.
Lemma Eff_color2 k a b c : (k = 51%N \/ k = 53%N) -> 0 <= a -> 0 <= b -> 0 <= c ->
  Eff (fun t => t) ([27; 91; k; 56; 59; 50; 59]%N ++ pyd a ++ [59]%N ++ pyd b ++ [59]%N ++ pyd c ++ [109]%N).
Proof.
  intros Hk Ha Hb Hc. rewrite !pyd_nonneg by assumption. destruct Hk as [-> | ->].
  - pose proof (Eff_sgr [38%N; 2%N; Z.to_N a; Z.to_N b; Z.to_N c] ltac:(discriminate)) as E.
    cbn [csi_params] in E. rewrite <- !app_assoc in E. exact E.
  - pose proof (Eff_sgr [58%N; 2%N; Z.to_N a; Z.to_N b; Z.to_N c] ltac:(discriminate)) as E.
    cbn [csi_params] in E. rewrite <- !app_assoc in E. exact E.
Qed.

Lemma Eff_id_colors image placement : Eff (fun t => t) (id_colors image placement).
Proof.
  unfold id_colors. apply Eff_id_app.
  - destruct ((image / 256) mod 65536 =? 0).
    + apply Eff_color5. apply Z.mod_pos_bound. lia.
    + apply (Eff_color2 51%N); [left; reflexivity| | |]; apply Z.mod_pos_bound; lia.
  - destruct (placement =? 0); [apply Eff_nil|].
    apply (Eff_color2 53%N); [right; reflexivity| | |]; apply Z.mod_pos_bound; lia.
Qed.

Lemma Eff_first_cell image row sc fc : first_cell image row sc = Some fc -> Eff (pn 1) fc.
Proof.
  unfold first_cell. destruct (diac sc) as [dc|] eqn:E; [|discriminate]. intros [= <-].
  change (Eff (pn 1) (cg_placeholder_char ++ diac0 row ++ dc ++ tail4 image)).
  apply Eff_pn_id; [exact Eff_placeholder_char|].
  apply Eff_id_app; [apply Eff_diac0|]. apply Eff_id_app; [|apply Eff_tail4].
  pose proof (Eff_diac0 sc) as H. unfold diac0 in H. rewrite E in H. exact H.
Qed.
Lemma Eff_other_cell image row col : Eff (pn 1) (other_cell image row col).
Proof.
  unfold other_cell. apply Eff_pn_id; [exact Eff_placeholder_char|].
  apply Eff_id_app; [apply Eff_diac0|]. destruct (col <? ndiac); [|apply Eff_nil].
  apply Eff_id_app; [apply Eff_diac0|apply Eff_tail4].
Qed.
Lemma Eff_cells image row l : Eff (pn (length l)) (concat (map (other_cell image row) l)).
Proof.
  induction l as [|c l IH]; cbn [map concat length]; [exact Eff_nil|].
  change (S (length l)) with (1 + length l)%nat. apply Eff_pn_app; [apply Eff_other_cell|exact IH].
Qed.
Lemma Eff_spaces n : Eff (pn n) (repeat 32%N n).
Proof.
  induction n as [|n IH]; cbn [repeat]; [exact Eff_nil|].
  change (32%N :: repeat 32%N n) with ([32%N] ++ repeat 32%N n). change (S n) with (1 + n)%nat.
  apply Eff_pn_app; [exact Eff_space|exact IH].
Qed.
Lemma zrange_length a n : length (zrange a n) = n.
Proof. unfold zrange. rewrite map_length, seq_length. reflexivity. Qed.

Lemma Eff_ph_line image placement sc ec row l : sc < ec ->
  ph_line image placement sc ec row = Some l -> Eff (pn (Z.to_nat (ec - sc))) l.
Proof.
  intros Hlt. unfold ph_line. destruct (ndiac <=? row).
  - intros [= <-]. change (Eff (pn (Z.to_nat (ec - sc))) (sgr0 ++ repeat 32%N (Z.to_nat (ec - sc)))).
    apply Eff_id_pn; [exact Eff_sgr0|apply Eff_spaces].
  - destruct (first_cell image row sc) as [fc|] eqn:E; [|discriminate]. intros [= <-].
    change (Eff (pn (Z.to_nat (ec - sc))) (sgr0 ++ id_colors image placement ++ fc ++
              concat (map (other_cell image row) (zrange (sc + 1) (Z.to_nat (ec - sc - 1)))) ++ sgr0)).
    apply Eff_id_pn; [exact Eff_sgr0|]. apply Eff_id_pn; [apply Eff_id_colors|].
    replace (Z.to_nat (ec - sc)) with (1 + Z.to_nat (ec - sc - 1))%nat by lia.
    apply Eff_pn_app; [eapply Eff_first_cell; exact E|].
    apply Eff_pn_id; [|exact Eff_sgr0].
    pose proof (Eff_cells image row (zrange (sc + 1) (Z.to_nat (ec - sc - 1)))) as H.
    rewrite zrange_length in H. exact H.
Qed.

Lemma all_some_Forall {A B} (f : A -> option B) (P : B -> Prop) :
  (forall x y, f x = Some y -> P y) -> forall l r, all_some (map f l) = Some r -> Forall P r /\ length r = length l.
Proof.
  intros Hf. induction l as [|x l IH]; intros r; cbn [map all_some length].
  - intros [= <-]. split; [constructor|reflexivity].
  - destruct (f x) as [y|] eqn:E; [|discriminate]. destruct (all_some (map f l)) as [r'|]; [|discriminate].
    intros [= <-]. destruct (IH r' eq_refl) as [F L]. split; [constructor; [eapply Hf; exact E|exact F]|cbn [length]; lia].
Qed.

Lemma ph_lines_Eff a lines : ph_sc a < ph_ec a -> ph_lines a = Some lines ->
  Forall (Eff (pn (Z.to_nat (ph_ec a - ph_sc a)))) lines /\ length lines = Z.to_nat (ph_er a - ph_sr a).
Proof.
  intros Hlt H. unfold ph_lines in H.
  destruct (all_some_Forall _ (Eff (pn (Z.to_nat (ph_ec a - ph_sc a))))
              (fun row l => Eff_ph_line (ph_image a) (ph_placement a) (ph_sc a) (ph_ec a) row l Hlt) _ _ H) as [F L].
  split; [exact F|]. rewrite L, zrange_length. reflexivity.
Qed.

(* whatever the geometry, printing a placeholder is harmless for the terminal state *)
Lemma Ben_pn n bs : Eff (pn n) bs -> Ben bs.
Proof. intros H. eapply Ben_of_Eff; [exact H|]. intros t Ht. apply pn_good. exact Ht. Qed.
Lemma Ben_Eff_good f bs : Eff f bs -> (forall t, wf t -> good t (f t)) -> Ben bs.
Proof. apply Ben_of_Eff. Qed.

Lemma Ben_stream_at_cursor n sv lf width lines : 1 <= width -> Forall (Eff (pn n)) lines ->
  Ben (stream_at_cursor lines sv lf width).
Proof.
  intros Hw. induction 1 as [|l rest Hl _ IH]; [exact Ben_nil|].
  destruct rest as [|l2 rest'].
  - cbn [stream_at_cursor]. eapply Ben_pn. exact Hl.
  - change (stream_at_cursor (l :: l2 :: rest') sv lf width) with
      ((if negb lf && sv then cg_ph_save else []) ++ l ++
       (if lf then cg_ph_lf else (if sv then cg_ph_restore else fmt_d cg_ph_back [width]) ++ cg_ph_ind) ++
       stream_at_cursor (l2 :: rest') sv lf width).
    apply Ben_app.
    { destruct (negb lf && sv); [|exact Ben_nil]. eapply Ben_Eff_good; [exact Eff_ph_save|apply save_good]. }
    apply Ben_app; [eapply Ben_pn; exact Hl|]. apply Ben_app; [|exact IH].
    destruct lf.
    + eapply Ben_Eff_good; [exact Eff_ph_lf|apply index_good].
    + apply Ben_app; [|eapply Ben_Eff_good; [exact Eff_ph_ind|apply index_good]].
      destruct sv.
      * eapply Ben_Eff_good; [exact Eff_ph_restore|apply restore_good].
      * eapply Ben_Eff_good; [apply Eff_ph_back; exact Hw|]. intros t Ht. apply left_good. exact Ht.
Qed.

Lemma Ben_stream_abs n lines : Forall (Eff (pn n)) lines -> forall px py, 0 <= px -> 0 <= py ->
  Ben (stream_abs lines px py).
Proof.
  induction 1 as [|l rest Hl _ IH]; intros px py Hx Hy; [exact Ben_nil|].
  cbn [stream_abs]. apply Ben_app.
  - eapply Ben_Eff_good; [apply Eff_ph_cup; assumption|]. intros t Ht. apply goto_good. exact Ht.
  - apply Ben_app; [eapply Ben_pn; exact Hl|]. apply IH; lia.
Qed.

(* ------------------------------------------------------------------ reading the cursor position report *)
Lemma until_byte_app c l r : Forall (fun b => b <> c) l -> until_byte c (l ++ c :: r) = Some (l, r).
Proof.
  induction 1 as [|b l Hb _ IH]; cbn [app until_byte].
  - rewrite N.eqb_refl. reflexivity.
  - destruct (b =? c)%N eqn:E; [lia|]. rewrite IH. reflexivity.
Qed.
Lemma split_byte_none c l : Forall (fun b => b <> c) l -> split_byte c l = [l].
Proof.
  induction 1 as [|b l Hb _ IH]; cbn [split_byte]; [reflexivity|].
  destruct (b =? c)%N eqn:E; [lia|]. rewrite IH. reflexivity.
Qed.
Lemma split_byte_two c l1 l2 : Forall (fun b => b <> c) l1 -> Forall (fun b => b <> c) l2 ->
  split_byte c (l1 ++ c :: l2) = [l1; l2].
Proof.
  intros H1 H2. induction H1 as [|b l Hb _ IH]; cbn [app split_byte].
  - rewrite N.eqb_refl, split_byte_none by exact H2. reflexivity.
  - destruct (b =? c)%N eqn:E; [lia|]. rewrite IH. reflexivity.
Qed.
Lemma dec_not c n : (c < 48 \/ 57 < c)%N -> Forall (fun b => b <> c) (dec n).
Proof.
  intros Hc. pose proof (dec_is_digits n) as H. rewrite Forall_forall in *. intros b Hb. specialize (H b Hb).
  unfold is_digit in H. lia.
Qed.
Lemma pyint_dec n : pyint (dec n) = Some (Z.of_N n).
Proof.
  unfold pyint. destruct (dec n) as [|b r] eqn:E; [exfalso; eapply dec_nonempty; exact E|]. rewrite <- E.
  assert (all_digits (dec n) = true) as ->.
  { unfold all_digits. apply forallb_forall. intros x Hx. pose proof (dec_is_digits n) as H. rewrite Forall_forall in H.
    apply H in Hx. exact Hx. }
  rewrite undec_dec. reflexivity.
Qed.

(* ------------------------------------------------------------------ worlds *)
Notation TS := (pst * vt)%type.
Definition mkw (t : vt) (tr : option (Z * Z)) (mf : bool) (out : list N) : world TS := World (PGround, t) [] out tr mf.
Definition C (W H : Z) (sc : bool) : cfg := Cfg all_fixed W H sc.

Lemma wr_Eff f bs t tr mf out : Eff f bs -> wr TS vt_feed (mkw t tr mf out) bs = mkw (f t) tr mf (out ++ bs).
Proof. intros H. unfold wr, mkw. cbn [w_term w_in w_out w_tr w_mflag]. rewrite H. reflexivity. Qed.
Lemma wr_Ben bs t tr mf out : Ben bs -> wf t ->
  exists t', wr TS vt_feed (mkw t tr mf out) bs = mkw t' tr mf (out ++ bs) /\ good t t'.
Proof.
  intros Hb Ht. destruct (Hb t Ht) as (t' & E & G). exists t'. split; [|exact G].
  unfold wr, mkw. cbn [w_term w_in w_out w_tr w_mflag]. rewrite E. reflexivity.
Qed.

Definition InvT (W H : Z) (t : vt) (tr : option (Z * Z)) (mf : bool) : Prop :=
  wf t /\ vW t = W /\ vH t = H /\ (forall p, tr = Some p -> vt_cursor t = p) /\ (mf = false -> full t).
Definition Inv (W H : Z) (w : world TS) : Prop := exists t tr mf out, w = mkw t tr mf out /\ InvT W H t tr mf.

Lemma InvT_good W H t t' tr mf : InvT W H t tr mf -> good t t' -> InvT W H t' None mf.
Proof.
  intros (A & B & C0 & D & E) (G1 & (G2 & G3) & G4).
  split; [exact G1|]. split; [congruence|]. split; [congruence|]. split; [intros p Hp; discriminate|].
  intro Hm. apply G4, E, Hm.
Qed.
Lemma InvT_forget W H t tr mf : InvT W H t tr mf -> InvT W H t None mf.
Proof. intros H0. eapply InvT_good; [exact H0|apply good_refl; apply H0]. Qed.

Lemma gcp_eq t tr mf out : wf t ->
  get_cursor_position TS vt_feed (mkw t tr mf out) =
  (mkw t (Some (vx t, vy t)) mf (out ++ cg_cpr_query), RPos (vx t) (vy t)).
Proof.
  intros Ht. unfold get_cursor_position.
  assert (Hw : wr TS vt_feed (mkw t tr mf out) cg_cpr_query =
          World (PGround, t) (cg_cpr_intro ++ (vt_dec (vy t + 1) ++ 59%N :: vt_dec (vx t + 1)) ++ 82%N :: [])
                (out ++ cg_cpr_query) tr mf).
  { unfold wr, mkw. cbn [w_term w_in w_out w_tr w_mflag]. rewrite feed_cpr. cbn [app]. f_equal.
    change cg_cpr_intro with [27; 91]%N. cbn [app]. rewrite <- !app_assoc. reflexivity. }
  rewrite Hw. cbn [w_in].
  change (after_sub cg_cpr_intro (cg_cpr_intro ++ (vt_dec (vy t + 1) ++ 59%N :: vt_dec (vx t + 1)) ++ [82%N]))
    with (Some ((vt_dec (vy t + 1) ++ 59%N :: vt_dec (vx t + 1)) ++ [82%N])).
  change (single cg_cpr_final) with 82%N. change (single cg_cpr_sep) with 59%N. cbv beta iota.
  rewrite until_byte_app.
  2:{ apply Forall_app. split; [apply dec_not; lia|]. constructor; [lia|apply dec_not; lia]. }
  cbv beta iota. unfold set_in. cbn [w_term w_in w_out w_tr w_mflag].
  rewrite split_byte_two by (apply dec_not; lia).
  unfold vt_dec. rewrite !pyint_dec. unfold set_tr, mkw. cbn [w_term w_in w_out w_tr w_mflag].
  unfold wf in Ht. replace (Z.of_N (Z.to_N (vx t + 1)) - 1) with (vx t) by lia.
  replace (Z.of_N (Z.to_N (vy t + 1)) - 1) with (vy t) by lia. reflexivity.
Qed.

(* ------------------------------------------------------------------ relative moves *)
Definition vmove (t : vt) (d : option Z) : vt :=
  if truthy d then (if 0 <? or0 d then vt_down t (or0 d) else vt_up t (- or0 d)) else t.
Definition hmove (t : vt) (r : option Z) : vt :=
  if truthy r then (if 0 <? or0 r then vt_right t (or0 r) else vt_left t (- or0 r)) else t.
Definition clampW (W x : Z) := Z.max 0 (Z.min x (W - 1)).
Definition tr_move (W H : Z) (tr : option (Z * Z)) (mf : bool) (vd vr : option Z) : option (Z * Z) :=
  if truthy vd && mf then None else
  match tr with Some (tx, ty) => Some (clampW W (tx + or0 vr), clampW H (ty + or0 vd)) | None => None end.

Lemma move_core_eq W H sc t tr mf out vd vr :
  exists out', move_core TS vt_feed (C W H sc) (mkw t tr mf out) vd vr = mkw (hmove (vmove t vd) vr) (tr_move W H tr mf vd vr) mf out'.
Proof.
  unfold move_core, vmove, hmove, tr_move. cbv zeta.
  destruct (truthy vd) eqn:Td; [destruct (0 <? or0 vd) eqn:Pd|];
  (destruct (truthy vr) eqn:Tr; [destruct (0 <? or0 vr) eqn:Pr|]);
  unfold truthy in Td, Tr; destruct vd as [d|]; destruct vr as [r|]; try discriminate; cbn [or0] in *;
  rewrite ?(wr_Eff _ _ _ _ _ _ (Eff_cud d ltac:(lia))), ?(wr_Eff _ _ _ _ _ _ (Eff_cuu (- d) ltac:(lia)));
  rewrite ?(wr_Eff _ _ _ _ _ _ (Eff_cuf r ltac:(lia))), ?(wr_Eff _ _ _ _ _ _ (Eff_cub (- r) ltac:(lia)));
  cbn [C c_fix all_fixed fx_marg fx_low mkw w_mflag w_tr set_tr set_tracked w_term w_in w_out andb cW cH];
  destruct mf; cbn [andb mkw w_mflag w_tr set_tr set_tracked w_term w_in w_out]; destruct tr as [[tx ty]|];
  cbn [C c_fix all_fixed fx_marg fx_low mkw w_mflag w_tr set_tr set_tracked w_term w_in w_out andb cW cH];
  eexists; reflexivity.
Qed.

Lemma vmove_spec t vd : wf t -> (truthy vd = true -> full t) ->
  vx (vmove t vd) = vx t /\ vy (vmove t vd) = clampW (vH t) (vy t + or0 vd) /\ good t (vmove t vd).
Proof.
  intros Hwf Hfull. split; [|split].
  - unfold vmove. destruct (truthy vd); [destruct (0 <? or0 vd)|]; unfold vt_down, vt_up, vt_goto, wf in *; fields; lia.
  - unfold vmove, clampW. destruct (truthy vd) eqn:T.
    + specialize (Hfull eq_refl). unfold truthy in T. destruct vd as [d|]; [|discriminate]. cbn [or0].
      destruct (0 <? d) eqn:P; unfold vt_down, vt_up, vt_goto, wf, full in *; fields; splitifs; lia.
    + unfold truthy in T. destruct vd as [d|]; cbn [or0]; unfold wf in *; lia.
  - unfold vmove. destruct (truthy vd); [destruct (0 <? or0 vd); [apply down_good|apply up_good]|apply good_refl]; exact Hwf.
Qed.
Lemma hmove_spec t vr : wf t ->
  vy (hmove t vr) = vy t /\ vx (hmove t vr) = clampW (vW t) (vx t + or0 vr) /\ good t (hmove t vr).
Proof.
  intros Hwf. split; [|split].
  - unfold hmove. destruct (truthy vr); [destruct (0 <? or0 vr)|]; unfold vt_right, vt_left, vt_goto, wf in *; fields; lia.
  - unfold hmove, clampW. destruct (truthy vr) eqn:T.
    + unfold truthy in T. destruct vr as [r|]; [|discriminate]. cbn [or0].
      destruct (0 <? r) eqn:P; unfold vt_right, vt_left, vt_goto, wf in *; fields; lia.
    + unfold truthy in T. destruct vr as [r|]; cbn [or0]; unfold wf in *; lia.
  - unfold hmove. destruct (truthy vr); [destruct (0 <? or0 vr); [apply right_good|apply left_good]|apply good_refl]; exact Hwf.
Qed.

Lemma move_sound W H t tr mf vd vr : InvT W H t tr mf -> InvT W H (hmove (vmove t vd) vr) (tr_move W H tr mf vd vr) mf.
Proof.
  intros (Hwf & HW & HH & Hc & Hf).
  assert (Hfull : truthy vd && mf = false -> truthy vd = true -> full t).
  { intros Tm T. apply Hf. destruct mf; [rewrite T in Tm; discriminate|reflexivity]. }
  unfold tr_move. destruct (truthy vd && mf) eqn:Tm.
  - (* position forgotten *)
    assert (G : good t (hmove (vmove t vd) vr)).
    { unfold hmove, vmove.
      assert (G1 : good t (if truthy vd then if 0 <? or0 vd then vt_down t (or0 vd) else vt_up t (- or0 vd) else t)).
      { destruct (truthy vd); [destruct (0 <? or0 vd); [apply down_good|apply up_good]|apply good_refl]; exact Hwf. }
      eapply good_trans; [exact G1|].
      destruct (truthy vr); [destruct (0 <? or0 vr); [apply right_good|apply left_good]|apply good_refl]; apply G1. }
    exact (InvT_good W H t _ tr mf (conj Hwf (conj HW (conj HH (conj Hc Hf)))) G).
  - destruct (vmove_spec t vd Hwf (Hfull eq_refl)) as (V1 & V2 & V3).
    destruct (hmove_spec (vmove t vd) vr ltac:(apply V3)) as (H1 & H2 & H3).
    pose proof (good_trans _ _ _ V3 H3) as (G1 & (G2 & G3) & G4).
    split; [exact G1|]. split; [congruence|]. split; [congruence|]. split; [|intro Hm; apply G4, Hf, Hm].
    intros p Hp. destruct tr as [[tx ty]|]; [|discriminate].
    specialize (Hc _ eq_refl). unfold vt_cursor in Hc. injection Hc as Hx Hy. injection Hp as <-.
    unfold vt_cursor. rewrite H2, H1, V1, V2. destruct V3 as (_ & (V4 & V5) & _). rewrite V4. subst. reflexivity.
Qed.

(* ------------------------------------------------------------------ absolute moves *)
Definition abs_t (t : vt) (col row : option Z) : vt :=
  let t1 := match row with Some r => vt_goto t (vx t) r | None => t end in
  match col with Some k => vt_goto t1 k (vy t1) | None => t1 end.
Definition tr_abs (W H : Z) (tr : option (Z * Z)) (col row : option Z) : option (Z * Z) :=
  match tr with
  | Some (tx, ty) => Some (clampW W (match col with Some k => k | None => tx end),
                           clampW H (match row with Some r => r | None => ty end))
  | None => match col, row with Some k, Some r => Some (clampW W k, clampW H r) | _, _ => None end
  end.
Definition arg_ok (o : option Z) : Prop := forall v, o = Some v -> 0 <= v.

Lemma abs_eq W H sc t tr mf out col row : arg_ok col -> arg_ok row ->
  exists out', move_cursor_abs TS vt_feed (C W H sc) (mkw t tr mf out) col row =
               mkw (abs_t t col row) (tr_abs W H tr col row) mf out'.
Proof.
  intros Hc Hr. unfold move_cursor_abs, abs_t, tr_abs. cbv zeta.
  destruct row as [r|]; [rewrite (wr_Eff _ _ _ _ _ _ (Eff_vpa r (Hr r eq_refl)))|];
  (destruct col as [k|]; [rewrite (wr_Eff _ _ _ _ _ _ (Eff_cha k (Hc k eq_refl)))|]);
  cbn [mkw w_tr]; destruct tr as [[tx ty]|];
  cbn [C c_fix all_fixed fx_abs fx_low pick_abs mkw w_mflag w_tr set_tr set_tracked w_term w_in w_out cW cH];
  eexists; reflexivity.
Qed.

Lemma abs_sound W H t tr mf col row : InvT W H t tr mf -> InvT W H (abs_t t col row) (tr_abs W H tr col row) mf.
Proof.
  intros (Hwf & HW & HH & Hc & Hf).
  assert (G : good t (abs_t t col row)).
  { unfold abs_t. cbv zeta.
    assert (G1 : good t (match row with Some r => vt_goto t (vx t) r | None => t end)).
    { destruct row; [apply goto_good|apply good_refl]; exact Hwf. }
    destruct col; [|exact G1]. eapply good_trans; [exact G1|apply goto_good; apply G1]. }
  destruct G as (G1 & (G2 & G3) & G4).
  split; [exact G1|]. split; [congruence|]. split; [congruence|]. split; [|intro Hm; apply G4, Hf, Hm].
  intros p Hp. unfold tr_abs in Hp. unfold abs_t, vt_cursor, clampW in *. cbv zeta.
  destruct tr as [[tx ty]|].
  - specialize (Hc _ eq_refl). injection Hc as Hx Hy. injection Hp as <-.
    destruct col, row; unfold vt_goto, wf in *; fields; f_equal; lia.
  - destruct col as [k|]; [|discriminate]. destruct row as [r|]; [|discriminate]. injection Hp as <-.
    unfold vt_goto, wf in *; fields; f_equal; lia.
Qed.

(* ------------------------------------------------------------------ reset *)
Lemma reset_inv W H sc t tr mf out : InvT W H t tr mf -> Inv W H (reset TS vt_feed (C W H sc) (mkw t tr mf out)).
Proof.
  intros I. pose proof I as (Hwf & HW & HH & Hc & Hf). unfold reset. destruct sc; cbn [C c_scroll].
  - cbv zeta. rewrite (wr_Eff _ _ _ _ _ _ Eff_reset_sgr), (wr_Eff _ _ _ _ _ _ Eff_reset_margins).
    change (fx_marg (c_fix (C W H true))) with true. change (cH (C W H true)) with H. cbv iota.
    unfold set_mflag. cbn [mkw w_term w_in w_out w_tr w_mflag].
    unfold scroll_up.
    change (World (PGround, vt_decstbm t 0 0) [] ((out ++ cg_reset_sgr) ++ cg_reset_margins) tr false)
      with (mkw (vt_decstbm t 0 0) tr false ((out ++ cg_reset_sgr) ++ cg_reset_margins)).
    rewrite (wr_Eff _ _ _ _ _ _ (Eff_su H ltac:(unfold wf in Hwf; lia))).
    unfold set_tr. cbn [mkw w_term w_in w_out w_tr w_mflag].
    match goal with |- Inv _ _ (move_cursor_abs _ _ _ ?w _ _) =>
      change w with (mkw (vt_decstbm t 0 0) None false (((out ++ cg_reset_sgr) ++ cg_reset_margins) ++ fmt_d cg_su [H])) end.
    destruct (abs_eq W H true (vt_decstbm t 0 0) None false
                (((out ++ cg_reset_sgr) ++ cg_reset_margins) ++ fmt_d cg_su [H]) (Some 0) (Some 0)) as [out' E];
      [intros v [= <-]; lia|intros v [= <-]; lia|].
    rewrite E. eexists _, _, _, _. split; [reflexivity|]. apply abs_sound.
    destruct (decstbm_reset_full t Hwf) as (F1 & F2 & (F3 & F4)).
    split; [exact F2|]. split; [congruence|]. split; [congruence|]. split; [intros p Hp; discriminate|intros _; exact F1].
  - rewrite (wr_Eff _ _ _ _ _ _ Eff_reset_ris).
    change (fx_marg (c_fix (C W H false))) with true. cbv iota.
    unfold set_mflag, set_tr. cbn [mkw w_term w_in w_out w_tr w_mflag].
    exists (vt_blank (vW t) (vH t)), (Some (0, 0)), false, (out ++ cg_reset_ris). split; [reflexivity|].
    unfold wf in Hwf. unfold InvT, wf, full, vt_blank, vt_cursor. fields.
    repeat split; try lia. intros p [= <-]. reflexivity.
Qed.

(* ------------------------------------------------------------------ printing a placeholder *)
Definition ph_bytes (a : phargs) (lines : list (list N)) : list N :=
  match ph_pos a with
  | Some (px, py) => stream_abs lines px py
  | None => stream_at_cursor lines (ph_save a) (ph_lf a) (ph_ec a - ph_sc a)
  end.
Definition pos_ok (a : phargs) : Prop := forall px py, ph_pos a = Some (px, py) -> 0 <= px /\ 0 <= py.

Lemma ph_valid_lt a : ph_valid a = true -> ph_sc a < ph_ec a /\ ph_sr a < ph_er a.
Proof. unfold ph_valid. intros H. lia. Qed.

Lemma pp_cases W H sc t tr mf out a : wf t -> pos_ok a ->
  let r := print_placeholder TS vt_feed (C W H sc) (mkw t tr mf out) a in
  (snd r <> ROk /\ fst r = mkw t tr mf out) \/
  (snd r = ROk /\ exists lines t', ph_valid a = true /\ ph_lines a = Some lines /\
      vt_feed (PGround, t) (ph_bytes a lines) = ((PGround, t'), []) /\ good t t' /\
      fst r = mkw t' None mf (out ++ ph_bytes a lines)).
Proof.
  intros Hwf Hpos. cbv zeta. unfold print_placeholder.
  assert (Main : (let r := if negb (ph_valid a) then (mkw t tr mf out, RValueError) else
      match ph_lines a with
      | None => (mkw t tr mf out, RIndexError)
      | Some lines =>
          (if fx_ph (c_fix (C W H sc)) then set_tr TS (wr TS vt_feed (mkw t tr mf out) (ph_bytes a lines)) None
           else wr TS vt_feed (mkw t tr mf out) (ph_bytes a lines), ROk)
      end in
    (snd r <> ROk /\ fst r = mkw t tr mf out) \/
    (snd r = ROk /\ exists lines t', ph_valid a = true /\ ph_lines a = Some lines /\
      vt_feed (PGround, t) (ph_bytes a lines) = ((PGround, t'), []) /\ good t t' /\
      fst r = mkw t' None mf (out ++ ph_bytes a lines)))).
  { cbv zeta. destruct (ph_valid a) eqn:V; cbn [negb]; [|left; split; [discriminate|reflexivity]].
    destruct (ph_lines a) as [lines|] eqn:L; [|left; split; [discriminate|reflexivity]].
    right. split; [reflexivity|]. destruct (ph_valid_lt a V) as [Hc Hr].
    destruct (ph_lines_Eff a lines Hc L) as [F _].
    assert (B : Ben (ph_bytes a lines)).
    { unfold ph_bytes. destruct (ph_pos a) as [[px py]|] eqn:P.
      - destruct (Hpos px py P) as [Hx Hy]. eapply Ben_stream_abs; eassumption.
      - eapply Ben_stream_at_cursor; [lia|exact F]. }
    destruct (B t Hwf) as (t' & E & G). exists lines, t'. split; [reflexivity|]. split; [reflexivity|].
    split; [exact E|]. split; [exact G|].
    cbn [C c_fix all_fixed fx_ph fst]. unfold wr, mkw, set_tr. cbn [w_term w_in w_out w_tr w_mflag]. rewrite E. reflexivity. }
  unfold ph_bytes in Main. revert Main. unfold ph_bytes.
  destruct (ph_pos a) as [[px py]|]; [destruct (ph_lf a)|]; intros Main; try exact Main.
  left. split; [discriminate|reflexivity].
Qed.

(* ------------------------------------------------------------------ the block printed by print_placeholder_for_put
   (save / line / restore / IND per row, the last row without) on a screen without scroll margins: it ends in the
   column after the block (or pending in the last column) on row min(y + rows - 1, H - 1) *)
Lemma block_spec n width : forall lines, Forall (Eff (pn n)) lines -> lines <> [] ->
  forall t, wf t -> full t -> vpend t = false -> (1 <= n)%nat -> vx t + Z.of_nat n <= vW t ->
  exists t', vt_feed (PGround, t) (stream_at_cursor lines true false width) = ((PGround, t'), []) /\
             vx t' = Z.min (vx t + Z.of_nat n) (vW t - 1) /\ vpend t' = (vx t + Z.of_nat n =? vW t) /\
             vy t' = Z.min (vy t + Z.of_nat (length lines) - 1) (vH t - 1) /\ good t t'.
Proof.
  induction 1 as [|l rest Hl Hrest IH]; intros Hne t Hwf Hfull Hp Hn Hfit; [congruence|].
  destruct rest as [|l2 rest'].
  - cbn [stream_at_cursor length]. exists (pn n t). split; [apply Hl|].
    destruct (pn_spec n t Hwf Hp Hfit) as (A1 & _ & _ & _ & _ & _ & _ & A8 & _ & A10).
    destruct (A10 ltac:(lia)) as [B1 B2]. split; [exact B1|]. split; [exact B2|].
    split; [unfold wf in Hwf; lia|apply pn_good; exact Hwf].
  - change (stream_at_cursor (l :: l2 :: rest') true false width) with
      (cg_ph_save ++ l ++ (cg_ph_restore ++ cg_ph_ind) ++ stream_at_cursor (l2 :: rest') true false width).
    set (t1 := vt_save t).
    assert (W1 : wf t1) by (apply save_good; exact Hwf).
    destruct (pn_spec n t1 W1 Hp ltac:(exact Hfit)) as (A1 & A2 & A3 & A4 & A5 & A6 & A7 & A8 & _ & _).
    set (t2 := pn n t1) in *.
    assert (W2 : wf t2) by (apply pn_good; exact W1).
    set (t4 := vt_index (vt_restore t2)).
    assert (W4 : good t t4).
    { eapply good_trans; [apply save_good; exact Hwf|]. eapply good_trans; [apply pn_good; exact W1|].
      eapply good_trans; [apply restore_good; exact W2|]. apply index_good. apply restore_good. exact W2. }
    assert (X4 : vx t4 = vx t /\ vpend t4 = false /\ vy t4 = Z.min (vy t + 1) (vH t - 1)).
    { unfold t4, vt_index, vt_restore, vt_goto. fields. rewrite A2, A3, A6, A7, A8. unfold t1, vt_save. fields.
      unfold wf, full in *. destruct (vy t =? vbot t) eqn:E; fields; lia. }
    destruct X4 as (X1 & X2 & X3). destruct W4 as (G1 & (G2 & G3) & G4).
    destruct (IH ltac:(discriminate) t4 G1 (G4 Hfull) X2 Hn ltac:(lia)) as (t' & E & R1 & R2 & R3 & R4).
    exists t'. split.
    { rewrite feed_app, (Eff_ph_save t). rewrite feed_app, (Hl (vt_save t)). rewrite feed_app.
      rewrite feed_app, (Eff_ph_restore (pn n (vt_save t))), (Eff_ph_ind (vt_restore (pn n (vt_save t)))).
      fold t1. fold t2. fold t4. rewrite E. reflexivity. }
    split; [lia|]. split; [rewrite R2, X1, G2; reflexivity|].
    split; [rewrite R3, X3, G3; cbn [length]; unfold wf in Hwf; lia|].
    eapply good_trans; [|exact R4]. split; [exact G1|]. split; [split; assumption|exact G4].
Qed.

(* ------------------------------------------------------------------ print_placeholder_for_put *)
Lemma Inv_mkw W H t tr mf out : InvT W H t tr mf -> Inv W H (mkw t tr mf out).
Proof. intros I. exists t, tr, mf, out. split; [reflexivity|exact I]. Qed.

Lemma gcpt_eq t tr mf out : wf t -> (forall p, tr = Some p -> vt_cursor t = p) ->
  exists out', get_cursor_position_tracked TS vt_feed (mkw t tr mf out) =
               (mkw t (Some (vx t, vy t)) mf out', RPos (vx t) (vy t)).
Proof.
  intros Hwf Hc. unfold get_cursor_position_tracked. cbn [mkw w_tr]. destruct tr as [[tx ty]|].
  - specialize (Hc _ eq_refl). unfold vt_cursor in Hc. injection Hc as <- <-. eexists. reflexivity.
  - fold (mkw t None mf out). rewrite gcp_eq by exact Hwf. eexists. reflexivity.
Qed.

Lemma prepare_inv W H sc t mf out prows dnm : InvT W H t (Some (vx t, vy t)) mf ->
  exists tA trA outA rows, put_prepare TS vt_feed (C W H sc) (mkw t (Some (vx t, vy t)) mf out) (vy t) prows dnm =
                           (mkw tA trA mf outA, rows) /\ InvT W H tA trA mf /\ vx tA = vx t.
Proof.
  intros I. pose proof I as (Hwf & HW & HH & Hc & Hf). unfold put_prepare. change (cH (C W H sc)) with H.
  destruct (H - vy t <? prows) eqn:E; [destruct dnm|].
  - eexists _, _, _, _. split; [reflexivity|]. split; [exact I|reflexivity].
  - cbv zeta. rewrite (wr_Eff _ _ _ _ _ _ (Eff_put_scroll (prows - (H - vy t)) ltac:(lia))).
    unfold move_cursor.
    destruct (move_core_eq W H sc t (Some (vx t, vy t)) mf (out ++ fmt_d cg_put_scroll [prows - (H - vy t)])
                (Some (- (prows - (H - vy t)))) None) as [out' Em].
    rewrite Em. cbn [fst].
    eexists _, _, _, _. split; [reflexivity|]. split; [apply move_sound; exact I|].
    unfold hmove. cbn [truthy].
    assert (Hfull : truthy (Some (- (prows - (H - vy t)))) = true -> mf = true \/ full t).
    { intros _. destruct mf; [left; reflexivity|right; apply Hf; reflexivity]. }
    unfold vmove. cbn [truthy or0]. destruct (negb (- (prows - (H - vy t)) =? 0)); [|reflexivity].
    destruct (0 <? - (prows - (H - vy t))); unfold vt_down, vt_up, vt_goto, wf in *; fields; lia.
  - eexists _, _, _, _. split; [reflexivity|]. split; [exact I|reflexivity].
Qed.

(* the final cursor movement, when nothing is claimed about where the printing left the cursor *)
Lemma finish_inv_any W H sc t mf out cx cy cols rows dnm : InvT W H t None mf -> 0 <= cx -> 0 <= cy ->
  (dnm = true \/ mf = true) ->
  Inv W H (put_finish TS vt_feed (C W H sc) (mkw t None mf out) cx cy cols rows dnm).
Proof.
  intros I Hx Hy Hcase. pose proof I as (Hwf & HW & HH & Hc & Hf). unfold put_finish. cbv zeta.
  change (fx_marg (c_fix (C W H sc))) with true. change (cW (C W H sc)) with W.
  destruct dnm.
  - destruct (abs_eq W H sc t None mf out (Some cx) (Some cy)) as [out' E];
      [intros v [= <-]; exact Hx|intros v [= <-]; exact Hy|].
    rewrite E. cbn [negb andb mkw w_mflag]. rewrite andb_false_r. apply Inv_mkw. apply abs_sound. exact I.
  - destruct Hcase as [Hd|Hm]; [discriminate|]. subst mf.
    destruct (W <=? cx + cols).
    + rewrite (wr_Eff _ _ _ _ _ _ Eff_put_nel). unfold set_tracked, set_tr. cbn [mkw w_term w_in w_out w_tr w_mflag andb negb].
      apply (Inv_mkw W H (vt_cr (vt_index t)) None true). eapply InvT_good; [exact I|].
      eapply good_trans; [apply index_good; exact Hwf|apply cr_good; apply index_good; exact Hwf].
    + unfold set_tracked, set_tr. cbn [mkw w_term w_in w_out w_tr w_mflag andb negb].
      apply (Inv_mkw W H t None true). exact I.
Qed.

(* ... and when the printing ended where block_spec says *)
Lemma finish_inv_exact W H sc t out cx cy cols rows : InvT W H t None false ->
  0 <= cx -> 0 <= cy < H -> 1 <= cols -> 1 <= rows -> cx + cols <= W ->
  vx t = Z.min (cx + cols) (W - 1) -> vpend t = (cx + cols =? W) -> vy t = Z.min (cy + rows - 1) (H - 1) ->
  Inv W H (put_finish TS vt_feed (C W H sc) (mkw t None false out) cx cy cols rows false).
Proof.
  intros I Hx Hy Hc1 Hr1 Hfit Ex Ep Ey. pose proof I as (Hwf & HW & HH & Hc & Hf). specialize (Hf eq_refl).
  unfold put_finish. cbv zeta. change (fx_marg (c_fix (C W H sc))) with true. change (cW (C W H sc)) with W.
  destruct (W <=? cx + cols) eqn:E.
  - rewrite (wr_Eff _ _ _ _ _ _ Eff_put_nel). unfold set_tracked, set_tr.
    cbn [C c_fix all_fixed fx_low cW cH mkw w_term w_in w_out w_tr w_mflag andb negb].
    apply Inv_mkw.
    assert (G : good t (vt_cr (vt_index t))) by
      (eapply good_trans; [apply index_good; exact Hwf|apply cr_good; apply index_good; exact Hwf]).
    destruct G as (G1 & (G2 & G3) & G4).
    split; [exact G1|]. split; [congruence|]. split; [congruence|]. split; [|intros _; apply G4, Hf].
    intros p [= <-]. unfold vt_cursor, vt_cr, vt_index, vt_goto, wf, full in *. fields.
    destruct (vy t =? vbot t) eqn:Eb; fields; f_equal; lia.
  - unfold set_tracked, set_tr. cbn [C c_fix all_fixed fx_low cW cH mkw w_term w_in w_out w_tr w_mflag andb negb].
    apply Inv_mkw. split; [exact Hwf|]. split; [exact HW|]. split; [exact HH|]. split; [|intros _; exact Hf].
    intros p [= <-]. unfold vt_cursor, wf in *. f_equal; lia.
Qed.

Lemma print_inv W H sc t tr mf out image placement cols rows dnm : InvT W H t tr mf ->
  1 <= cols -> 1 <= rows -> vx t + cols <= W ->
  Inv W H (fst (put_print TS vt_feed (C W H sc) (mkw t tr mf out) image placement cols rows dnm)).
Proof.
  intros I Hc1 Hr1 Hfit. pose proof I as (Hwf & HW & HH & Hc & Hf). unfold put_print.
  rewrite gcp_eq by exact Hwf. cbv zeta. change (fx_pend (c_fix (C W H sc))) with true. cbv iota.
  assert (Hx0 : 0 <= vx t) by (unfold wf in Hwf; lia).
  rewrite (wr_Eff _ _ _ _ _ _ (Eff_put_cha (vx t) Hx0)). unfold set_tr at 1. cbn [mkw w_term w_in w_out w_tr w_mflag].
  set (tB := vt_goto t (vx t) (vy t)). set (outB := (out ++ cg_cpr_query) ++ fmt_d cg_put_cha [vx t + 1]).
  change (World (PGround, tB) [] outB None mf) with (mkw tB None mf outB).
  assert (GB : good t tB) by (apply goto_good; exact Hwf).
  assert (IB : InvT W H tB None mf) by (eapply InvT_good; [exact I|exact GB]).
  assert (FB : vx tB = vx t /\ vy tB = vy t /\ vpend tB = false) by (unfold tB, vt_goto, wf in *; fields; lia).
  destruct FB as (FB1 & FB2 & FB3).
  set (a := PhArgs image placement 0 0 cols rows None true false).
  destruct (pp_cases W H sc tB None mf outB a ltac:(apply GB) ltac:(intros px py P; discriminate)) as [[Hr Hw]|[Hr Hw]];
    destruct (print_placeholder TS vt_feed (C W H sc) (mkw tB None mf outB) a) as [w' r]; cbn [fst snd] in Hr, Hw.
  - destruct r; try congruence; cbn [fst]; subst w'; apply Inv_mkw; exact IB.
  - subst r. destruct Hw as (lines & t' & V & L & E & G & ->). cbn [fst].
    assert (I' : InvT W H t' None mf) by (eapply InvT_good; [exact IB|exact G]).
    destruct dnm; [apply finish_inv_any; [exact I'|lia|unfold wf in Hwf; lia|left; reflexivity]|].
    destruct mf; [apply finish_inv_any; [exact I'|lia|unfold wf in Hwf; lia|right; reflexivity]|].
    (* no margins, cursor moves: the exact end position is needed *)
    destruct (ph_lines_Eff a lines ltac:(cbn [a ph_sc ph_ec]; lia) L) as [F Len]. cbn [a ph_sc ph_ec ph_sr ph_er] in F, Len.
    unfold ph_bytes in E. cbn [a ph_pos ph_save ph_lf ph_ec ph_sc] in E.
    destruct (block_spec (Z.to_nat (cols - 0)) (cols - 0) lines F ltac:(destruct lines; [cbn [length] in Len; lia|discriminate])
                tB ltac:(apply GB) ltac:(apply GB, Hf; reflexivity) FB3 ltac:(lia)
                ltac:(destruct GB as (_ & (GW & _) & _); lia)) as (t'' & E2 & R1 & R2 & R3 & _).
    rewrite E in E2. injection E2 as <-.
    destruct GB as (_ & (GW & GH) & _).
    apply finish_inv_exact; [exact I'|lia|unfold wf in Hwf; lia|lia|lia|lia| | |].
    + rewrite R1, FB1, GW, HW. lia.
    + rewrite R2, FB1, GW, HW. replace (vx t + Z.of_nat (Z.to_nat (cols - 0))) with (vx t + cols) by lia. reflexivity.
    + rewrite R3, FB2, GH, HH, Len. lia.
Qed.

Lemma ppfp_inv W H sc t tr mf out image placement pcols prows dnm : InvT W H t tr mf ->
  Inv W H (fst (print_placeholder_for_put TS vt_feed (C W H sc) (mkw t tr mf out) image placement pcols prows dnm)).
Proof.
  intros I. pose proof I as (Hwf & HW & HH & Hc & Hf). unfold print_placeholder_for_put.
  destruct prows as [prows|]; [|cbn [fst]; apply Inv_mkw; exact I].
  destruct pcols as [pcols|]; [|cbn [fst]; apply Inv_mkw; exact I].
  destruct image as [image|]; [|cbn [fst]; apply Inv_mkw; exact I].
  destruct (gcpt_eq t tr mf out Hwf Hc) as [out1 E1]. rewrite E1. cbv zeta.
  assert (I1 : InvT W H t (Some (vx t, vy t)) mf).
  { split; [exact Hwf|]. split; [exact HW|]. split; [exact HH|]. split; [intros p [= <-]; reflexivity|exact Hf]. }
  destruct (prepare_inv W H sc t mf out1 prows dnm I1) as (tA & trA & outA & rows & E2 & IA & XA).
  rewrite E2. change (cW (C W H sc)) with W.
  destruct ((Z.min pcols (W - vx t) <=? 0) || (rows <=? 0)) eqn:Ez; [cbn [fst]; apply Inv_mkw; exact IA|].
  apply print_inv; [exact IA|lia|lia|lia].
Qed.

(* ------------------------------------------------------------------ every operation keeps the invariant *)
Definition op_ok (o : op) : Prop :=
  match o with
  | OMoveAbs col row => arg_ok col /\ arg_ok row
  | OScrollUp n | OScrollDown n => 0 <= n
  | OSetMargins t b => 0 <= t /\ 0 <= b
  | OWrite bs | OWriteCmd bs => vt_plain bs = true
  | OPrintPlaceholder a => pos_ok a
  | OSendPut g _ _ _ _ _ => vt_null g = true
  | _ => True
  end.

Lemma step_inv W H sc w o : Inv W H w -> op_ok o -> Inv W H (fst (step TS vt_feed (C W H sc) w o)).
Proof.
  intros (t & tr & mf & out & -> & I) Hok. pose proof I as (Hwf & HW & HH & Hc & Hf).
  destruct o as [r d l u|col row| |n|n|top bot|bs|bs| | |a| | |g image placement cols rows dnm]; cbn [step fst op_ok] in *.
  - (* move_cursor *)
    unfold move_cursor.
    destruct u as [u|]; [destruct d as [d|]; [cbn [fst]; apply Inv_mkw; exact I|]|];
    (destruct l as [l|]; [destruct r as [r|]; [cbn [fst]; apply Inv_mkw; exact I|]|]);
    cbn [fst];
    match goal with |- Inv _ _ (move_core _ _ _ _ ?vd ?vr) =>
      destruct (move_core_eq W H sc t tr mf out vd vr) as [out' E]; rewrite E; apply Inv_mkw; apply move_sound; exact I end.
  - destruct Hok as [Hcol Hrow]. destruct (abs_eq W H sc t tr mf out col row Hcol Hrow) as [out' E]. rewrite E.
    apply Inv_mkw. apply abs_sound. exact I.
  - apply reset_inv. exact I.
  - unfold scroll_up. rewrite (wr_Eff _ _ _ _ _ _ (Eff_su n Hok)). unfold set_tr. cbn [mkw w_term w_in w_out w_tr w_mflag].
    apply (Inv_mkw W H t None mf). eapply InvT_forget. exact I.
  - unfold scroll_down. rewrite (wr_Eff _ _ _ _ _ _ (Eff_sd n Hok)). unfold set_tr. cbn [mkw w_term w_in w_out w_tr w_mflag].
    apply (Inv_mkw W H t None mf). eapply InvT_forget. exact I.
  - (* set_margins *)
    destruct Hok as [Ht Hb]. unfold set_margins. rewrite (wr_Eff _ _ _ _ _ _ (Eff_decstbm top bot Ht Hb)).
    change (fx_marg (c_fix (C W H sc))) with true. cbv iota. unfold set_tr, set_mflag. cbn [mkw w_term w_in w_out w_tr w_mflag].
    apply (Inv_mkw W H (vt_decstbm t (top + 1) (bot + 1)) None true).
    destruct (decstbm_wf t (top + 1) (bot + 1) Hwf ltac:(lia) ltac:(lia)) as (D1 & (D2 & D3)).
    split; [exact D1|]. split; [congruence|]. split; [congruence|]. split; [intros p Hp; discriminate|intros Hm; discriminate].
  - destruct (wr_Ben bs t tr mf out (Ben_plain bs Hok) Hwf) as (t' & E & G). rewrite E. unfold set_tr.
    cbn [mkw w_term w_in w_out w_tr w_mflag]. apply (Inv_mkw W H t' None mf). eapply InvT_good; [exact I|exact G].
  - destruct (wr_Ben bs t tr mf out (Ben_plain bs Hok) Hwf) as (t' & E & G). rewrite E. unfold set_tr.
    cbn [mkw w_term w_in w_out w_tr w_mflag]. apply (Inv_mkw W H t' None mf). eapply InvT_good; [exact I|exact G].
  - rewrite (wr_Eff _ _ _ _ _ _ Eff_clear_line). apply Inv_mkw. exact I.
  - rewrite (wr_Eff _ _ _ _ _ _ Eff_clear_screen). apply Inv_mkw. exact I.
  - (* print_placeholder *)
    destruct (pp_cases W H sc t tr mf out a Hwf Hok) as [[Hr Hw]|[Hr Hw]].
    + rewrite Hw. apply Inv_mkw. exact I.
    + destruct Hw as (lines & t' & _ & _ & _ & G & ->). apply Inv_mkw. eapply InvT_good; [exact I|exact G].
  - rewrite gcp_eq by exact Hwf. cbn [fst]. apply Inv_mkw.
    split; [exact Hwf|]. split; [exact HW|]. split; [exact HH|]. split; [intros p [= <-]; reflexivity|exact Hf].
  - destruct (gcpt_eq t tr mf out Hwf Hc) as [out' E]. rewrite E. cbn [fst]. apply Inv_mkw.
    split; [exact Hwf|]. split; [exact HW|]. split; [exact HH|]. split; [intros p [= <-]; reflexivity|exact Hf].
  - rewrite (wr_Eff _ _ _ _ _ _ (Eff_null g Hok)). apply ppfp_inv. exact I.
Qed.

Lemma run_inv W H sc ops : Forall op_ok ops -> forall w, Inv W H w -> Inv W H (run TS vt_feed (C W H sc) w ops).
Proof.
  induction 1 as [|o r Ho _ IH]; intros w I; cbn [run]; [exact I|]. apply IH. apply step_inv; assumption.
Qed.

Lemma start_inv W H : 1 <= W -> 1 <= H -> Inv W H (world0 (vt_start W H)).
Proof.
  intros HW HH. exists (vt_blank W H), None, false, []. split; [reflexivity|].
  unfold InvT, wf, full, vt_blank. fields. repeat split; try lia. intros p Hp; discriminate.
Qed.

(* the statement of C16, for the tracker with all repairs *)
Theorem tracked_sound_fixed W H sc ops : 1 <= W -> 1 <= H -> Forall op_ok ops ->
  let w := run TS vt_feed (C W H sc) (world0 (vt_start W H)) ops in
  fst (w_term w) = PGround /\ w_in w = [] /\
  forall p, w_tr w = Some p -> vt_cursor (snd (w_term w)) = p.
Proof.
  intros HW HH Hok. cbv zeta.
  destruct (run_inv W H sc ops Hok _ (start_inv W H HW HH)) as (t & tr & mf & out & -> & I).
  cbn [mkw w_term w_in w_tr fst snd]. split; [reflexivity|]. split; [reflexivity|]. apply I.
Qed.

Theorem tracked_sound_src W H sc ops : 1 <= W -> 1 <= H -> Forall op_ok ops ->
  let w := run TS vt_feed (Cfg src_fixes W H sc) (world0 (vt_start W H)) ops in
  fst (w_term w) = PGround /\ w_in w = [] /\
  forall p, w_tr w = Some p -> vt_cursor (snd (w_term w)) = p.
Proof. rewrite src_fixes_all. exact (tracked_sound_fixed W H sc ops). Qed.

(* ------------------------------------------------------------------ the model's terminal has received exactly the
   bytes written so far (only [wr] touches the terminal and the output log, and it does both) *)
Definition coh (st0 : TS) (w : world TS) : Prop := fst (vt_feed st0 (w_out w)) = w_term w.

Lemma coh_wr st0 w bs : coh st0 w -> coh st0 (wr TS vt_feed w bs).
Proof.
  unfold coh, wr. intros H. destruct (vt_feed (w_term w) bs) as [t' rep] eqn:E. cbn [w_term w_out].
  rewrite feed_app. destruct (vt_feed st0 (w_out w)) as [s1 r1]. cbn [fst] in H. subst s1. rewrite E. reflexivity.
Qed.
Lemma coh_set_tr st0 w tr : coh st0 w -> coh st0 (set_tr TS w tr). Proof. exact (fun H => H). Qed.
Lemma coh_set_in st0 w i : coh st0 w -> coh st0 (set_in TS w i). Proof. exact (fun H => H). Qed.
Lemma coh_set_mflag st0 w b : coh st0 w -> coh st0 (set_mflag TS w b). Proof. exact (fun H => H). Qed.
Lemma coh_set_tracked st0 c w x y : coh st0 w -> coh st0 (set_tracked TS c w x y). Proof. exact (fun H => H). Qed.

Ltac coh_step :=
  first [ assumption
        | apply coh_set_tr | apply coh_set_in | apply coh_set_mflag | apply coh_set_tracked | apply coh_wr
        | match goal with
          | |- coh _ (fst (if ?c then _ else _)) => destruct c
          | |- coh _ (if ?c then _ else _) => destruct c
          | |- coh _ (fst (match ?x with _ => _ end)) => destruct x
          | |- coh _ (match ?x with _ => _ end) => destruct x
          | |- coh _ (fst (_, _)) => cbn [fst]
          end ].
Ltac coh_auto := cbv zeta; repeat coh_step.

Lemma coh_gcp st0 w : coh st0 w -> coh st0 (fst (get_cursor_position TS vt_feed w)).
Proof. intros H. unfold get_cursor_position. coh_auto. Qed.
Lemma coh_gcpt st0 w : coh st0 w -> coh st0 (fst (get_cursor_position_tracked TS vt_feed w)).
Proof. intros H. unfold get_cursor_position_tracked. destruct (w_tr w) as [[x y]|]; [exact H|apply coh_gcp; exact H]. Qed.
Lemma coh_move_core st0 c w vd vr : coh st0 w -> coh st0 (move_core TS vt_feed c w vd vr).
Proof. intros H. unfold move_core. coh_auto. Qed.
Lemma coh_move_cursor st0 c w r d l u : coh st0 w -> coh st0 (fst (move_cursor TS vt_feed c w r d l u)).
Proof.
  intros H. unfold move_cursor. destruct u, d, l, r; cbn [fst]; try exact H; apply coh_move_core; exact H.
Qed.
Lemma coh_abs st0 c w col row : coh st0 w -> coh st0 (move_cursor_abs TS vt_feed c w col row).
Proof. intros H. unfold move_cursor_abs. coh_auto. Qed.
Lemma coh_reset st0 c w : coh st0 w -> coh st0 (reset TS vt_feed c w).
Proof. intros H. unfold reset. destruct (c_scroll c); cbv zeta; [apply coh_abs; unfold scroll_up|]; coh_auto. Qed.
Lemma coh_pp st0 c w a : coh st0 w -> coh st0 (fst (print_placeholder TS vt_feed c w a)).
Proof. intros H. unfold print_placeholder. coh_auto. Qed.
Lemma coh_prepare st0 c w cy prows dnm : coh st0 w -> coh st0 (fst (put_prepare TS vt_feed c w cy prows dnm)).
Proof.
  intros H. unfold put_prepare. destruct (cH c - cy <? prows); [destruct dnm|]; cbn [fst]; try exact H.
  cbv zeta. apply coh_move_cursor. apply coh_wr. exact H.
Qed.
Lemma coh_finish st0 c w cx cy cols rows dnm : coh st0 w -> coh st0 (put_finish TS vt_feed c w cx cy cols rows dnm).
Proof.
  intros H. unfold put_finish. cbv zeta.
  match goal with |- coh _ (if _ then set_tr _ ?w1 _ else ?w1) => assert (H1 : coh st0 w1) end.
  { destruct dnm; [apply coh_abs; exact H|]. coh_auto. }
  coh_auto.
Qed.
Lemma coh_print st0 c w image placement cols rows dnm : coh st0 w ->
  coh st0 (fst (put_print TS vt_feed c w image placement cols rows dnm)).
Proof.
  intros H. unfold put_print. pose proof (coh_gcp st0 w H) as H1.
  destruct (get_cursor_position TS vt_feed w) as [w1 r1]. cbn [fst] in H1.
  destruct r1; cbn [fst]; try exact H1. cbv zeta.
  match goal with |- coh _ (fst (match print_placeholder _ _ _ ?w2 ?a with _ => _ end)) =>
    assert (H2 : coh st0 w2) by coh_auto; pose proof (coh_pp st0 c w2 a H2) as H3;
    destruct (print_placeholder TS vt_feed c w2 a) as [w3 r3] end.
  cbn [fst] in H3. destruct r3; cbn [fst]; try exact H3. apply coh_finish. exact H3.
Qed.
Lemma coh_ppfp st0 c w image placement pcols prows dnm : coh st0 w ->
  coh st0 (fst (print_placeholder_for_put TS vt_feed c w image placement pcols prows dnm)).
Proof.
  intros H. unfold print_placeholder_for_put. destruct prows, pcols, image; cbn [fst]; try exact H.
  pose proof (coh_gcpt st0 w H) as H1. destruct (get_cursor_position_tracked TS vt_feed w) as [w1 r1]. cbn [fst] in H1.
  destruct r1; cbn [fst]; try exact H1. cbv zeta.
  match goal with |- context [put_prepare _ _ _ ?w ?cy ?pr ?d] =>
    pose proof (coh_prepare st0 c w cy pr d H1) as H2; destruct (put_prepare TS vt_feed c w cy pr d) as [w2 rows] end.
  cbn [fst] in H2. match goal with |- coh _ (fst (if ?b then _ else _)) => destruct b end; cbn [fst]; [exact H2|].
  apply coh_print. exact H2.
Qed.
Lemma coh_step_op st0 c w o : coh st0 w -> coh st0 (fst (step TS vt_feed c w o)).
Proof.
  intros H. destruct o; cbn [step fst].
  - apply coh_move_cursor; exact H.
  - apply coh_abs; exact H.
  - apply coh_reset; exact H.
  - unfold scroll_up. coh_auto.
  - unfold scroll_down. coh_auto.
  - unfold set_margins. coh_auto.
  - coh_auto.
  - coh_auto.
  - coh_auto.
  - coh_auto.
  - apply coh_pp; exact H.
  - apply coh_gcp; exact H.
  - apply coh_gcpt; exact H.
  - apply coh_ppfp. apply coh_wr. exact H.
Qed.
Theorem run_coh st0 c ops : forall w, coh st0 w -> coh st0 (run TS vt_feed c w ops).
Proof. induction ops as [|o r IH]; intros w H; cbn [run]; [exact H|]. apply IH. apply coh_step_op. exact H. Qed.
Theorem run_feeds_output W H c ops :
  let w := run TS vt_feed c (world0 (vt_start W H)) ops in fst (vt_feed (vt_start W H) (w_out w)) = w_term w.
Proof. cbv zeta. apply run_coh. reflexivity. Qed.

(* C16 in terms of bytes: T = the Spec terminal fed, from the blank screen, with everything written *)
Theorem tracked_sound_bytes W H sc ops : 1 <= W -> 1 <= H -> Forall op_ok ops ->
  let w := run TS vt_feed (Cfg src_fixes W H sc) (world0 (vt_start W H)) ops in
  let T := fst (vt_feed (vt_start W H) (w_out w)) in
  fst T = PGround /\ forall p, w_tr w = Some p -> vt_cursor (snd T) = p.
Proof.
  intros HW HH Hok. cbv zeta. rewrite (run_feeds_output W H (Cfg src_fixes W H sc) ops).
  destruct (tracked_sound_src W H sc ops HW HH Hok) as (A & _ & B). split; assumption.
Qed.

(* the consumer (clipping of forced placeholders) works with the true cursor *)
Theorem consumer_sees_cursor W H sc ops : 1 <= W -> 1 <= H -> Forall op_ok ops ->
  let w := run TS vt_feed (Cfg src_fixes W H sc) (world0 (vt_start W H)) ops in
  snd (get_cursor_position_tracked TS vt_feed w) = RPos (vx (snd (w_term w))) (vy (snd (w_term w))).
Proof.
  intros HW HH Hok. cbv zeta. rewrite src_fixes_all.
  destruct (run_inv W H sc ops Hok _ (start_inv W H HW HH)) as (t & tr & mf & out & E & I).
  fold (C W H sc). rewrite E. destruct I as (Hwf & _ & _ & Hc & _).
  destruct (gcpt_eq t tr mf out Hwf Hc) as [out' E']. rewrite E'. reflexivity.
Qed.

(* it forgets the position after output whose effect it does not model *)
Theorem forgets T tfeed c w :
  (forall bs, w_tr (fst (step T tfeed c w (OWrite bs))) = None) /\
  (forall bs, w_tr (fst (step T tfeed c w (OWriteCmd bs))) = None) /\
  (forall n, w_tr (fst (step T tfeed c w (OScrollUp n))) = None) /\
  (forall n, w_tr (fst (step T tfeed c w (OScrollDown n))) = None) /\
  (forall a b, w_tr (fst (step T tfeed c w (OSetMargins a b))) = None) /\
  (forall a, fx_ph (c_fix c) = true -> snd (step T tfeed c w (OPrintPlaceholder a)) = ROk ->
             w_tr (fst (step T tfeed c w (OPrintPlaceholder a))) = None).
Proof.
  repeat split; intros; cbn [step fst snd] in *; try reflexivity.
  - unfold set_margins. destruct (fx_marg (c_fix c)); reflexivity.
  - unfold print_placeholder in *. rewrite H in *.
    destruct (ph_pos a) as [[px py]|]; [destruct (ph_lf a)|]; cbn [fst snd] in *; try discriminate;
    destruct (negb (ph_valid a)); cbn [fst snd] in *; try discriminate;
    destruct (ph_lines a); cbn [fst snd] in *; try discriminate; reflexivity.
Qed.

(* ------------------------------------------------------------------ the unrepaired behaviours violate the statement *)
Definition refutes (f : fixes) (W H : Z) (ops : list op) : Prop :=
  let w := run TS vt_feed (Cfg f W H false) (world0 (vt_start W H)) ops in
  exists p, w_tr w = Some p /\ vt_cursor (snd (w_term w)) <> p.
Ltac refute p := unfold refutes; cbv zeta; exists p; split; [vm_compute; reflexivity|vm_compute; discriminate].
Lemma refuted_a : refutes (Fixes false true true true true) 80 24
  [OReset; OMove (Some 5) (Some 3) None None; OMoveAbs (Some 0) None].
Proof. refute (5, 3). Qed.
Lemma refuted_b : refutes (Fixes true false true true true) 80 24
  [OReset; OMove (Some 5) None None None; OMove None None (Some 100) None].
Proof. refute (-95, 0). Qed.
Lemma refuted_c : refutes (Fixes true true false true true) 80 24
  [OReset; OPrintPlaceholder (PhArgs 1 0 0 0 4 3 None true false)].
Proof. refute (0, 0). Qed.
Lemma refuted_d : refutes (Fixes true true true false true) 80 24
  [OReset; OSetMargins 2 9; OQuery; OMove None (Some 20) None None].
Proof. refute (0, 20). Qed.
Lemma refuted_e : refutes (Fixes true true true true false) 10 5
  [OReset; OWrite (repeat 120%N 10); OSendPut [27; 95; 71; 97; 61; 112; 27; 92]%N (Some 7) 1 (Some 3) (Some 1) false].
Proof. refute (0, 1). Qed.
