(* Proofs/PlaceholderProps.v — the statements of Props/C07.v, C13.v, C14.v proved from the general
   lemmas (instantiation and repackaging of hypotheses only), so that Props/ contains nothing but
   [exact]. *)
From Coq Require Import ZArith NArith List Bool.
From Tup Require Import Gen.DiacriticsGen Model.PlaceholderModel Spec.TermSpec Spec.PlaceholderSpec Spec.IdFeatureSpec
  Proofs.DiacriticsFacts Proofs.TermLexFacts Proofs.TermPaintFacts Proofs.PlaceholderToks Proofs.PlaceholderStmt Proofs.PlaceholderMain
  Proofs.PlaceholderLines Proofs.PlaceholderFeatures.
Import ListNotations.
Open Scope N_scope.

Lemma c07_decodes_stmt :
  forall (W H : Z) (id pid c0 r0 c1 r1 : N) (m : mode) (st : style) (t0 : term),
    (0 < W)%Z -> (0 < H)%Z ->
    1 <= id < 4294967296 -> pid < 16777216 -> c0 < c1 -> r0 < r1 <= 297 -> c0 < 297 ->
    mode_ok m ->
    let p := mkph id pid c0 r0 c1 r1 in
    start_ok W H t0 -> fits W H st t0 (width p) (height p) -> (forall y x, scr t0 y x = blank_cell) ->
    exists ws, stream_of st p m FNone = Ok ws /\
      let t' := feed W H t0 (wire st (concat ws)) in
      forall x y, (0 <= x < W)%Z -> (0 <= y < H)%Z ->
        decode_at (scr t') (Z.to_nat W) (Z.to_nat x) y = expected_at H p (origin_x st t0) (origin_y st t0) x y.
Proof.
  intros W H id pid c0 r0 c1 r1 m st t0 HW HH Hid Hpid Hc Hr Hc0 Hm p Hs Hf Hb.
  exact (stream_decodes_all W H HW HH st p m BNone t0 (conj Hid (conj Hpid (conj Hc (conj (proj1 Hr) Hc0))))
           (or_intror (proj2 Hr)) Hm Hs Hf Hb).
Qed.

Lemma c14_display_features_stmt :
  forall (st : style) (sp : feature_space) (id c0 r0 c1 r1 : N) (fewer : bool) (s : simple_bg),
    legal_space sp = true -> id_in_space sp id = true ->
    c0 < c1 -> r0 < r1 -> c0 < 297 -> display_style st ->
    (reset_blank = [27; 91; 48; 109] \/ r1 <= 297) ->
    exists ws,
      display_only id c0 r0 c1 r1 fewer (to_background s) (fst (display_args st)) (snd (display_args st)) [placeholder_cp] = Ok ws /\
      let ks := tokens (wire st (concat ws)) in
      (uses_truecolor_fg ks = true -> colour_bits sp = 24) /\
      (r0 < 297 -> colour_bits sp <> 24 -> uses_256_fg ks = true) /\
      (3 <= max_diacritics ks -> uses_3rd sp = true).
Proof. intros st sp id c0 r0 c1 r1 fewer s. exact (display_features st sp id c0 r0 c1 r1 fewer s). Qed.

Lemma c14_display_decodes_stmt :
  forall (W H : Z) (st : style) (id c0 r0 c1 r1 : N) (fewer : bool) (s : simple_bg) (t0 : term),
    (0 < W)%Z -> (0 < H)%Z -> 1 <= id < 4294967296 -> c0 < c1 -> r0 < r1 -> c0 < 297 -> display_style st ->
    (reset_blank = [27; 91; 48; 109] \/ r1 <= 297) ->
    let p := mkph id 0 c0 r0 c1 r1 in
    start_ok W H t0 -> fits W H st t0 (width p) (height p) -> (forall y x, scr t0 y x = blank_cell) ->
    exists ws,
      display_only id c0 r0 c1 r1 fewer (to_background s) (fst (display_args st)) (snd (display_args st)) [placeholder_cp] = Ok ws /\
      let t' := feed W H t0 (wire st (concat ws)) in
      forall x y, (0 <= x < W)%Z -> (0 <= y < H)%Z ->
        decode_at (scr t') (Z.to_nat W) (Z.to_nat x) y = expected_at H p (origin_x st t0) (origin_y st t0) x y.
Proof.
  intros W H st id c0 r0 c1 r1 fewer s t0 HW HH Hid Hc Hr Hc0 Hst Hbr p Hs Hf Hb.
  rewrite (display_only_stream st id c0 r0 c1 r1 fewer s [placeholder_cp] Hst).
  refine (stream_decodes_all W H HW HH st p (display_mode fewer [placeholder_cp]) (bgfmt_of s) t0 _ Hbr _ Hs Hf Hb).
  - unfold rect_ok, p. cbn [image_id placement_id start_col start_row end_col end_row].
    split; [exact Hid|]. split; [reflexivity|]. split; [exact Hc|]. split; [exact Hr|exact Hc0].
  - rewrite src_display_mode. unfold mode_ok. cbn [lvl_first lvl_other ph_char].
    destruct fewer; repeat split; discriminate.
Qed.

