From Coq Require Import ZArith NArith List Bool Lia ZifyN ZifyBool ZifyNat Permutation.
From Tup Require Import Lib.IdSpaceTy Gen.IdSpaceGen Gen.IdManagerGen Model.IdSpace Model.IdManager
  Spec.IdLayoutSpec Proofs.IdSpaceFacts Proofs.IdEnumFacts Proofs.IdGenFacts Proofs.IdManagerFacts.
Import ListNotations.
Open Scope N_scope.

(* ------------------------------------------------------------------ source-derived constants *)
Lemma src_enumerate_limit : enumerate_limit = 1024%Z.  Proof. reflexivity. Qed.
Lemma src_sample_tries : sample_tries = 8%nat.  Proof. reflexivity. Qed.
Lemma src_cleanup_fracs : cleanup_fracs = [Some (3, 4); Some (3, 5); Some (1, 2); None].  Proof. reflexivity. Qed.

Definition same_elsewhere (sp : space) (d d' : db) : Prop := forall sp', sp' <> sp -> d' sp' = d sp'.
Definition fresh_row (id desc : N) (now : Z) : irow := {| iid := id; idesc := desc; iatime := now |}.
Definition refresh (id : N) (now : Z) (x : irow) : irow :=
  if iid x =? id then {| iid := iid x; idesc := idesc x; iatime := now |} else x.
Definition rebind (id desc : N) (now : Z) (x : irow) : irow := if iid x =? id then fresh_row id desc now else x.

(* ------------------------------------------------------------------ set_id in the two situations *)
Lemma set_id_fresh d id desc now sp : from_id id = Some sp -> ~ In id (map iid (d sp)) ->
  set_id d id desc now = Some (upd_tbl d sp (d sp ++ [fresh_row id desc now])).
Proof.
  intros Hf Hn. unfold set_id. rewrite Hf. unfold upsert. cbn [iid].
  apply has_id_false in Hn. rewrite Hn. reflexivity.
Qed.
Lemma set_id_existing d id desc now sp : from_id id = Some sp -> In id (map iid (d sp)) ->
  set_id d id desc now = Some (upd_tbl d sp (map (rebind id desc now) (d sp))).
Proof.
  intros Hf Hn. unfold set_id. rewrite Hf. unfold upsert. cbn [iid].
  apply has_id_iff in Hn. rewrite Hn. reflexivity.
Qed.

Lemma wf_from_id d sp r : WF d -> In r (d sp) -> from_id (iid r) = Some sp.
Proof. intros Hw Hr. apply from_id_spec. apply (proj2 (Hw sp)). exact Hr. Qed.

Lemma rows_in_in d sp sub r : In r (rows_in d sp sub) <-> In r (d sp) /\ IdManager.in_range sp sub r = true.
Proof. unfold rows_in. apply filter_In. Qed.

(* ------------------------------------------------------------------ 1. hit *)
Theorem get_id_hit d desc sp sub now mx samples ch :
  (exists r, In r (rows_in d sp sub) /\ idesc r = desc) ->
  fst (get_id d desc sp sub now mx samples ch) = GetStuck \/
  (exists h, In h (rows_in d sp sub) /\ idesc h = desc /\ iid h = hit_pick ch /\
     get_id d desc sp sub now mx samples ch = (GotId (iid h), upd_tbl d sp (map (refresh (iid h) now) (d sp)))).
Proof.
  intros (r & Hr & Hd). unfold get_id.
  set (hits := filter (fun r0 => idesc r0 =? desc) (rows_in d sp sub)).
  assert (Hin : In r hits) by (apply filter_In; split; [exact Hr|lia]).
  destruct hits as [|h0 hs] eqn:E; [contradiction|]. rewrite <- E.
  destruct (has_id hits (hit_pick ch)) eqn:Eh; [|left; reflexivity].
  right. apply has_id_iff in Eh. apply in_map_iff in Eh. destruct Eh as (h & Hid & Hh).
  subst hits. apply filter_In in Hh. destruct Hh as [Hh1 Hh2].
  exists h. split; [exact Hh1|]. split; [lia|]. split; [exact Hid|]. rewrite Hid. reflexivity.
Qed.

(* after a refresh: the row of id has the new atime, every other row is literally unchanged *)
Lemma refresh_other id now x : iid x <> id -> refresh id now x = x.
Proof. intro H. unfold refresh. destruct (iid x =? id) eqn:E; [lia|reflexivity]. Qed.
Lemma refresh_self id now x : iid x = id -> refresh id now x = {| iid := id; idesc := idesc x; iatime := now |}.
Proof. intro H. unfold refresh. rewrite H, N.eqb_refl. reflexivity. Qed.

Lemma irow_eq_dec (a b : irow) : {a = b} + {a <> b}.
Proof. decide equality; [apply Z.eq_dec|apply N.eq_dec|apply N.eq_dec]. Qed.
Definition in_dec_row := in_dec irow_eq_dec.

Lemma unique_by_id l x v : NoDup (map iid l) -> In x l -> In v l -> iid x = iid v -> x = v.
Proof.
  induction l as [|a l IH]; intros Hnd Hx Hv He; [contradiction|].
  cbn [map] in Hnd. apply NoDup_cons_iff in Hnd. destruct Hnd as [Ha Hnd].
  destruct Hx as [->|Hx], Hv as [->|Hv]; try reflexivity.
  - exfalso. apply Ha. apply in_map_iff. exists v. split; [symmetry; exact He|exact Hv].
  - exfalso. apply Ha. apply in_map_iff. exists x. split; [exact He|exact Hx].
  - apply IH; assumption.
Qed.

(* ------------------------------------------------------------------ 5. clean-up drops only LRU rows of the subspace *)
Definition only_lru_dropped (sp : space) (sub : subspace) (d d' : db) : Prop :=
  same_elsewhere sp d d' /\
  (forall r, In r (d' sp) -> In r (d sp)) /\
  (forall x, In x (d sp) -> ~ In x (d' sp) ->
     IdManager.in_range sp sub x = true /\ forall y, In y (d' sp) -> IdManager.in_range sp sub y = true -> age_le x y).

Lemma only_lru_refl sp sub d : only_lru_dropped sp sub d d.
Proof. split; [intros sp' _; reflexivity|]. split; [auto|]. intros x Hx Hn. contradiction. Qed.

Lemma only_lru_trans sp sub d1 d2 d3 : only_lru_dropped sp sub d1 d2 -> only_lru_dropped sp sub d2 d3 -> only_lru_dropped sp sub d1 d3.
Proof.
  intros (A1 & B1 & C1) (A2 & B2 & C2). split; [intros sp' H; rewrite (A2 sp' H); apply A1; exact H|].
  split; [intros r Hr; apply B1, B2; exact Hr|].
  intros x Hx Hn. destruct (in_dec_row x (d2 sp)) as [Hin|Hout].
  - exact (C2 x Hin Hn).
  - destruct (C1 x Hx Hout) as [Hr Hle]. split; [exact Hr|]. intros y Hy Hry. apply Hle; [apply B2; exact Hy|exact Hry].
Qed.

Theorem cleanup_only_lru d sp sub mx ch : WF d -> only_lru_dropped sp sub d (cleanup d sp sub mx ch).
Proof.
  intro Hw. unfold cleanup.
  set (rows := rows_in d sp sub).
  set (n := Z.to_nat (Z.max (Z.of_nat (length rows) - mx) 0)).
  set (sorted_rows := sort_by_age ch rows).
  set (victims := firstn n sorted_rows).
  split; [intros sp' H; apply upd_other; exact H|]. rewrite upd_same.
  split; [intros r Hr; apply filter_In in Hr; tauto|].
  intros x Hx Hn.
  assert (Hv : has_id victims (iid x) = true).
  { destruct (has_id victims (iid x)) eqn:E; [reflexivity|]. exfalso. apply Hn. apply filter_In. split; [exact Hx|rewrite E; reflexivity]. }
  apply has_id_iff in Hv. apply in_map_iff in Hv. destruct Hv as (v & Hvid & Hvin).
  assert (Hvrows : In v rows).
  { apply (Permutation_in _ (Permutation_sym (sort_perm ch rows))). eapply in_firstn. exact Hvin. }
  assert (x = v) by (apply (unique_by_id (d sp)); [apply Hw|exact Hx|apply rows_in_in in Hvrows; tauto|symmetry; exact Hvid]).
  subst v. split.
  - apply rows_in_in in Hvrows. tauto.
  - intros y Hy Hry. apply filter_In in Hy. destruct Hy as [Hy Hk].
    assert (Hyrows : In y rows) by (apply rows_in_in; split; assumption).
    assert (Hys : In y sorted_rows) by (apply (Permutation_in _ (sort_perm ch rows)); exact Hyrows).
    rewrite <- (firstn_skipn n sorted_rows) in Hys. apply in_app_or in Hys. destruct Hys as [Hys|Hys].
    + exfalso. assert (has_id victims (iid y) = true) by (apply has_id_iff; apply in_map_iff; exists y; split; [reflexivity|exact Hys]).
      rewrite H in Hk. discriminate.
    + exact (sorted_firstn_skipn sorted_rows n x y (sort_sorted ch rows) Hvin Hys).
Qed.

(* how many rows of the subspace an explicit clean-up keeps: min(count, max) *)
Lemma filter_length_split {A} (p : A -> bool) l : length l = (length (filter p l) + length (filter (fun x => negb (p x)) l))%nat.
Proof. induction l as [|x l IH]; [reflexivity|]. cbn [filter]. destruct (p x); cbn [negb length]; lia. Qed.

Lemma nodup_perm_ids l l' : Permutation l l' -> NoDup (map iid l) -> NoDup (map iid l').
Proof. intros Hp Hn. eapply Permutation_NoDup; [apply Permutation_map; exact Hp|exact Hn]. Qed.

(* in a list with unique ids, filtering by "id is among the ids of a sub-list s" keeps exactly |s| rows *)
Lemma filter_has_id_length l s : NoDup (map iid l) -> NoDup (map iid s) -> (forall x, In x s -> In x l) ->
  length (filter (fun r => has_id s (iid r)) l) = length s.
Proof.
  revert s. induction l as [|a l IH]; intros s Hl Hs Hsub.
  - destruct s as [|x s]; [reflexivity|]. exfalso. exact (Hsub x (or_introl eq_refl)).
  - cbn [map] in Hl. apply NoDup_cons_iff in Hl. destruct Hl as [Ha Hl]. cbn [filter].
    destruct (has_id s (iid a)) eqn:E.
    + apply has_id_iff in E. apply in_map_iff in E. destruct E as (v & Hv & Hvin).
      assert (v = a).
      { destruct (Hsub v Hvin) as [<-|Hin]; [reflexivity|]. exfalso. apply Ha. apply in_map_iff. exists v. split; assumption. }
      subst v. apply in_split in Hvin. destruct Hvin as (s1 & s2 & ->).
      assert (Hs' : NoDup (map iid (s1 ++ s2))) by (rewrite map_app in *; cbn [map] in Hs; exact (NoDup_remove_1 _ _ _ Hs)).
      assert (Hnot : ~ In (iid a) (map iid (s1 ++ s2))) by (rewrite map_app in *; cbn [map] in Hs; exact (NoDup_remove_2 _ _ _ Hs)).
      assert (Hcount : length (filter (fun r => has_id (s1 ++ a :: s2) (iid r)) l) = length (s1 ++ s2)).
      { rewrite <- (IH (s1 ++ s2) Hl Hs').
        - f_equal. apply filter_ext_in. intros r Hr.
          assert (iid r <> iid a) by (intro He; apply Ha; apply in_map_iff; exists r; split; assumption).
          unfold has_id. rewrite !existsb_app. cbn [existsb]. destruct (iid a =? iid r) eqn:E2; [lia|]. rewrite orb_false_l. reflexivity.
        - intros x Hx. assert (Hx' : In x (s1 ++ a :: s2)) by (apply in_app_or in Hx; apply in_or_app; destruct Hx; [left|right; right]; assumption).
          destruct (Hsub x Hx') as [<-|Hin]; [|exact Hin]. exfalso. apply Hnot. apply in_map_iff. exists a. split; [reflexivity|exact Hx]. }
      cbn [length]. rewrite Hcount, !app_length. cbn [length]. lia.
    + apply IH; [exact Hl|exact Hs|]. intros x Hx. destruct (Hsub x Hx) as [<-|Hin]; [|exact Hin].
      exfalso. apply has_id_false in E. apply E. apply in_map_iff. exists a. split; [reflexivity|exact Hx].
Qed.

Theorem cleanup_count d sp sub mx ch : WF d -> (0 <= mx)%Z ->
  Z.of_nat (length (rows_in (cleanup d sp sub mx ch) sp sub)) = Z.min (Z.of_nat (length (rows_in d sp sub))) mx.
Proof.
  intros Hw Hmx. unfold cleanup.
  set (rows := rows_in d sp sub).
  set (n := Z.to_nat (Z.max (Z.of_nat (length rows) - mx) 0)).
  set (victims := firstn n (sort_by_age ch rows)).
  unfold rows_in at 1. rewrite upd_same.
  (* filter in_range (filter (not victim) (d sp)) = filter (not victim) rows *)
  assert (Hc : filter (IdManager.in_range sp sub) (filter (fun r => negb (has_id victims (iid r))) (d sp))
               = filter (fun r => negb (has_id victims (iid r))) rows).
  { unfold rows, rows_in. clear. induction (d sp) as [|x l IH]; [reflexivity|]. cbn [filter].
    destruct (has_id victims (iid x)) eqn:E1; destruct (IdManager.in_range sp sub x) eqn:E2; cbn [negb filter]; rewrite ?E1, ?E2; cbn [negb]; rewrite IH; reflexivity. }
  rewrite Hc.
  pose proof (filter_length_split (fun r => has_id victims (iid r)) rows) as Hsplit.
  assert (Hrows_nd : NoDup (map iid rows)) by (apply nodup_map_filter; apply Hw).
  assert (Hv_len : length victims = Nat.min n (length rows)).
  { unfold victims. rewrite firstn_length. rewrite <- (Permutation_length (sort_perm ch rows)). reflexivity. }
  assert (Hvl : length (filter (fun r => has_id victims (iid r)) rows) = length victims).
  { apply filter_has_id_length; [exact Hrows_nd| |].
    - assert (Hs : NoDup (map iid (sort_by_age ch rows))) by (apply (nodup_perm_ids rows); [apply sort_perm|exact Hrows_nd]).
      unfold victims. rewrite <- (firstn_skipn n (sort_by_age ch rows)) in Hs. rewrite map_app in Hs.
      clear - Hs. induction (map iid (firstn n (sort_by_age ch rows))) as [|a l IH]; [constructor|].
      cbn [app] in Hs. apply NoDup_cons_iff in Hs. destruct Hs as [H1 H2]. constructor; [|exact (IH H2)].
      intro Hin. apply H1. apply in_or_app. left. exact Hin.
    - intros x Hx. apply (Permutation_in _ (Permutation_sym (sort_perm ch rows))). eapply in_firstn. exact Hx. }
  lia.
Qed.

(* ------------------------------------------------------------------ ids of all_ids are members: the KeyError branch is dead under WF *)
Lemma rows_members d sp sub : WF d -> valid_sub sub ->
  forallb (fun r => existsb (N.eqb (iid r)) (all_ids sp sub)) (rows_in d sp sub) = true.
Proof.
  intros Hw Hv. apply forallb_forall. intros r Hr. apply rows_in_in in Hr. destruct Hr as [Hr Hf].
  apply existsb_exists. exists (iid r). split; [|apply N.eqb_refl].
  apply (all_ids_member sp sub (iid r) Hv). unfold IdManager.in_range in Hf.
  assert (Hs : in_space sp (iid r)) by (apply (proj2 (Hw sp)); exact Hr).
  apply (sql_filter_iff sp sub (iid r) Hv Hs). exact Hf.
Qed.

(* ------------------------------------------------------------------ the enumerable path *)
Definition no_hit (d : db) (desc : N) (sp : space) (sub : subspace) : Prop :=
  forall r, In r (rows_in d sp sub) -> idesc r <> desc.
Definition enumerable (sp : space) (sub : subspace) (mx : Z) : Prop := (Z.of_N (subspace_size sp sub) <= Z.min 1024 mx)%Z.

Lemma no_hit_filter d desc sp sub : no_hit d desc sp sub -> filter (fun r => idesc r =? desc) (rows_in d sp sub) = [].
Proof.
  unfold no_hit. generalize (rows_in d sp sub). intro l. induction l as [|x l IH]; intro H; [reflexivity|].
  cbn [filter]. destruct (idesc x =? desc) eqn:E2.
  - exfalso. apply (H x); [left; reflexivity|lia].
  - apply IH. intros r Hr. apply H. right. exact Hr.
Qed.

Lemma sorted_head_min ch rows v rest : sort_by_age ch rows = v :: rest -> In v rows /\ forall r, In r rows -> age_le v r.
Proof.
  intro E. pose proof (sort_sorted ch rows) as Hs. pose proof (sort_perm ch rows) as Hp. rewrite E in *.
  split; [apply (Permutation_in _ (Permutation_sym Hp)); left; reflexivity|].
  intros r Hr. apply (Permutation_in _ Hp) in Hr. destruct Hr as [<-|Hr]; [unfold age_le; lia|]. destruct Hs as [Hs _]. apply Hs. exact Hr.
Qed.

(* 4. full: exactly one row is recycled, a least recently used row of the subspace *)
Theorem get_id_full d desc sp sub now mx samples ch :
  WF d -> valid_sub sub -> no_hit d desc sp sub -> enumerable sp sub mx ->
  subspace_size sp sub <= N.of_nat (length (rows_in d sp sub)) ->
  exists v, In v (rows_in d sp sub) /\ (forall r, In r (rows_in d sp sub) -> age_le v r) /\
            get_id d desc sp sub now mx samples ch =
              (GotId (iid v), upd_tbl d sp (map (rebind (iid v) desc now) (d sp))).
Proof.
  intros Hw Hv Hn He Hfull. unfold get_id. cbv zeta. rewrite (no_hit_filter d desc sp sub Hn).
  unfold enumerable in He. rewrite src_enumerate_limit.
  destruct (Z.of_N (subspace_size sp sub) <=? Z.min 1024 mx)%Z eqn:E1; [|lia].
  destruct (subspace_size sp sub <=? N.of_nat (length (rows_in d sp sub))) eqn:E2; [|lia].
  destruct (sort_by_age ch (rows_in d sp sub)) as [|v rest] eqn:Es.
  - exfalso. pose proof (Permutation_length (sort_perm ch (rows_in d sp sub))) as Hl. rewrite Es in Hl. cbn [length] in Hl.
    pose proof (subspace_size_pos sp sub Hv). lia.
  - destruct (sorted_head_min ch _ v rest Es) as [Hin Hmin]. exists v. split; [exact Hin|]. split; [exact Hmin|].
    apply rows_in_in in Hin. destruct Hin as [Hin _].
    rewrite (set_id_existing d (iid v) desc now sp (wf_from_id d sp v Hw Hin)); [reflexivity|].
    apply in_map_iff. exists v. split; [reflexivity|exact Hin].
Qed.

(* 3a. not full: a new row is added for a free member id, nothing else changes *)
Theorem get_id_free d desc sp sub now mx samples ch :
  WF d -> valid_sub sub -> no_hit d desc sp sub -> enumerable sp sub mx ->
  N.of_nat (length (rows_in d sp sub)) < subspace_size sp sub ->
  fst (get_id d desc sp sub now mx samples ch) = GetStuck \/
  (in_sub sp sub (free_pick ch) /\ ~ In (free_pick ch) (map iid (d sp)) /\
   get_id d desc sp sub now mx samples ch =
     (GotId (free_pick ch), upd_tbl d sp (d sp ++ [fresh_row (free_pick ch) desc now]))).
Proof.
  intros Hw Hv Hn He Hfree. unfold get_id. cbv zeta. rewrite (no_hit_filter d desc sp sub Hn).
  unfold enumerable in He. rewrite src_enumerate_limit.
  destruct (Z.of_N (subspace_size sp sub) <=? Z.min 1024 mx)%Z eqn:E1; [|lia].
  destruct (subspace_size sp sub <=? N.of_nat (length (rows_in d sp sub))) eqn:E2; [lia|].
  rewrite (rows_members d sp sub Hw Hv). cbn [negb].
  set (free := filter (fun i => negb (has_id (rows_in d sp sub) i)) (all_ids sp sub)).
  destruct free as [|f0 fs] eqn:Ef.
  - (* impossible: pigeonhole *)
    exfalso.
    assert (Hincl : incl (all_ids sp sub) (map iid (rows_in d sp sub))).
    { intros i Hi. destruct (has_id (rows_in d sp sub) i) eqn:Eh; [apply has_id_iff; exact Eh|].
      exfalso. assert (In i free) by (apply filter_In; split; [exact Hi|rewrite Eh; reflexivity]). rewrite Ef in H. contradiction. }
    pose proof (NoDup_incl_length (all_ids_nodup sp sub Hv) Hincl) as Hl. rewrite map_length in Hl.
    pose proof (all_ids_length sp sub Hv). lia.
  - rewrite <- Ef. destruct (existsb (N.eqb (free_pick ch)) free) eqn:Ee; [|left; reflexivity].
    right. apply existsb_exists in Ee. destruct Ee as (p & Hp & Epq). assert (p = free_pick ch) by lia. subst p.
    unfold free in Hp. apply filter_In in Hp. destruct Hp as [Hall Hnot].
    assert (Hsub : in_sub sp sub (free_pick ch)) by (apply (all_ids_member sp sub _ Hv); exact Hall).
    assert (Hnotin : ~ In (free_pick ch) (map iid (d sp))).
    { intro Hin. apply in_map_iff in Hin. destruct Hin as (x & Hx & Hxin).
      assert (In x (rows_in d sp sub)).
      { apply rows_in_in. split; [exact Hxin|]. unfold IdManager.in_range. rewrite Hx.
        apply (sql_filter_iff sp sub _ Hv (proj1 Hsub)). exact Hsub. }
      assert (has_id (rows_in d sp sub) (free_pick ch) = true) by (apply has_id_iff; apply in_map_iff; exists x; split; assumption).
      rewrite H0 in Hnot. discriminate. }
    split; [exact Hsub|]. split; [exact Hnotin|].
    rewrite (set_id_fresh d (free_pick ch) desc now sp); [reflexivity| |exact Hnotin].
    apply from_id_spec. exact (proj1 Hsub).
Qed.

(* ------------------------------------------------------------------ the sampling path *)
Lemma first_free_some l samples tries id rest : first_free l samples tries = (Some id, rest) ->
  In id samples /\ ~ In id (map iid l).
Proof.
  revert samples. induction tries as [|k IH]; intros samples H; destruct samples as [|s r]; cbn [first_free] in H; try discriminate.
  destruct (has_id l s) eqn:E.
  - destruct (IH r H) as [H1 H2]. split; [right; exact H1|exact H2].
  - inversion H; subst. split; [left; reflexivity|apply has_id_false; exact E].
Qed.

(* a sample that is free in the first round: a row is added, nothing is dropped *)
Theorem get_id_sample_first_round d desc sp sub now mx samples ch id rest :
  no_hit d desc sp sub -> ~ enumerable sp sub mx ->
  first_free (d sp) samples 8 = (Some id, rest) -> in_space sp id ->
  get_id d desc sp sub now mx samples ch = (GotId id, upd_tbl d sp (d sp ++ [fresh_row id desc now])).
Proof.
  intros Hn He Hf Hs. unfold get_id. cbv zeta. rewrite (no_hit_filter d desc sp sub Hn).
  unfold enumerable in He. rewrite src_enumerate_limit.
  destruct (Z.of_N (subspace_size sp sub) <=? Z.min 1024 mx)%Z eqn:E1; [lia|].
  rewrite src_cleanup_fracs. cbn [sample_rounds]. rewrite src_sample_tries, Hf.
  destruct (first_free_some _ _ _ _ _ Hf) as [_ Hnot].
  rewrite (set_id_fresh d id desc now sp); [reflexivity|apply from_id_spec; exact Hs|exact Hnot].
Qed.

(* whatever the sampling rounds do: rows are dropped only by the LRU rule inside the subspace, and at most one row
   is added — for a sampled id that was absent at that moment *)
Definition rounds_post (sp : space) (sub : subspace) (desc : N) (now : Z) (samples : list N) (d : db) (res : get_result) (d' : db) : Prop :=
  exists dmid, only_lru_dropped sp sub d dmid /\ WF dmid /\
    match res with
    | GotId id => In id samples /\ ~ In id (map iid (dmid sp)) /\ exists spi, from_id id = Some spi /\
                  set_id dmid id desc now = Some d' 
    | GetFailed => d' = dmid
    | GetStuck => True
    end.

Lemma sample_rounds_post fracs : forall d desc sp sub now size mx samples ch,
  WF d -> rounds_post sp sub desc now samples d (fst (sample_rounds d desc sp sub now size mx samples fracs ch))
                      (snd (sample_rounds d desc sp sub now size mx samples fracs ch)).
Proof.
  induction fracs as [|f more IH]; intros d desc sp sub now size mx samples ch Hw.
  - cbn [sample_rounds fst snd]. exists d. split; [apply only_lru_refl|]. split; [exact Hw|reflexivity].
  - cbn [sample_rounds]. destruct (first_free (d sp) samples sample_tries) as [[id|] rest] eqn:Ef.
    + destruct (first_free_some _ _ _ _ _ Ef) as [Hin Hnot].
      destruct (set_id d id desc now) as [d'|] eqn:Es; cbn [fst snd].
      * exists d. split; [apply only_lru_refl|]. split; [exact Hw|]. split; [exact Hin|]. split; [exact Hnot|].
        unfold set_id in Es. destruct (from_id id) as [spi|] eqn:Ei; [|discriminate]. exists spi. split; [reflexivity|].
        unfold set_id. rewrite Ei. exact Es.
      * exists d. split; [apply only_lru_refl|]. split; [exact Hw|exact I].
    + destruct f as [fr|]; cbn [fst snd].
      * set (d1 := cleanup d sp sub (cleanup_target size fr mx) ch).
        assert (Hw1 : WF d1) by (apply cleanup_wf; exact Hw).
        destruct (IH d1 desc sp sub now size mx rest ch Hw1) as (dmid & Hl & Hwm & Hres).
        exists dmid. split; [eapply only_lru_trans; [apply cleanup_only_lru; exact Hw|exact Hl]|]. split; [exact Hwm|].
        destruct (fst (sample_rounds d1 desc sp sub now size mx rest more ch)); [|exact Hres|exact I].
        destruct Hres as (Hin & Hrest). split; [|exact Hrest].
        (* a sample of the remaining list is a sample of the whole list *)
        clear - Ef Hin. revert samples rest Ef Hin. generalize sample_tries. intro k.
        induction k as [|k IHk]; intros samples rest Ef Hin; destruct samples as [|s r]; cbn [first_free] in Ef;
          try (inversion Ef; subst; exact Hin).
        destruct (has_id (d sp) s); [right; eapply IHk; eassumption|discriminate].
      * exists d. split; [apply only_lru_refl|]. split; [exact Hw|reflexivity].
Qed.

(* ------------------------------------------------------------------ every operation preserves WF *)
Theorem get_id_wf d desc sp sub now mx samples ch : WF d -> valid_sub sub -> WF (snd (get_id d desc sp sub now mx samples ch)).
Proof.
  intros Hw Hv. unfold get_id. cbv zeta.
  destruct (filter (fun r => idesc r =? desc) (rows_in d sp sub)) as [|h hs] eqn:Eh.
  - destruct (Z.of_N (subspace_size sp sub) <=? Z.min enumerate_limit mx)%Z.
    + destruct (subspace_size sp sub <=? N.of_nat (length (rows_in d sp sub))).
      * destruct (sort_by_age ch (rows_in d sp sub)) as [|v rest]; [exact Hw|].
        destruct (set_id d (iid v) desc now) eqn:Es; [apply (set_id_wf _ _ _ _ _ Hw Es)|exact Hw].
      * destruct (negb (forallb _ (rows_in d sp sub))); [exact Hw|].
        destruct (filter (fun i => negb (has_id (rows_in d sp sub) i)) (all_ids sp sub)) as [|f0 fs].
        -- destruct (sort_by_age ch (rows_in d sp sub)) as [|v rest]; [exact Hw|].
           destruct (set_id d (iid v) desc now) eqn:Es; [apply (set_id_wf _ _ _ _ _ Hw Es)|exact Hw].
        -- destruct (existsb (N.eqb (free_pick ch)) (f0 :: fs)); [|exact Hw].
           destruct (set_id d (free_pick ch) desc now) eqn:Es; [apply (set_id_wf _ _ _ _ _ Hw Es)|exact Hw].
    + destruct (sample_rounds_post cleanup_fracs d desc sp sub now (subspace_size sp sub) mx samples ch Hw) as (dmid & _ & Hwm & Hres).
      destruct (fst (sample_rounds d desc sp sub now (subspace_size sp sub) mx samples cleanup_fracs ch)) eqn:Er.
      * destruct Hres as (_ & _ & spi & _ & Hset). apply (set_id_wf _ _ _ _ _ Hwm Hset).
      * rewrite Hres. exact Hwm.
      * (* stuck: the table is whatever the rounds left; only reachable for an id outside 1..2^32-1 *)
        clear - Hw. revert d Hw. generalize samples. generalize cleanup_fracs. intro fr.
        induction fr as [|f more IH]; intros smp d0 Hw0; cbn [sample_rounds snd]; [exact Hw0|].
        destruct (first_free (d0 sp) smp sample_tries) as [[id|] rest].
        -- destruct (set_id d0 id desc now) eqn:Es; cbn [snd]; [apply (set_id_wf _ _ _ _ _ Hw0 Es)|exact Hw0].
        -- destruct f; cbn [snd]; [apply IH; apply cleanup_wf; exact Hw0|exact Hw0].
  - destruct (has_id (h :: hs) (hit_pick ch)); [|exact Hw]. cbn [snd].
    destruct (Hw sp) as [Hn Hs]. apply wf_upd; [exact Hw| |].
    + rewrite map_map. assert (M : map (fun x => iid (if iid x =? hit_pick ch then {| iid := iid x; idesc := idesc x; iatime := now |} else x)) (d sp) = map iid (d sp)).
      { apply map_ext. intro x. destruct (iid x =? hit_pick ch); reflexivity. }
      rewrite M. exact Hn.
    + intros r Hr. apply in_map_iff in Hr. destruct Hr as (x & Hx & Hin). subst r.
      destruct (iid x =? hit_pick ch); cbn [iid]; apply Hs; exact Hin.
Qed.

(* ------------------------------------------------------------------ 6. listing and counting *)
Theorem listing_exact d sp sub ch :
  Permutation (get_all d sp sub ch) (rows_in d sp sub) /\
  sorted (rev (get_all d sp sub ch)) /\        (* read backwards it is ascending by atime: most recent first *)
  count d sp sub = N.of_nat (length (get_all d sp sub ch)).
Proof.
  unfold get_all, count. set (rows := rows_in d sp sub).
  split; [eapply Permutation_trans; [apply Permutation_sym, Permutation_rev|apply Permutation_sym, sort_perm]|].
  split; [rewrite rev_involutive; apply sort_sorted|].
  rewrite rev_length. rewrite <- (Permutation_length (sort_perm ch rows)). reflexivity.
Qed.

(* ------------------------------------------------------------------ case analysis of get_id *)
Definition sound_samples (sp : space) (sub : subspace) (samples : list N) : Prop := Forall (in_sub sp sub) samples.

Lemma hit_or_not d desc sp sub : (exists r, In r (rows_in d sp sub) /\ idesc r = desc) \/ no_hit d desc sp sub.
Proof.
  unfold no_hit. induction (rows_in d sp sub) as [|x l IH]; [right; intros r []|].
  destruct (N.eq_dec (idesc x) desc) as [E|E]; [left; exists x; split; [left; reflexivity|exact E]|].
  destruct IH as [(r & Hr & Hd)|IH]; [left; exists r; split; [right; exact Hr|exact Hd]|].
  right. intros r [<-|Hr]; [exact E|apply IH; exact Hr].
Qed.

Lemma row_in_sub d sp sub r : WF d -> valid_sub sub -> In r (rows_in d sp sub) -> in_sub sp sub (iid r).
Proof.
  intros Hw Hv Hr. apply rows_in_in in Hr. destruct Hr as [Hr Hf].
  assert (Hs : in_space sp (iid r)) by (apply (proj2 (Hw sp)); exact Hr).
  apply (sql_filter_iff sp sub (iid r) Hv Hs). exact Hf.
Qed.

(* C01: whatever the database contains (WF), whatever the environment chooses, an id handed out for (sp, sub) is a
   member of sp and its subspace byte is in range *)
Theorem get_id_in_subspace d desc sp sub now mx samples ch id d' :
  WF d -> valid_sub sub -> sound_samples sp sub samples ->
  get_id d desc sp sub now mx samples ch = (GotId id, d') -> in_sub sp sub id.
Proof.
  intros Hw Hv Hss Hg.
  destruct (hit_or_not d desc sp sub) as [Hhit|Hno].
  - destruct (get_id_hit d desc sp sub now mx samples ch Hhit) as [Hst|(h & Hh & _ & _ & Heq)].
    + rewrite Hg in Hst. discriminate.
    + rewrite Hg in Heq. inversion Heq; subst. apply (row_in_sub d sp sub h Hw Hv Hh).
  - destruct (Z_le_gt_dec (Z.of_N (subspace_size sp sub)) (Z.min 1024 mx)) as [He|He].
    + destruct (N.le_gt_cases (subspace_size sp sub) (N.of_nat (length (rows_in d sp sub)))) as [Hfull|Hfree].
      * destruct (get_id_full d desc sp sub now mx samples ch Hw Hv Hno He Hfull) as (v & Hvin & _ & Heq).
        rewrite Hg in Heq. inversion Heq; subst. apply (row_in_sub d sp sub v Hw Hv Hvin).
      * destruct (get_id_free d desc sp sub now mx samples ch Hw Hv Hno He Hfree) as [Hst|(Hsub & _ & Heq)].
        -- rewrite Hg in Hst. discriminate.
        -- rewrite Hg in Heq. inversion Heq; subst. exact Hsub.
    + (* sampling *)
      unfold get_id in Hg. cbv zeta in Hg. rewrite (no_hit_filter d desc sp sub Hno) in Hg. rewrite src_enumerate_limit in Hg.
      destruct (Z.of_N (subspace_size sp sub) <=? Z.min 1024 mx)%Z eqn:E1; [lia|].
      pose proof (sample_rounds_post cleanup_fracs d desc sp sub now (subspace_size sp sub) mx samples ch Hw) as (dmid & _ & _ & Hres).
      rewrite Hg in Hres. cbn [fst snd] in Hres. destruct Hres as (Hin & _).
      unfold sound_samples in Hss. rewrite Forall_forall in Hss. apply Hss. exact Hin.
Qed.

(* 2. the id returned maps back to exactly the requested description, with the request's time *)
Lemma find_rebind l id desc now : In id (map iid l) -> find_id (map (rebind id desc now) l) id = Some (fresh_row id desc now).
Proof.
  unfold find_id. induction l as [|x l IH]; intro H; [contradiction|]. cbn [map find].
  destruct (iid x =? id) eqn:E.
  - assert (R : rebind id desc now x = fresh_row id desc now) by (unfold rebind; rewrite E; reflexivity).
    rewrite R. cbn [fresh_row iid]. rewrite N.eqb_refl. reflexivity.
  - assert (R : rebind id desc now x = x) by (unfold rebind; rewrite E; reflexivity).
    rewrite R, E. apply IH. destruct H as [H|H]; [lia|exact H].
Qed.
Lemma find_app_fresh l id desc now : ~ In id (map iid l) -> find_id (l ++ [fresh_row id desc now]) id = Some (fresh_row id desc now).
Proof.
  unfold find_id. induction l as [|x l IH]; intro H; [cbn; rewrite N.eqb_refl; reflexivity|].
  cbn [app find]. destruct (iid x =? id) eqn:E; [exfalso; apply H; left; lia|]. apply IH. intro Hi. apply H. right. exact Hi.
Qed.
Lemma find_refresh l h now : NoDup (map iid l) -> In h l ->
  find_id (map (refresh (iid h) now) l) (iid h) = Some {| iid := iid h; idesc := idesc h; iatime := now |}.
Proof.
  unfold find_id. induction l as [|x l IH]; intros Hn Hh; [contradiction|]. cbn [map] in Hn. apply NoDup_cons_iff in Hn. destruct Hn as [Hx Hn].
  cbn [map find]. destruct (iid x =? iid h) eqn:E.
  - assert (x = h).
    { destruct Hh as [Hh|Hh]; [exact Hh|]. exfalso. apply Hx. apply in_map_iff. exists h. split; [lia|exact Hh]. }
    subst x. rewrite (refresh_self (iid h) now h eq_refl). cbn [iid]. rewrite N.eqb_refl. reflexivity.
  - rewrite (refresh_other (iid h) now x) by lia. rewrite E. apply IH; [exact Hn|]. destruct Hh as [->|Hh]; [lia|exact Hh].
Qed.

Theorem result_maps_back d desc sp sub now mx samples ch id d' :
  WF d -> valid_sub sub -> sound_samples sp sub samples ->
  get_id d desc sp sub now mx samples ch = (GotId id, d') ->
  find_id (d' sp) id = Some (fresh_row id desc now).
Proof.
  intros Hw Hv Hss Hg.
  destruct (hit_or_not d desc sp sub) as [Hhit|Hno].
  - destruct (get_id_hit d desc sp sub now mx samples ch Hhit) as [Hst|(h & Hh & Hd & _ & Heq)].
    + rewrite Hg in Hst. discriminate.
    + rewrite Hg in Heq. inversion Heq; subst. rewrite upd_same. apply rows_in_in in Hh. destruct Hh as [Hh _].
      rewrite (find_refresh (d sp) h now (proj1 (Hw sp)) Hh). reflexivity.
  - destruct (Z_le_gt_dec (Z.of_N (subspace_size sp sub)) (Z.min 1024 mx)) as [He|He].
    + destruct (N.le_gt_cases (subspace_size sp sub) (N.of_nat (length (rows_in d sp sub)))) as [Hfull|Hfree].
      * destruct (get_id_full d desc sp sub now mx samples ch Hw Hv Hno He Hfull) as (v & Hvin & _ & Heq).
        rewrite Hg in Heq. inversion Heq; subst. rewrite upd_same. apply find_rebind.
        apply rows_in_in in Hvin. apply in_map_iff. exists v. split; [reflexivity|tauto].
      * destruct (get_id_free d desc sp sub now mx samples ch Hw Hv Hno He Hfree) as [Hst|(_ & Hnot & Heq)].
        -- rewrite Hg in Hst. discriminate.
        -- rewrite Hg in Heq. inversion Heq; subst. rewrite upd_same. apply find_app_fresh. exact Hnot.
    + unfold get_id in Hg. cbv zeta in Hg. rewrite (no_hit_filter d desc sp sub Hno) in Hg. rewrite src_enumerate_limit in Hg.
      destruct (Z.of_N (subspace_size sp sub) <=? Z.min 1024 mx)%Z eqn:E1; [lia|].
      pose proof (sample_rounds_post cleanup_fracs d desc sp sub now (subspace_size sp sub) mx samples ch Hw) as (dmid & _ & _ & Hres).
      rewrite Hg in Hres. cbn [fst snd] in Hres. destruct Hres as (Hin & Hnot & spi & Hspi & Hset).
      assert (spi = sp).
      { unfold sound_samples in Hss. rewrite Forall_forall in Hss. pose proof (proj1 (Hss id Hin)) as Hs. apply from_id_spec in Hs. congruence. }
      subst spi. rewrite (set_id_fresh dmid id desc now sp Hspi Hnot) in Hset. inversion Hset; subst. rewrite upd_same.
      apply find_app_fresh. exact Hnot.
Qed.

(* 5'. whatever path get_id takes when the description is new: rows disappear from the database only by the LRU rule
   inside the requested subspace (or by being recycled in a full enumerable subspace: get_id_full) *)
Theorem get_id_sampling_drops_only_lru d desc sp sub now mx samples ch :
  WF d -> no_hit d desc sp sub -> ~ enumerable sp sub mx ->
  rounds_post sp sub desc now samples d (fst (get_id d desc sp sub now mx samples ch)) (snd (get_id d desc sp sub now mx samples ch)).
Proof.
  intros Hw Hno He. unfold get_id. cbv zeta. rewrite (no_hit_filter d desc sp sub Hno). rewrite src_enumerate_limit.
  unfold enumerable in He. destruct (Z.of_N (subspace_size sp sub) <=? Z.min 1024 mx)%Z eqn:E1; [lia|].
  apply sample_rounds_post. exact Hw.
Qed.

(* ------------------------------------------------------------------ histories *)
Inductive op :=
| OGet (desc : N) (sp : space) (sub : subspace) (now : Z) (mx : Z) (samples : list N) (ch : choice)
| OSet (id desc : N) (t : Z)
| ODel (id : N)
| OClean (sp : space) (sub : subspace) (mx : Z) (ch : choice).

Definition apply_op (d : db) (o : op) : db :=
  match o with
  | OGet desc sp sub now mx samples ch => snd (get_id d desc sp sub now mx samples ch)
  | OSet id desc t => match set_id d id desc t with Some d' => d' | None => d end
  | ODel id => match del_id d id with Some d' => d' | None => d end
  | OClean sp sub mx ch => cleanup d sp sub mx ch
  end.
Definition valid_op (o : op) : Prop :=
  match o with OGet _ sp sub _ _ samples _ => valid_sub sub /\ sound_samples sp sub samples | _ => True end.

Theorem apply_op_wf d o : WF d -> valid_op o -> WF (apply_op d o).
Proof.
  intros Hw Hv. destruct o as [desc sp sub now mx samples ch|id desc t|id|sp sub mx ch]; cbn [apply_op].
  - apply get_id_wf; [exact Hw|exact (proj1 Hv)].
  - destruct (set_id d id desc t) eqn:E; [exact (set_id_wf _ _ _ _ _ Hw E)|exact Hw].
  - destruct (del_id d id) eqn:E; [exact (del_id_wf _ _ _ Hw E)|exact Hw].
  - apply cleanup_wf. exact Hw.
Qed.

Theorem history_wf ops : forall d, WF d -> Forall valid_op ops -> WF (fold_left apply_op ops d).
Proof.
  induction ops as [|o ops IH]; intros d Hw Hv; [exact Hw|]. cbn [fold_left].
  apply Forall_cons_iff in Hv. destruct Hv as [Ho Hv]. apply IH; [apply apply_op_wf; assumption|exact Hv].
Qed.

Definition empty_db : db := fun _ => [].
Lemma empty_wf : WF empty_db.
Proof. intro sp. split; [constructor|intros r []]. Qed.

(* C01 over histories: after any sequence of valid operations from any WF database, every id handed out by a
   further request lies in the requested space and subspace *)
Theorem history_get_id_in_subspace d0 ops desc sp sub now mx samples ch id d' :
  WF d0 -> Forall valid_op ops -> valid_sub sub -> sound_samples sp sub samples ->
  get_id (fold_left apply_op ops d0) desc sp sub now mx samples ch = (GotId id, d') -> in_sub sp sub id.
Proof.
  intros Hw Hv Hs Hss Hg. eapply get_id_in_subspace; [apply history_wf; eassumption|exact Hs|exact Hss|exact Hg].
Qed.
