(* Proofs/IdGenFacts.v — gen_random_id: every run whose draws respect the bounds yields a member, every member is produced by some run, every bound asked is positive. *)
From Coq Require Import ZArith NArith List Bool Lia ZifyN ZifyBool ZifyNat.
From Tup Require Import Lib.IdSpaceTy Gen.IdSpaceGen Spec.IdLayoutSpec Model.IdSpace Proofs.IdBits Proofs.IdLayoutFacts.
Import ListNotations.
Open Scope N_scope.
Ltac Zify.zify_post_hook ::= Z.to_euclidean_division_equations.

Lemma compose_bytes_sum b3 b2 b1 b0 : b2 < 256 -> b1 < 256 -> b0 < 256 ->
  compose_bytes b3 b2 b1 b0 = b3 * 16777216 + b2 * 65536 + b1 * 256 + b0.
Proof. intros H2 H1 H0. apply (compose4_sum b3 b2 b1 b0 H2 H1 H0). Qed.

Lemma gen_cases sp s : gen_random_id_m sp s =
  match sp with
  | Sp8d => bind (rand_nonzero_byte s) (fun b3 => ret (compose_bytes b3 0 0 0))
  | Sp16 => bind (rand_nonzero_byte s) (fun b3 => bind (randbelow 255) (fun r => ret (compose_bytes b3 0 0 (r + 1))))
  | Sp32 => bind (rand_nonzero_byte s) (fun b3 => bind (randbelow 256) (fun b0 => bind (randbelow 256) (fun b2 =>
              if b2 =? 0 then bind (randbelow 255) (fun r => ret (compose_bytes b3 b2 (r + 1) b0))
              else bind (randbelow 256) (fun b1 => ret (compose_bytes b3 b2 b1 b0)))))
  | Sp8 => bind (rand_nonzero_byte s) (fun b0 => ret (compose_bytes 0 0 0 b0))
  | Sp24 => bind (randbelow 256) (fun b0 => bind (rand_byte s) (fun b2 =>
              if b2 =? 0 then bind (randbelow 255) (fun r => ret (compose_bytes 0 b2 (r + 1) b0))
              else bind (randbelow 256) (fun b1 => ret (compose_bytes 0 b2 b1 b0))))
  end.
Proof. destruct sp; reflexivity. Qed.

Ltac crunch H :=
  repeat (cbv beta iota in H;
    match type of H with
    | context [match ?l with [] => _ | _ :: _ => _ end] => is_var l; destruct l
    | context [if ?c then _ else _] => let E := fresh "E" in destruct c eqn:E
    end); cbv beta iota in H.

Theorem gen_sound sp s ds id asked rest : valid_sub s ->
  gen_random_id sp s ds = Done id asked rest ->
  in_sub sp s id /\ exists used, ds = used ++ rest /\ Forall2 N.lt used asked.
Proof.
  intros (H1 & H2 & H3). unfold gen_random_id. rewrite gen_cases.
  destruct sp; cbv beta delta [bind rand_nonzero_byte rand_byte randbelow ret sub_begin sub_end]; intros H; crunch H;
    try discriminate H; injection H as <- <- <-.
  all: split; [| match goal with
    | |- exists used, ?a :: ?b :: ?c :: ?d :: ?r = used ++ ?r /\ _ => exists [a; b; c; d]
    | |- exists used, ?a :: ?b :: ?c :: ?r = used ++ ?r /\ _ => exists [a; b; c]
    | |- exists used, ?a :: ?b :: ?r = used ++ ?r /\ _ => exists [a; b]
    | |- exists used, ?a :: ?r = used ++ ?r /\ _ => exists [a]
    end; split; [reflexivity | repeat constructor; lia ]].
  all: unfold in_sub, in_space, is_id; rewrite compose_bytes_sum by lia; cbn [sub_byte]; byte_arith.
  all: lia.
Qed.

(* every bound passed to randbelow is positive (secrets.randbelow(0) would raise) *)
Definition asked_of {A} (o : outcome A) : list N :=
  match o with Done _ k _ => k | NoDraw k n => k ++ [n] | BadDraw k n _ => k ++ [n] end.

Theorem gen_bounds_positive sp s ds : valid_sub s -> Forall (fun n => 0 < n) (asked_of (gen_random_id sp s ds)).
Proof.
  intros (H1 & H2 & H3).
  destruct (gen_random_id sp s ds) eqn:H; unfold gen_random_id in H; rewrite gen_cases in H;
  destruct sp; cbv beta delta [bind rand_nonzero_byte rand_byte randbelow ret sub_begin sub_end] in H; crunch H;
    try discriminate H; injection H as <- <- <- || injection H as <- <-; cbn [asked_of app]; repeat constructor; lia.
Qed.

(* the model stops only when the draws run out or a draw is not below the bound asked *)
Theorem gen_stuck sp s ds : valid_sub s ->
  match gen_random_id sp s ds with
  | Done _ _ _ => True
  | NoDraw k n => length ds = length k
  | BadDraw k n d => n <= d /\ nth_error ds (length k) = Some d
  end.
Proof.
  intros (H1 & H2 & H3).
  destruct (gen_random_id sp s ds) eqn:H; [exact I| |]; unfold gen_random_id in H; rewrite gen_cases in H;
  destruct sp; cbv beta delta [bind rand_nonzero_byte rand_byte randbelow ret sub_begin sub_end] in H; crunch H;
    try discriminate H; injection H as <- <- <- || injection H as <- <-; cbn [length app nth_error]; try reflexivity; (split; [lia|reflexivity]).
Qed.

(* the draws that produce a given member *)
Definition draws_for (sp : space) (s : subspace) (id : N) : list N :=
  let b3 := id / 16777216 in let b2 := id / 65536 mod 256 in let b1 := id / 256 mod 256 in let b0 := id mod 256 in
  let lo := if fst s <=? 0 then 1 else fst s in
  match sp with
  | Sp8d => [b3 - lo]
  | Sp16 => [b3 - lo; b0 - 1]
  | Sp32 => [b3 - lo; b0; b2; if b2 =? 0 then b1 - 1 else b1]
  | Sp8 => [b0 - lo]
  | Sp24 => [b0; b2 - fst s; if b2 =? 0 then b1 - 1 else b1]
  end.

Ltac decide_ifs :=
  repeat match goal with
  | |- context [if ?a <? ?b then _ else _] => replace (a <? b) with true by lia; cbv beta iota
  | |- context [if ?a =? ?b then _ else _] => (replace (a =? b) with true by lia) || (replace (a =? b) with false by lia); cbv beta iota
  end.

Theorem gen_complete sp s id : valid_sub s -> in_sub sp s id ->
  exists asked, gen_random_id sp s (draws_for sp s id) = Done id asked [].
Proof.
  intros (H1 & H2 & H3) (Hsp & Hr). unfold gen_random_id. rewrite gen_cases.
  unfold in_space, is_id in Hsp. 
  destruct sp; cbn [sub_byte] in Hr; byte_arith;
  cbv beta iota zeta delta [draws_for bind rand_nonzero_byte rand_byte randbelow ret sub_begin sub_end];
  destruct (fst s <=? 0) eqn:E; cbv beta iota;
  try (destruct (id / 65536 mod 256 =? 0) eqn:E2; cbv beta iota);
  decide_ifs; eexists; f_equal; rewrite compose_bytes_sum by lia; lia.
Qed.
