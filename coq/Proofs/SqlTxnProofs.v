(* Proofs/SqlTxnProofs.v — every schedule of micro-steps and kills is a one-at-a-time execution (C03, C12). *)
From Coq Require Import ZArith NArith List Bool Lia Arith.
From Tup Require Import Lib.IdSpaceTy Model.IdSpace Model.IdManager Model.UploadModel Model.UploadFlow Gen.TxnShapeGen
  Model.SqlTxn Spec.SerialSpec.
Import ListNotations.
Open Scope nat_scope.

(* ------------------------------------------------------------------ the source-derived shapes (proof obligations) *)
Lemma src_get_id_one_txn : get_id_one_txn = true.  Proof. reflexivity. Qed.
Lemma src_del_id_one_txn : del_id_one_txn = true.  Proof. reflexivity. Qed.
Lemma src_mark_uploaded_one_txn : mark_uploaded_one_txn = true.  Proof. reflexivity. Qed.
Lemma src_reads_in_snapshot : reads_in_snapshot = true.  Proof. reflexivity. Qed.
Lemma src_schema_objects : schema_objects = 17%nat.  Proof. reflexivity. Qed.

Notation entry := (SerialSpec.entry call result).
Notation pidof := (@SerialSpec.pidof call result).
Notation callof := (@SerialSpec.callof call result).
Notation resof := (@SerialSpec.resof call result).
Notation proj := (@SerialSpec.proj call result).
Notation serial_run := (@SerialSpec.serial_run store call result exec_call).

(* ------------------------------------------------------------------ lists *)
Lemma nth_set_same {A} (l : list A) n x : n < length l -> nth_error (set_nth l n x) n = Some x.
Proof. revert n; induction l as [|y l IH]; intros [|n] H; cbn in *; try lia; [reflexivity|apply IH; lia]. Qed.
Lemma nth_set_other {A} (l : list A) n m x : n <> m -> nth_error (set_nth l n x) m = nth_error l m.
Proof. revert n m; induction l as [|y l IH]; intros [|n] [|m] H; cbn; try reflexivity; try congruence. apply IH; congruence. Qed.
Lemma length_set_nth {A} (l : list A) n x : length (set_nth l n x) = length l.
Proof. revert n; induction l as [|y l IH]; intros [|n]; cbn; try reflexivity. rewrite IH; reflexivity. Qed.
Lemma nth_error_lt {A} (l : list A) n x : nth_error l n = Some x -> n < length l.
Proof. intro H. apply nth_error_Some. congruence. Qed.

Lemma proj_app p (l1 l2 : list entry) : proj p (l1 ++ l2) = proj p l1 ++ proj p l2.
Proof. apply filter_app. Qed.
Lemma proj_one_same p c r : proj p [(p, c, r)] = [(p, c, r)].
Proof. unfold SerialSpec.proj, SerialSpec.pidof; cbn. rewrite Nat.eqb_refl. reflexivity. Qed.
Lemma proj_one_other p q c r : p <> q -> proj q [(p, c, r)] = [].
Proof. intro H. unfold SerialSpec.proj, SerialSpec.pidof; cbn. destruct (Nat.eqb_spec p q); [contradiction|reflexivity]. Qed.

Lemma proj_none p (l : list entry) : (forall e, In e l -> pidof e <> p) -> proj p l = [].
Proof.
  induction l as [|e l IH]; intro H; [reflexivity|]. unfold SerialSpec.proj; cbn [filter].
  destruct (Nat.eqb_spec (pidof e) p) as [E|E]; [exfalso; exact (H e (or_introl eq_refl) E)|]. apply IH. intros e' He'. apply H. right; exact He'.
Qed.
Lemma proj_all p (l : list entry) : (forall e, In e l -> pidof e = p) -> proj p l = l.
Proof.
  induction l as [|e l IH]; intro H; [reflexivity|]. unfold SerialSpec.proj; cbn [filter].
  rewrite (H e (or_introl eq_refl)), Nat.eqb_refl. f_equal. apply IH. intros e' He'. apply H. right; exact He'.
Qed.

Lemma serial_run_snoc s l s' p c : serial_run s l s' ->
  serial_run s (l ++ [(p, c, snd (exec_call c s'))]) (fst (exec_call c s')).
Proof.
  induction 1 as [s|s q c0 l s'' H IH]; cbn [app].
  - apply SerialSpec.sr_cons. apply SerialSpec.sr_nil.
  - apply SerialSpec.sr_cons. exact IH.
Qed.

(* ------------------------------------------------------------------ single-segment compilation *)
Definition single (cmp : call -> list seg) : Prop :=
  forall c, exists m wr, cmp c = whole m wr c /\ (wr = false -> forall s, fst (exec_call c s) = s).

Lemma compile_single : single compile.
Proof.
  intro c. unfold compile, compile_with.
  rewrite src_get_id_one_txn, src_del_id_one_txn, src_mark_uploaded_one_txn, src_reads_in_snapshot.
  destruct c; try (eexists; exists true; split; [reflexivity|discriminate]);
    (eexists; exists false; split; [reflexivity|]; intros _ s; cbn [exec_call]).
  - destruct (get_info (ids s) id); reflexivity.
  - reflexivity.
  - reflexivity.
  - reflexivity.
  - destruct (from_id id); reflexivity.
Qed.

(* ------------------------------------------------------------------ the invariant *)
Definition local_ok (s : store) (pr : proc) : Prop :=
  match cst pr with
  | Idle => alive pr = true -> segs pr = None
  | Begun v => alive pr = true /\ v = s /\ exists c rest wr, todo pr = c :: rest /\ segs pr = Some (whole Imm wr c)
  | Bodied v o => alive pr = true /\ exists c rest wr, todo pr = c :: rest /\ segs pr = Some (whole Imm wr c) /\
                  v = fst (exec_call c s) /\ o = [ODone (snd (exec_call c s))]
  end.

Record Inv (w0 w : world) : Prop := {
  inv_serial : serial_run (committed w0) (log w) (committed w);
  inv_len : length (procs w) = length (procs w0);
  inv_hist : forall p pr0 pr, nth_error (procs w0) p = Some pr0 -> nth_error (procs w) p = Some pr ->
      todo pr0 = map callof (proj p (log w)) ++ todo pr /\ done pr = done pr0 ++ map resof (proj p (log w));
  inv_local : forall p pr, nth_error (procs w) p = Some pr -> local_ok (committed w) pr;
  inv_lock : forall p q pr qr, nth_error (procs w) p = Some pr -> nth_error (procs w) q = Some qr ->
      holds_lock pr = true -> holds_lock qr = true -> p = q;
  inv_pids : forall e, In e (log w) -> pidof e < length (procs w0) }.

Lemma holder_means_held w p pr : nth_error (procs w) p = Some pr -> holds_lock pr = true -> lock_held w = true.
Proof.
  intros Hn Hh. unfold lock_held. apply existsb_exists. exists pr. split; [eapply nth_error_In; exact Hn|exact Hh].
Qed.

Lemma holds_idle pr : cst pr = Idle -> holds_lock pr = false.
Proof. intro H. unfold holds_lock. rewrite H. apply andb_false_r. Qed.

(* a process that is Idle (and whatever else) put at position p *)
Lemma inv_complete w0 w p pr c rest s' r :
  Inv w0 w -> nth_error (procs w) p = Some pr -> todo pr = c :: rest ->
  s' = fst (exec_call c (committed w)) -> r = snd (exec_call c (committed w)) ->
  (forall q qr, q <> p -> nth_error (procs w) q = Some qr -> local_ok s' qr) ->
  Inv w0 {| committed := s'; log := log w ++ [(p, c, r)];
            procs := set_nth (procs w) p {| todo := rest; segs := None; acc := []; cst := Idle; done := done pr ++ [r]; alive := true |} |}.
Proof.
  intros I Hn Ht Hs Hr Hoth. pose proof (nth_error_lt _ _ _ Hn) as Hlt.
  constructor; cbn [committed log procs].
  - subst s' r. apply serial_run_snoc. exact (inv_serial _ _ I).
  - rewrite length_set_nth. exact (inv_len _ _ I).
  - intros q pr0 qr H0 Hq. destruct (Nat.eq_dec p q) as [<-|Hne].
    + rewrite nth_set_same in Hq by exact Hlt. inversion Hq; subst qr; clear Hq. cbn [todo done].
      destruct (inv_hist _ _ I p pr0 pr H0 Hn) as [Ha Hb]. rewrite proj_app, proj_one_same, !map_app. cbn [map].
      split; [rewrite Ha, Ht, <- app_assoc; reflexivity|rewrite Hb, app_assoc; reflexivity].
    + rewrite nth_set_other in Hq by exact Hne. rewrite proj_app, proj_one_other, app_nil_r by exact Hne.
      exact (inv_hist _ _ I q pr0 qr H0 Hq).
  - intros q qr Hq. destruct (Nat.eq_dec p q) as [<-|Hne].
    + rewrite nth_set_same in Hq by exact Hlt. inversion Hq; subst qr. unfold local_ok; cbn. intros _; reflexivity.
    + rewrite nth_set_other in Hq by exact Hne. apply (Hoth q qr); [congruence|exact Hq].
  - intros a b ar br Ha Hb Hha Hhb.
    destruct (Nat.eq_dec p a) as [<-|Hna].
    { rewrite nth_set_same in Ha by exact Hlt. inversion Ha; subst ar. cbn in Hha. discriminate. }
    destruct (Nat.eq_dec p b) as [<-|Hnb].
    { rewrite nth_set_same in Hb by exact Hlt. inversion Hb; subst br. cbn in Hhb. discriminate. }
    rewrite nth_set_other in Ha, Hb by assumption. exact (inv_lock _ _ I a b ar br Ha Hb Hha Hhb).
  - intros e He. apply in_app_or in He. destruct He as [He|[<-|[]]]; [exact (inv_pids _ _ I e He)|].
    unfold SerialSpec.pidof; cbn. rewrite <- (inv_len _ _ I). exact Hlt.
Qed.

(* replacing the process at p by one with the same todo/done, no change of the database or the log *)
Lemma inv_local_step w0 w p pr pr' :
  Inv w0 w -> nth_error (procs w) p = Some pr -> todo pr' = todo pr -> done pr' = done pr ->
  local_ok (committed w) pr' ->
  (holds_lock pr' = true -> forall q qr, q <> p -> nth_error (procs w) q = Some qr -> holds_lock qr = false) ->
  Inv w0 (with_proc w p pr').
Proof.
  intros I Hn Ht Hd Hl Hlk. pose proof (nth_error_lt _ _ _ Hn) as Hlt.
  constructor; unfold with_proc; cbn [committed log procs].
  - exact (inv_serial _ _ I).
  - rewrite length_set_nth. exact (inv_len _ _ I).
  - intros q pr0 qr H0 Hq. destruct (Nat.eq_dec p q) as [<-|Hne].
    + rewrite nth_set_same in Hq by exact Hlt. inversion Hq; subst qr. rewrite Ht, Hd. exact (inv_hist _ _ I p pr0 pr H0 Hn).
    + rewrite nth_set_other in Hq by exact Hne. exact (inv_hist _ _ I q pr0 qr H0 Hq).
  - intros q qr Hq. destruct (Nat.eq_dec p q) as [<-|Hne].
    + rewrite nth_set_same in Hq by exact Hlt. inversion Hq; subst qr. exact Hl.
    + rewrite nth_set_other in Hq by exact Hne. exact (inv_local _ _ I q qr Hq).
  - intros a b ar br Ha Hb Hha Hhb.
    destruct (Nat.eq_dec p a) as [<-|Hna]; destruct (Nat.eq_dec p b) as [Hpb|Hnb]; try (subst; reflexivity).
    + rewrite nth_set_same in Ha by exact Hlt. inversion Ha; subst ar. rewrite nth_set_other in Hb by exact Hnb.
      rewrite (Hlk Hha b br) in Hhb; [discriminate|congruence|exact Hb].
    + subst b. rewrite nth_set_same in Hb by exact Hlt. inversion Hb; subst br. rewrite nth_set_other in Ha by exact Hna.
      rewrite (Hlk Hhb a ar) in Hha; [discriminate|congruence|exact Ha].
    + rewrite nth_set_other in Ha, Hb by assumption. exact (inv_lock _ _ I a b ar br Ha Hb Hha Hhb).
  - exact (inv_pids _ _ I).
Qed.

Lemma not_held_no_holder w q qr : lock_held w = false -> nth_error (procs w) q = Some qr -> holds_lock qr = false.
Proof.
  intros Hl Hq. destruct (holds_lock qr) eqn:E; [|reflexivity]. rewrite (holder_means_held w q qr Hq E) in Hl. discriminate.
Qed.

Lemma local_ok_not_holder s s' qr : holds_lock qr = false -> local_ok s qr -> local_ok s' qr.
Proof.
  unfold holds_lock, local_ok. destruct (cst qr) as [|v|v o]; [intros _ H; exact H| |].
  - intros H [Ha _]. rewrite Ha in H. discriminate.
  - intros H [Ha _]. rewrite Ha in H. discriminate.
Qed.

Lemma whole_inv m wr c sg more : whole m wr c = sg :: more ->
  more = [] /\ smode sg = m /\ swrite sg = wr /\ forall a s, sfn sg a s = (fst (exec_call c s), [ODone (snd (exec_call c s))]).
Proof.
  unfold whole. intro H. inversion H; subst. repeat split. intros a s. cbn. destruct (exec_call c s); reflexivity.
Qed.

Theorem mstep_inv cmp w0 w p w' : single cmp -> Inv w0 w -> mstep cmp w p = Some w' -> Inv w0 w'.
Proof.
  intros Hs I. unfold mstep. destruct (nth_error (procs w) p) as [pr|] eqn:Hn; [|discriminate].
  destruct (alive pr) eqn:Ha; cbn [negb]; [|discriminate].
  destruct (todo pr) as [|c rest] eqn:Ht; [discriminate|].
  pose proof (inv_local _ _ I p pr Hn) as Hl. unfold local_ok in Hl.
  destruct (Hs c) as (m & wr & Hc & Hro).
  destruct (cst pr) as [|v|v o] eqn:Hst.
  - (* Idle *)
    rewrite (Hl Ha). rewrite Hc. destruct (whole_inv m wr c _ _ eq_refl) as (_ & Hm & Hw & Hf).
    unfold whole at 1. cbn [smode swrite]. destruct m.
    + (* an autocommit statement *)
      destruct (wr && lock_held w) eqn:Hlk; [discriminate|]. cbn [sfn].
      destruct (exec_call c (committed w)) as [s' r] eqn:He. intro H; inversion H; subst w'; clear H.
      unfold advance. apply (inv_complete w0 w p pr c rest s' r I Hn Ht); [rewrite He; reflexivity|rewrite He; reflexivity|].
      intros q qr Hq Hqn. pose proof (inv_local _ _ I q qr Hqn) as Hlq.
      destruct wr; cbn [andb] in Hlk.
      * eapply local_ok_not_holder; [eapply not_held_no_holder; eassumption|exact Hlq].
      * assert (s' = committed w) as -> by (rewrite <- (Hro eq_refl (committed w)), He; reflexivity). exact Hlq.
    + (* BEGIN IMMEDIATE *)
      destruct (lock_held w) eqn:Hlk; [discriminate|]. intro H; inversion H; subst w'; clear H.
      apply (inv_local_step w0 w p pr); [exact I|exact Hn|cbn [todo]; congruence|reflexivity| |].
      * unfold local_ok; cbn. split; [reflexivity|]. split; [reflexivity|]. exists c, rest, wr. split; [reflexivity|reflexivity].
      * intros _ q qr _ Hq. eapply not_held_no_holder; eassumption.
  - (* Begun: the statements of the transaction, on the private view *)
    destruct Hl as (_ & Hv & c' & rest' & wr' & Ht' & Hsg). rewrite Ht in Ht'. inversion Ht'; subst c' rest'; clear Ht'.
    rewrite Hsg. unfold whole at 1. cbn [smode sfn].
    destruct (exec_call c v) as [v' r] eqn:He. intro H; inversion H; subst w'; clear H.
    apply (inv_local_step w0 w p pr); [exact I|exact Hn|cbn [todo]; congruence|reflexivity| |].
    + unfold local_ok; cbn. split; [reflexivity|]. exists c, rest, wr'. split; [reflexivity|]. split; [reflexivity|].
      subst v. rewrite He. split; reflexivity.
    + intros _ q qr Hqp Hq. destruct (holds_lock qr) eqn:E; [|reflexivity]. exfalso. apply Hqp.
      apply (inv_lock _ _ I q p qr pr Hq Hn E). unfold holds_lock. rewrite Ha, Hst. reflexivity.
  - (* Bodied: COMMIT *)
    destruct Hl as (_ & c' & rest' & wr' & Ht' & Hsg & Hv & Ho). rewrite Ht in Ht'. inversion Ht'; subst c' rest'; clear Ht'.
    rewrite Hsg. unfold whole at 1. cbn [smode]. intro H; inversion H; subst w'; clear H.
    subst o. unfold advance. apply (inv_complete w0 w p pr c rest v _ I Hn Ht Hv eq_refl).
    intros q qr Hqp Hq. pose proof (inv_local _ _ I q qr Hq) as Hlq.
    eapply local_ok_not_holder; [|exact Hlq]. destruct (holds_lock qr) eqn:E; [|reflexivity]. exfalso. apply Hqp.
    apply (inv_lock _ _ I q p qr pr Hq Hn E). unfold holds_lock. rewrite Ha, Hst. reflexivity.
Qed.

Theorem kill_inv w0 w p : Inv w0 w -> Inv w0 (kill w p).
Proof.
  intro I. unfold kill. destruct (nth_error (procs w) p) as [pr|] eqn:Hn; [|exact I].
  apply (inv_local_step w0 w p pr); [exact I|exact Hn|reflexivity|reflexivity| |].
  - unfold local_ok; cbn. discriminate.
  - cbn. discriminate.
Qed.

Theorem init_inv s ps : Inv (init_world s ps) (init_world s ps).
Proof.
  constructor; unfold init_world; cbn [committed log procs].
  - apply SerialSpec.sr_nil.
  - reflexivity.
  - intros p pr0 pr H0 H. rewrite H0 in H. inversion H; subst. cbn. rewrite app_nil_r. split; reflexivity.
  - intros p pr H. apply nth_error_In in H. apply in_map_iff in H. destruct H as (cs & <- & _). unfold local_ok; cbn. reflexivity.
  - intros p q pr qr H _ Hh. apply nth_error_In in H. apply in_map_iff in H. destruct H as (cs & <- & _). cbn in Hh. discriminate.
  - intros e [].
Qed.

Theorem run_inv cmp w0 es : single cmp -> forall w, Inv w0 w -> Inv w0 (run_events cmp w es).
Proof.
  intro Hs. induction es as [|e es IH]; intros w I; [exact I|]. cbn [run_events fold_left]. apply IH.
  destruct e as [p|p]; cbn [apply_event].
  - destruct (mstep cmp w p) as [w'|] eqn:E; [exact (mstep_inv cmp w0 w p w' Hs I E)|exact I].
  - apply kill_inv. exact I.
Qed.

(* ------------------------------------------------------------------ C03: every schedule is serializable *)
(* what each process completed, with the results it got *)
Definition completed (w : world) (p : nat) : list (call * result) := map (fun e => (callof e, resof e)) (proj p (log w)).

Theorem schedule_serial s ps es :
  let w := run_events compile (init_world s ps) es in
  serial_run s (log w) (committed w) /\
  (forall e, In e (log w) -> pidof e < length ps) /\
  forall p cs, nth_error ps p = Some cs ->
    exists pr, nth_error (procs w) p = Some pr /\
               cs = map callof (proj p (log w)) ++ todo pr /\ done pr = map resof (proj p (log w)).
Proof.
  intro w. pose proof (run_inv compile (init_world s ps) es compile_single _ (init_inv s ps)) as I. fold w in I.
  split; [exact (inv_serial _ _ I)|]. split.
  - intros e He. pose proof (inv_pids _ _ I e He) as H. unfold init_world in H; cbn in H. rewrite map_length in H. exact H.
  - intros p cs Hp.
    assert (H0 : nth_error (procs (init_world s ps)) p = Some (fresh_proc cs)) by (unfold init_world; cbn; rewrite nth_error_map, Hp; reflexivity).
    assert (Hlt : p < length (procs w)) by (rewrite (inv_len _ _ I); eapply nth_error_lt; exact H0).
    destruct (nth_error (procs w) p) as [pr|] eqn:Hn; [|apply nth_error_None in Hn; lia].
    exists pr. split; [reflexivity|]. destruct (inv_hist _ _ I p _ pr H0 Hn) as [Ha Hb]. cbn in Ha, Hb. split; assumption.
Qed.

(* the Spec's notion: the completed calls with their results, and the committed database, form a serializable history *)
Theorem schedule_serializable s ps es :
  let w := run_events compile (init_world s ps) es in
  SerialSpec.Serializable store call result exec_call s (map (completed w) (seq 0 (length ps))) (committed w).
Proof.
  intro w. destruct (schedule_serial s ps es) as (Hr & Hp & _). fold w in Hr, Hp.
  exists (log w). split; [|split].
  - intro p. destruct (Nat.lt_ge_cases p (length ps)) as [Hlt|Hge].
    + rewrite (nth_indep _ [] (completed w 0)) by (rewrite map_length, seq_length; exact Hlt).
      rewrite map_nth. rewrite seq_nth by exact Hlt. reflexivity.
    + rewrite nth_overflow by (rewrite map_length, seq_length; exact Hge).
      assert (proj p (log w) = []) as ->; [|reflexivity].
      apply proj_none. intros e He. pose proof (Hp e He). lia.
  - intros e He. rewrite map_length, seq_length. exact (Hp e He).
  - exact Hr.
Qed.

(* ------------------------------------------------------------------ consequences along the serial order *)
(* a property of databases that every call preserves holds of the committed database after every schedule *)
Lemma serial_run_preserves (P : store -> Prop) (ok : call -> Prop) :
  (forall c s, ok c -> P s -> P (fst (exec_call c s))) ->
  forall s l s', serial_run s l s' -> Forall (fun e => ok (callof e)) l -> P s -> P s'.
Proof.
  intros Hstep s l s' H. induction H as [s|s p c l s'' H IH]; intros Hf Hp; [exact Hp|].
  apply Forall_cons_iff in Hf. destruct Hf as [Hc Hf]. apply IH; [exact Hf|]. apply Hstep; [exact Hc|exact Hp].
Qed.

Lemma log_calls_ok (ok : call -> Prop) s ps es :
  Forall (Forall ok) ps -> Forall (fun e => ok (callof e)) (log (run_events compile (init_world s ps) es)).
Proof.
  intro Hok. destruct (schedule_serial s ps es) as (_ & Hp & Hh). set (w := run_events compile (init_world s ps) es) in *.
  apply Forall_forall. intros e He. pose proof (Hp e He) as Hlt.
  destruct (nth_error ps (pidof e)) as [cs|] eqn:Hn; [|apply nth_error_None in Hn; lia].
  destruct (Hh _ cs Hn) as (pr & _ & Hcs & _).
  assert (Hin : In (callof e) cs).
  { rewrite Hcs. apply in_or_app. left. apply in_map. unfold SerialSpec.proj. apply filter_In. split; [exact He|apply Nat.eqb_refl]. }
  rewrite Forall_forall in Hok. specialize (Hok cs (nth_error_In _ _ Hn)). rewrite Forall_forall in Hok. exact (Hok _ Hin).
Qed.

Theorem schedule_preserves (P : store -> Prop) (ok : call -> Prop) :
  (forall c s, ok c -> P s -> P (fst (exec_call c s))) ->
  forall s ps es, Forall (Forall ok) ps -> P s -> P (committed (run_events compile (init_world s ps) es)).
Proof.
  intros Hstep s ps es Hok Hp. destruct (schedule_serial s ps es) as (Hr & _).
  eapply serial_run_preserves; [exact Hstep|exact Hr|apply log_calls_ok; exact Hok|exact Hp].
Qed.

(* ------------------------------------------------------------------ C12: kills *)
(* a kill never changes the committed database or the log *)
Lemma kill_committed w p : committed (kill w p) = committed w /\ log (kill w p) = log w.
Proof. unfold kill. destruct (nth_error (procs w) p); split; reflexivity. Qed.

(* after a kill the dead process does not hold the lock *)
Lemma kill_releases w p pr : nth_error (procs (kill w p)) p = Some pr -> holds_lock pr = false.
Proof.
  unfold kill. destruct (nth_error (procs w) p) as [pr0|] eqn:Hn.
  - unfold with_proc; cbn [procs]. rewrite nth_set_same by (eapply nth_error_lt; exact Hn). intro H; inversion H; subst. reflexivity.
  - rewrite Hn. discriminate.
Qed.

(* if the killed process was the holder, nobody holds the lock afterwards *)
Theorem kill_frees_lock w0 w p pr : Inv w0 w -> nth_error (procs w) p = Some pr -> holds_lock pr = true ->
  lock_held (kill w p) = false.
Proof.
  intros I Hn Hh. unfold kill. rewrite Hn. unfold lock_held, with_proc; cbn [procs].
  destruct (existsb holds_lock _) eqn:E; [|reflexivity]. exfalso.
  apply existsb_exists in E. destruct E as (qr & Hin & Hq). apply In_nth_error in Hin. destruct Hin as [q Hq'].
  destruct (Nat.eq_dec p q) as [<-|Hne].
  - rewrite nth_set_same in Hq' by (eapply nth_error_lt; exact Hn). inversion Hq'; subst qr. cbn in Hq. discriminate.
  - rewrite nth_set_other in Hq' by exact Hne. apply Hne. exact (inv_lock _ _ I p q pr qr Hn Hq' Hh Hq).
Qed.

(* when nobody holds the lock, every live process with a call left can take its next micro-step *)
Theorem enabled_when_free cmp w0 w q qr c rest : single cmp -> Inv w0 w -> lock_held w = false ->
  nth_error (procs w) q = Some qr -> alive qr = true -> todo qr = c :: rest -> mstep cmp w q <> None.
Proof.
  intros Hs I Hl Hq Ha Ht. unfold mstep. rewrite Hq, Ha, Ht. cbn [negb].
  pose proof (inv_local _ _ I q qr Hq) as Hlo. pose proof (not_held_no_holder w q qr Hl Hq) as Hnh.
  unfold holds_lock in Hnh. rewrite Ha in Hnh. unfold local_ok in Hlo. destruct (cst qr); [|discriminate|discriminate].
  rewrite (Hlo Ha). destruct (Hs c) as (m & wr & -> & _). unfold whole. cbn [smode swrite sfn]. rewrite Hl, andb_false_r.
  destruct m; [destruct (exec_call c (committed w)); discriminate|discriminate].
Qed.

(* ONE process, ONE call, killed after k micro-steps: the database is the one before or the one after the call *)
Theorem one_call_all_or_nothing s c k :
  let w := run_events compile (init_world s [[c]]) (repeat (Run 0) k ++ [Kill 0]) in
  committed w = s \/ committed w = fst (exec_call c s).
Proof.
  intro w. destruct (schedule_serial s [[c]] (repeat (Run 0) k ++ [Kill 0])) as (Hr & Hp & Hh). fold w in Hr, Hp, Hh.
  destruct (Hh 0 [c] eq_refl) as (pr & _ & Hcs & _).
  assert (Hall : proj 0 (log w) = log w).
  { apply proj_all. intros e He. pose proof (Hp e He) as H. cbn in H. lia. }
  rewrite Hall in Hcs. destruct (log w) as [|e [|e' l]] eqn:El.
  - left. inversion Hr. reflexivity.
  - right. destruct e as [[p1 c1] r1]. cbn in Hcs. injection Hcs as Hc _. subst c1.
    inversion Hr as [|s1 p2 c2 l1 s2 H1]; subst. inversion H1; subst. reflexivity.
  - cbn in Hcs. injection Hcs as _ Hnil. discriminate.
Qed.

(* ------------------------------------------------------------------ opening the database *)
Lemma create_mono sc o x : In x sc -> In x (create_if_absent sc o).
Proof. unfold create_if_absent. destruct (existsb (Nat.eqb o) sc); [auto|right; assumption]. Qed.
Lemma create_has sc o : In o (create_if_absent sc o).
Proof.
  unfold create_if_absent. destruct (existsb (Nat.eqb o) sc) eqn:E; [|left; reflexivity].
  apply existsb_exists in E. destruct E as (x & Hx & He). apply Nat.eqb_eq in He. subst x. exact Hx.
Qed.

(* invariant: every object an opener has already passed is in the schema; the schema only grows *)
Definition oinv (w : oworld) : Prop :=
  forall p pr, nth_error (oprocs w) p = Some pr -> exists pre, open_steps = pre ++ oleft pr /\ forall o, In o pre -> In o (osch w).

Lemma ostep_mono w p x : In x (osch w) -> In x (osch (ostep w p)).
Proof.
  unfold ostep. destruct (nth_error (oprocs w) p) as [[[|o r] [|]]|]; cbn [osch]; auto. apply create_mono.
Qed.

Lemma oapply_inv w e : oinv w -> oinv (oapply w e).
Proof.
  intro I. destruct e as [p|p]; cbn [oapply].
  - unfold ostep. destruct (nth_error (oprocs w) p) as [[[|o r] [|]]|] eqn:Hn; try exact I.
    intros q qr Hq. cbn [oprocs osch] in *. destruct (Nat.eq_dec p q) as [<-|Hne].
    + rewrite nth_set_same in Hq by (eapply nth_error_lt; exact Hn). inversion Hq; subst qr; cbn [oleft].
      destruct (I p _ Hn) as (pre & Hpre & Hin). cbn [oleft] in Hpre. exists (pre ++ [o]). split; [rewrite <- app_assoc; exact Hpre|].
      intros x Hx. apply in_app_or in Hx. destruct Hx as [Hx|[<-|[]]]; [apply create_mono, Hin, Hx|apply create_has].
    + rewrite nth_set_other in Hq by exact Hne. destruct (I q qr Hq) as (pre & Hpre & Hin). exists pre. split; [exact Hpre|].
      intros x Hx. apply create_mono, Hin, Hx.
  - unfold okill. destruct (nth_error (oprocs w) p) as [pr|] eqn:Hn; [|exact I].
    intros q qr Hq. cbn [oprocs osch] in *. destruct (Nat.eq_dec p q) as [<-|Hne].
    + rewrite nth_set_same in Hq by (eapply nth_error_lt; exact Hn). inversion Hq; subst qr; cbn [oleft]. exact (I p pr Hn).
    + rewrite nth_set_other in Hq by exact Hne. exact (I q qr Hq).
Qed.

Lemma orun_inv es : forall w, oinv w -> oinv (orun w es).
Proof. induction es as [|e es IH]; intros w I; [exact I|]. cbn [orun fold_left]. apply IH, oapply_inv, I. Qed.

Lemma orun_mono es : forall w x, In x (osch w) -> In x (osch (orun w es)).
Proof.
  induction es as [|e es IH]; intros w x H; [exact H|]. cbn [orun fold_left]. apply IH.
  destruct e as [p|p]; cbn [oapply]; [apply ostep_mono, H|]. unfold okill. destruct (nth_error (oprocs w) p); exact H.
Qed.

Lemma oinit_inv sc n : oinv (oinit sc n).
Proof.
  intros p pr Hp. unfold oinit in Hp; cbn [oprocs] in Hp. apply nth_error_In, repeat_spec in Hp. subst pr. exists []. split; [reflexivity|intros o []].
Qed.

(* any interleaving of any number of openers, with kills, starting from any schema (e.g. one left half-built by a
   killed opener): nothing that existed is lost, and as soon as ONE opener has run to completion the schema is
   complete — so every operation (issued only after the issuing process's own constructor returned) finds all tables *)
Theorem open_complete sc n es p pr :
  let w := orun (oinit sc n) es in
  (forall x, In x sc -> In x (osch w)) /\
  (nth_error (oprocs w) p = Some pr -> oleft pr = [] -> schema_full (osch w) = true).
Proof.
  intro w. split; [intros x Hx; apply orun_mono; exact Hx|].
  intros Hp Hl. destruct (orun_inv es _ (oinit_inv sc n) p pr Hp) as (pre & Hpre & Hin). rewrite Hl, app_nil_r in Hpre. subst pre.
  unfold schema_full. apply forallb_forall. intros o Ho. apply existsb_exists. exists o. split; [apply Hin, Ho|apply Nat.eqb_refl].
Qed.

(* ------------------------------------------------------------------ the journal-mode switch of the constructor *)
Lemma src_wal_switch_retried : wal_switch_retried = true.  Proof. reflexivity. Qed.

Lemma wal_fold_stable retried answers st : st <> WalTodo ->
  fold_left (fun st b => wal_attempt retried b st) answers st = st.
Proof.
  revert st. induction answers as [|b r IH]; intros st H; cbn [fold_left]; [reflexivity|].
  rewrite IH; destruct st; try reflexivity; try exact H; congruence.
Qed.
Lemma wal_fold_retried answers : forall st, st <> WalFailed ->
  fold_left (fun st b => wal_attempt true b st) answers st <> WalFailed.
Proof.
  induction answers as [|b r IH]; intros st H; cbn [fold_left]; [exact H|].
  apply IH. destruct st, b; cbn [wal_attempt]; congruence.
Qed.
(* whatever sqlite answers, however often: a constructor that repeats the switch never fails on it *)
Theorem wal_never_fails answers : wal_run true answers <> WalFailed.
Proof. unfold wal_run. apply wal_fold_retried. discriminate. Qed.
(* ... and the first attempt that finds the lock free completes the switch for good *)
Theorem wal_done_after_free pre post : Forall (fun b => b = true) pre -> wal_run true (pre ++ false :: post) = WalDone.
Proof.
  intros H. unfold wal_run. rewrite fold_left_app. cbn [fold_left].
  assert (E : fold_left (fun st b => wal_attempt true b st) pre WalTodo = WalTodo).
  { induction H as [|b r Hb _ IH]; cbn [fold_left]; [reflexivity|]. subst b. exact IH. }
  rewrite E. cbn [wal_attempt]. apply wal_fold_stable. discriminate.
Qed.
(* the pinned tree executed the statement once: one refusal and the constructor raises "database is locked" *)
Theorem wal_unretried_refuted : exists answers, wal_run false answers = WalFailed.
Proof. exists [true]. reflexivity. Qed.
