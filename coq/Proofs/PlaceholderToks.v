(* Proofs/PlaceholderToks.v — the token view of Model.PlaceholderModel: for background-only
   formatting (what get_formatting produces) every line the model emits is the serialisation of an
   SGR prefix, one item (placeholder character + diacritics) per cell, and a reset; and each
   to_stream variant is the serialisation of the corresponding choreography.
   The `src_` lemmas consume the literals extracted from the source. *)
From Coq Require Import ZArith NArith List Bool Lia ZifyN ZifyBool ZifyNat.
From Tup Require Import Lib.Dec Lib.PyFmtD Lib.Utf8 Gen.DiacriticsGen Model.PlaceholderModel
  Spec.TermSpec Spec.PlaceholderSpec Proofs.DiacriticsFacts Proofs.TermLexFacts Proofs.TermPaintFacts Proofs.TermChorFacts.
Import ListNotations.
Open Scope N_scope.
Ltac Zify.zify_post_hook ::= Z.to_euclidean_division_equations.

(* ---- formatting restricted to background SGR sequences *)
Inductive bgfmt :=
| BNone
| BBytes (s : list bgspec)
| BRow (f : N -> list bgspec)
| BCell (f : N -> N -> list bgspec).
Definition ser_bgs (s : list bgspec) : list N := ser_toks (map bg_tok s).
Definition fmt_of (b : bgfmt) : formatting :=
  match b with
  | BNone => FNone
  | BBytes s => FBytes (ser_bgs s)
  | BRow f => FRow (fun r => ser_bgs (f r))
  | BCell f => FCell (fun c r => ser_bgs (f c r))
  end.
Definition row_bgs (b : bgfmt) (row : N) : list bgspec :=
  match b with BBytes s => s | BRow f => f row | _ => [] end.
Definition cell_bgs (b : bgfmt) (col row : N) : list bgspec :=
  match b with BCell f => f col row | _ => [] end.
Lemma row_fmt_of b row : row_fmt (fmt_of b) row = ser_bgs (row_bgs b row).
Proof. destruct b; reflexivity. Qed.
Lemma cell_fmt_of b col row : cell_fmt (fmt_of b) col row = ser_bgs (cell_bgs b col row).
Proof. destruct b; reflexivity. Qed.

(* ---- serialisation of the CSI shapes used *)
Lemma ser_csi0 f : ser (TCsi [] f) = [27; 91; f].
Proof. reflexivity. Qed.
Lemma ser_csi1 a f : ser (TCsi [a] f) = 27 :: 91 :: dec a ++ [f].
Proof. cbn [ser ser_params flat_map app]. rewrite app_nil_r. reflexivity. Qed.
Lemma ser_csi2 a b f : ser (TCsi [a; b] f) = 27 :: 91 :: dec a ++ 59 :: dec b ++ [f].
Proof. cbn [ser ser_params flat_map app]. rewrite app_nil_r, <- !app_assoc. reflexivity. Qed.
Lemma ser_csi3 a b c f : ser (TCsi [a; b; c] f) = 27 :: 91 :: dec a ++ 59 :: dec b ++ 59 :: dec c ++ [f].
Proof. cbn [ser ser_params flat_map app]. rewrite app_nil_r, <- !app_assoc. cbn [app]. rewrite <- !app_assoc. reflexivity. Qed.
Lemma ser_csi5 a b c d e f : ser (TCsi [a; b; c; d; e] f)
  = 27 :: 91 :: dec a ++ 59 :: dec b ++ 59 :: dec c ++ 59 :: dec d ++ 59 :: dec e ++ [f].
Proof.
  cbn [ser ser_params flat_map app]. rewrite app_nil_r, <- !app_assoc. cbn [app]. rewrite <- !app_assoc. cbn [app].
  rewrite <- !app_assoc. cbn [app]. rewrite <- !app_assoc. reflexivity.
Qed.

(* ---- bit operations of the source as arithmetic *)
Lemma land_ff x : N.land x 255 = x mod 256.
Proof. change 255 with (N.ones 8). apply N.land_ones. Qed.
Lemma shiftr_land_ff x k : N.land (N.shiftr x k) 255 = (x / 2 ^ k) mod 256.
Proof. rewrite land_ff, N.shiftr_div_pow2. reflexivity. Qed.
Lemma land_mid x : (N.land x 16776960 =? 0) = ((x / 256) mod 65536 =? 0).
Proof.
  change 16776960 with (N.shiftl (N.ones 16) 8).
  assert (E : N.land x (N.shiftl (N.ones 16) 8) = N.shiftl (N.land (N.shiftr x 8) (N.ones 16)) 8).
  { apply N.bits_inj. intros n. rewrite N.land_spec. destruct (N.ltb_spec n 8) as [L|L].
    - rewrite !N.shiftl_spec_low by assumption. apply andb_false_r.
    - rewrite !N.shiftl_spec_high' by assumption. rewrite N.land_spec, N.shiftr_spec'.
      replace (n - 8 + 8) with n by lia. reflexivity. }
  rewrite E, N.land_ones, N.shiftr_div_pow2, N.shiftl_mul_pow2.
  change (2 ^ 16) with 65536. change (2 ^ 8) with 256. lia.
Qed.
Lemma msb_div x : x < 4294967296 -> N.shiftr (N.land x 4278190080) 24 = x / 16777216.
Proof.
  intros H. change 4278190080 with (N.shiftl (N.ones 8) 24).
  assert (E : N.land x (N.shiftl (N.ones 8) 24) = N.shiftl (N.land (N.shiftr x 24) (N.ones 8)) 24).
  { apply N.bits_inj. intros n. rewrite N.land_spec. destruct (N.ltb_spec n 24) as [L|L].
    - rewrite !N.shiftl_spec_low by assumption. apply andb_false_r.
    - rewrite !N.shiftl_spec_high' by assumption. rewrite N.land_spec, N.shiftr_spec'.
      replace (n - 24 + 24) with n by lia. reflexivity. }
  rewrite E, N.shiftr_shiftl_l, N.sub_diag, N.shiftl_0_r, N.land_ones, N.shiftr_div_pow2 by lia.
  change (2 ^ 24) with 16777216. change (2 ^ 8) with 256. lia.
Qed.

(* ---- colours *)
Definition mid_zero (v : N) : bool := (v / 256) mod 65536 =? 0.
Definition col_params (which : N) (allow : bool) (v : N) : list N :=
  if allow && mid_zero v then [which; 5; v mod 256]
  else [which; 2; (v / 65536) mod 256; (v / 256) mod 256; v mod 256].
Definition col_of (allow : bool) (v : N) : color :=
  if allow && mid_zero v then CIdx (v mod 256)
  else CRgb ((v / 65536) mod 256) ((v / 256) mod 256) (v mod 256).
Definition fg_tok (m : mode) (id : N) : tok := TCsi (col_params 38 (allow256_id m) id) 109.
Definition pid_shown (m : mode) (pid : N) : bool := negb (skip_pid0 m && (pid =? 0)).
Definition ul_toks (m : mode) (pid : N) : list tok :=
  if pid_shown m pid then [TCsi (col_params 58 (allow256_pid m) pid) 109] else [].

Lemma src_id_color_bytes p m : id_color_bytes p m = ser (fg_tok m (image_id p)).
Proof.
  unfold id_color_bytes, fg_tok, col_params, mid_zero.
  unfold id_midmask, id_midzero, id_lomask, id_rshift, id_rmask, id_gshift, id_gmask, id_bmask, fg256_t, fg24_t.
  rewrite land_mid, land_ff, !shiftr_land_ff. change (2 ^ 16) with 65536. change (2 ^ 8) with 256.
  destruct (allow256_id m && ((image_id p / 256) mod 65536 =? 0)).
  - rewrite ser_csi3. reflexivity.
  - rewrite ser_csi5. reflexivity.
Qed.
Lemma src_pid_color_bytes p m : pid_color_bytes p m = ser_toks (ul_toks m (placement_id p)).
Proof.
  unfold pid_color_bytes, ul_toks, pid_shown, col_params, mid_zero.
  unfold pid_zero, pid_midmask, pid_midzero, pid_lomask, pid_rshift, pid_rmask, pid_gshift, pid_gmask, pid_bmask, ul256_t, ul24_t.
  rewrite land_mid, land_ff, !shiftr_land_ff. change (2 ^ 16) with 65536. change (2 ^ 8) with 256.
  destruct (negb (skip_pid0 m && (placement_id p =? 0))); [|reflexivity].
  unfold ser_toks. cbn [flat_map]. rewrite app_nil_r.
  destruct (allow256_pid m && ((placement_id p / 256) mod 65536 =? 0)).
  - rewrite ser_csi3. reflexivity.
  - rewrite ser_csi5. reflexivity.
Qed.
Lemma src_reset_pre : reset_pre = ser reset_tok. Proof. reflexivity. Qed.
Lemma src_reset_post : reset_post = ser reset_tok. Proof. reflexivity. Qed.
(* F-C13: [reset_blank = ser reset_tok] holds for the repaired to_lines only
   (fixes/C13-blank-row-reset.patch); it is proved in Proofs/BlankRowReset.v and reaches the lemmas
   below as a hypothesis, so that everything about rectangles without rows >= 297 (C07, C14) does
   not depend on it. *)
Definition blank_reset_ok (p : placeholder) : Prop := reset_blank = ser reset_tok \/ end_row p <= 297.
Lemma src_blank_cell : blank_cell_bytes = ser (TChar 32). Proof. reflexivity. Qed.
Lemma src_line_init : line_init = []. Proof. reflexivity. Qed.
Lemma src_colors_init : colors_init = []. Proof. reflexivity. Qed.
Lemma src_table_len : table_len = 297. Proof. vm_compute. reflexivity. Qed.

Lemma src_msb_of p : image_id p < 4294967296 -> msb_of p = image_id p / 16777216.
Proof. intros H. unfold msb_of, msb_mask, msb_shift. apply msb_div. exact H. Qed.

Lemma diac_dia i : i < 297 -> diac i = Some (utf8_encode (dia i)).
Proof.
  intros H. unfold diac. rewrite src_table_len. destruct (i <? 297) eqn:E; [|lia]. f_equal.
  unfold diacritics_utf8, dia. rewrite src_table_is_protocol_table.
  rewrite (nth_indep _ [] (utf8_encode 0)) by (rewrite map_length, protocol_table_length; lia).
  apply map_nth.
Qed.
Lemma diac_none i : 297 <= i -> diac i = None.
Proof. intros H. unfold diac. rewrite src_table_len. destruct (i <? 297) eqn:E; [lia|reflexivity]. Qed.

(* ---- one line as tokens *)
Definition diacs_first (fc r c0 msb : N) : list N :=
  if 1 <=? fc then r :: (if 2 <=? fc then c0 :: (if 3 <=? fc then [msb] else []) else []) else [].
Definition diacs_other (oc r col msb : N) : list N :=
  if 1 <=? oc then r :: (if (2 <=? oc) && (col <? 297) then col :: (if 3 <=? oc then [msb] else []) else []) else [].
Definition ph_item (bgs : list bgspec) (ds : list N) : item := mkitem bgs placeholder_cp (map dia ds).
Definition other_item (p : placeholder) (m : mode) (b : bgfmt) (row col : N) : item :=
  ph_item (cell_bgs b col row) (diacs_other (other_count p m) row col (msb_of p)).
Definition line_items (p : placeholder) (m : mode) (b : bgfmt) (row : N) : list item :=
  ph_item (cell_bgs b (start_col p) row) (diacs_first (first_count p m) row (start_col p) (msb_of p))
  :: map (other_item p m b row) (range (start_col p + 1) (end_col p)).
Definition line_pre (p : placeholder) (m : mode) (b : bgfmt) (row : N) : list tok :=
  reset_tok :: map bg_tok (row_bgs b row) ++ fg_tok m (image_id p) :: ul_toks m (placement_id p).
Definition blank_items (p : placeholder) (b : bgfmt) (row : N) : list item :=
  map (fun col => mkitem (cell_bgs b col row) 32 []) (range (start_col p) (end_col p)).
Definition blank_pre (b : bgfmt) (row : N) : list tok := reset_tok :: map bg_tok (row_bgs b row).
Definition row_toks (p : placeholder) (m : mode) (b : bgfmt) (row : N) : list tok :=
  if 297 <=? row then line_toks (blank_pre b row) (blank_items p b row)
  else line_toks (line_pre p m b row) (line_items p m b row).

Lemma ser_toks_cons k ks : ser_toks (k :: ks) = ser k ++ ser_toks ks.
Proof. reflexivity. Qed.
Lemma ser_toks_map_char l : ser_toks (map TChar l) = flat_map utf8_encode l.
Proof. induction l as [|c l IH]; [reflexivity|]. cbn [map flat_map]. rewrite ser_toks_cons, IH. reflexivity. Qed.
Lemma ser_item it : ser_toks (item_toks it) = ser_bgs (it_bg it) ++ utf8_encode (it_ch it) ++ flat_map utf8_encode (it_comb it).
Proof. unfold item_toks. rewrite ser_toks_app, ser_toks_cons, ser_toks_map_char. reflexivity. Qed.
Lemma ser_toks_flat_items (A : Type) (f : A -> item) (l : list A) :
  ser_toks (flat_map item_toks (map f l)) = flat_map (fun a => ser_toks (item_toks (f a))) l.
Proof.
  induction l as [|a l IH]; [reflexivity|]. cbn [map flat_map]. rewrite ser_toks_app, IH. reflexivity.
Qed.

Lemma flat_map_dia_first fc r c0 msb : r < 297 -> c0 < 297 -> msb < 297 ->
  (if th_first1 <=? fc then
     if th_first2 <=? fc then
       match diac c0 with
       | Some cd => Some (utf8_encode (dia r) ++ cd ++ (if th_first3 <=? fc then utf8_encode (dia msb) else []))
       | None => None
       end
     else Some (utf8_encode (dia r))
   else Some []) = Some (flat_map utf8_encode (map dia (diacs_first fc r c0 msb))).
Proof.
  intros Hr Hc Hm. unfold th_first1, th_first2, th_first3, diacs_first. rewrite (diac_dia c0 Hc).
  destruct (1 <=? fc); [|reflexivity]. destruct (2 <=? fc).
  - destruct (3 <=? fc); cbn [map flat_map app]; rewrite ?app_nil_r; reflexivity.
  - cbn [map flat_map]. rewrite app_nil_r. reflexivity.
Qed.

Lemma other_cell_toks p m b row col : ph_char m = [placeholder_cp] -> row < 297 -> msb_of p < 297 ->
  other_cell p m (fmt_of b) row (utf8_encode (dia row)) (utf8_encode (dia (msb_of p))) col
  = ser_toks (item_toks (other_item p m b row col)).
Proof.
  intros Hph Hr Hm. unfold other_cell, other_item, ph_item. rewrite ser_item. cbn [it_bg it_ch it_comb].
  rewrite cell_fmt_of. unfold ph_bytes, utf8_encode_str. rewrite Hph. cbn [flat_map]. rewrite app_nil_r.
  f_equal. f_equal. unfold th_other1, th_other2, th_other3, diacs_other. rewrite src_table_len.
  destruct (1 <=? other_count p m); [|reflexivity].
  destruct ((2 <=? other_count p m) && (col <? 297)) eqn:E.
  - rewrite (diac_dia col ltac:(lia)).
    destruct (3 <=? other_count p m); cbn [map flat_map app]; rewrite ?app_nil_r; reflexivity.
  - cbn [map flat_map]. rewrite !app_nil_r. reflexivity.
Qed.

Lemma line_id_colors_toks p m :
  line_id_colors p m false = ser_toks (fg_tok m (image_id p) :: ul_toks m (placement_id p)).
Proof.
  unfold line_id_colors. rewrite src_colors_init, src_id_color_bytes, src_pid_color_bytes. reflexivity.
Qed.

Lemma image_line_toks p m b row : ph_char m = [placeholder_cp] ->
  row < 297 -> start_col p < 297 -> msb_of p < 297 ->
  image_line p m (fmt_of b) false (utf8_encode (dia (msb_of p))) row
  = Some (ser_toks (line_toks (line_pre p m b row) (line_items p m b row))).
Proof.
  intros Hph Hr Hc Hm. unfold image_line. rewrite (diac_dia row Hr).
  rewrite (flat_map_dia_first (first_count p m) row (start_col p) (msb_of p) Hr Hc Hm).
  f_equal. unfold line_toks, line_pre, line_items.
  rewrite src_line_init, src_reset_pre, src_reset_post, row_fmt_of, cell_fmt_of, line_id_colors_toks.
  rewrite !ser_toks_app. cbn [flat_map]. rewrite !ser_toks_app, ser_item. cbn [ph_item it_bg it_ch it_comb].
  unfold ph_bytes, utf8_encode_str. rewrite Hph. cbn [flat_map]. rewrite app_nil_r.
  rewrite ser_toks_flat_items. unfold othercol_off.
  rewrite (flat_map_ext _ _ (fun col => other_cell_toks p m b row col Hph Hr Hm)).
  repeat (rewrite ?ser_toks_cons, ?ser_toks_app). unfold ser_bgs.
  change (ser_toks []) with (@nil N). rewrite ?app_nil_r, <- ?app_assoc. reflexivity.
Qed.

Lemma blank_line_toks p b row : reset_blank = ser reset_tok ->
  blank_line p (fmt_of b) false row = ser_toks (line_toks (blank_pre b row) (blank_items p b row)).
Proof.
  intros src_reset_blank.
  unfold blank_line, line_toks, blank_pre, blank_items.
  rewrite src_line_init, src_reset_pre, src_reset_blank, row_fmt_of.
  assert (E : forall col, cell_fmt (fmt_of b) col row ++ blank_cell_bytes
                          = ser_toks (item_toks (mkitem (cell_bgs b col row) 32 []))).
  { intros col. rewrite ser_item, cell_fmt_of. cbn [it_bg it_ch it_comb flat_map].
    rewrite app_nil_r, src_blank_cell. reflexivity. }
  rewrite (flat_map_ext _ _ E).
  repeat (rewrite ?ser_toks_cons, ?ser_toks_app). rewrite ser_toks_flat_items. unfold ser_bgs.
  change (ser_toks []) with (@nil N). rewrite ?app_nil_r, <- ?app_assoc. reflexivity.
Qed.

Lemma line_of_toks p m b row : ph_char m = [placeholder_cp] -> start_col p < 297 -> msb_of p < 297 ->
  (reset_blank = ser reset_tok \/ row < 297) ->
  line_of p m (fmt_of b) false (utf8_encode (dia (msb_of p))) row = Some (ser_toks (row_toks p m b row)).
Proof.
  intros Hph Hc Hm Hb. unfold line_of, row_toks. rewrite src_table_len.
  destruct (297 <=? row) eqn:E.
  - rewrite blank_line_toks by (destruct Hb; [assumption|lia]). reflexivity.
  - apply image_line_toks; try assumption. lia.
Qed.

Lemma sequence_map_some (A B : Type) (g : A -> B) (f : A -> option B) l :
  (forall a, In a l -> f a = Some (g a)) -> sequence (map f l) = Some (map g l).
Proof.
  intros H. induction l as [|a l IH]; [reflexivity|]. cbn [map sequence].
  rewrite H by (left; reflexivity). rewrite IH by (intros a' Ha'; apply H; right; exact Ha'). reflexivity.
Qed.
Lemma in_range row a b : In row (range a b) -> a <= row < b.
Proof. unfold range. intros H. apply in_map_iff in H as (k & <- & Hk). apply in_seq in Hk. lia. Qed.

Definition rows_of (p : placeholder) : list N := range (start_row p) (end_row p).
Definition lines_toks (p : placeholder) (m : mode) (b : bgfmt) : list (list tok) :=
  map (row_toks p m b) (rows_of p).

Theorem to_lines_toks p m b : validate p = true -> ph_char m = [placeholder_cp] -> start_col p < 297 ->
  blank_reset_ok p ->
  to_lines p m (fmt_of b) false = Ok (map ser_toks (lines_toks p m b)).
Proof.
  intros Hv Hph Hc Hb. unfold to_lines. rewrite Hv. cbn [negb].
  assert (Hid : image_id p < 4294967296).
  { unfold validate, v_id_max in Hv. lia. }
  assert (Hm : msb_of p < 297) by (rewrite src_msb_of by exact Hid; lia).
  rewrite (diac_dia _ Hm).
  rewrite (sequence_map_some _ _ (fun row => ser_toks (row_toks p m b row))).
  - unfold lines_toks, rows_of. rewrite map_map. reflexivity.
  - intros row Hrow. apply line_of_toks; try assumption.
    destruct Hb as [Hb|Hb]; [left; exact Hb|right]. apply in_range in Hrow. lia.
Qed.
