(* Proofs/SendTrEq.v — GraphicsCommand.send as TRANSLATED from the source (Gen/SendTr.v, regenerated on every run) does
   exactly what Model/SendModel.send_cmds says, event for event: the initial flush; a ValueError before anything is
   written when the limit is too small; otherwise, for every chunk command in order, write(template % content), flush
   and the progress callback.  The tactics do not mention the shape of the translated term: helpers inlined by the
   translator, merged loops and extra locals go through. *)
From Coq Require Import ZArith NArith List Bool Lia.
From Tup Require Import Lib.ByteStr Lib.CommandTypes Lib.PyFmt Lib.PyFmtFacts Lib.PyEff Gen.CommandGen Gen.SendTr
  Model.GraphicsCommand Model.SendModel Model.SendOps Proofs.SendProofs.
Import ListNotations.
Open Scope Z_scope.

Section WithTemplate.
Variables (t pre post : list N) (cb : bool).
Hypothesis Htm : tmpl_ok t pre post.

Definition evs_of (x : command) : list event :=
  [EvWrite (pre ++ content_bytes x ++ post); EvFlush] ++ if cb then [EvCallback x] else [].

Lemma fmt_ok x : pyfmt t (content_bytes x) = Some (pre ++ content_bytes x ++ post).
Proof. exact (to_bytes_tmpl t pre post x Htm). Qed.

Lemma sent_events_ok x : sent_events t cb x = Some (evs_of x).
Proof. unfold sent_events. rewrite (to_bytes_tmpl t pre post x Htm). reflexivity. Qed.

Lemma sent_all_ok l : sent_all t cb l = Some (flat_map evs_of l).
Proof. induction l as [|x l IH]; [reflexivity|]. cbn [sent_all flat_map]. rewrite sent_events_ok, IH. reflexivity. Qed.

(* a loop whose body does, for every command, exactly the events of one sent command *)
Lemma efor_events (body : command -> Eff unit) :
  (forall x tr, body x tr = EOk tt (tr ++ evs_of x)) ->
  forall l tr, efor l body tr = EOk tt (tr ++ flat_map evs_of l).
Proof.
  intros Hb. induction l as [|x l IH]; intro tr; cbn [efor flat_map].
  - unfold eret. now rewrite app_nil_r.
  - unfold ebind. rewrite Hb, IH. now rewrite <- app_assoc.
Qed.
End WithTemplate.

(* normal form of the effect combinators on a concrete event list *)
Ltac eff_run Hfmt :=
  repeat first
    [ progress cbv beta zeta
    | progress unfold ebind, emit_ev, eret, ethrow, eopt
    | rewrite Hfmt
    | progress cbv beta iota ].

Ltac events_eq := repeat rewrite <- app_assoc; cbn [app]; reflexivity.

Theorem tr_send_eq (pipe : Z) (c : command) (t pre post : list N) (ms : option Z) (cb : bool) :
  tmpl_ok t pre post ->
  tr_GraphicsCommand_send pipe c t ms cb [] =
  send_trace c t (match ms with Some v => v | None => pipe end) cb.
Proof.
  intros Htm. pose proof (fmt_ok t pre post Htm) as Hfmt.
  assert (Hbody : forall (body : command -> Eff unit),
            (forall x tr, body x tr = EOk tt (tr ++ evs_of pre post cb x)) ->
            forall l tr, efor l body tr = EOk tt (tr ++ flat_map (evs_of pre post cb) l))
    by (intros body Hb; exact (efor_events pre post cb body Hb)).
  unfold tr_GraphicsCommand_send, send_trace, send_cmds, max_payload.
  rewrite src_reserve, src_b64q, src_rawq, src_minp.
  set (m := match ms with Some v => v | None => pipe end).
  destruct c as [tc|mc|uc|dc]; cbn [is_transmit negb split_cmd].
  2-4: rewrite (sent_all_ok t pre post cb Htm); cbn [flat_map efor]; eff_run Hfmt;
       destruct cb; cbn [negb evs_of app]; eff_run Hfmt; events_eq.
  (* a transmit command: the budget test, then the loop over the chunk commands *)
  eff_run Hfmt.
  match goal with |- context [(?mp <? 1)] => destruct (mp <? 1) eqn:E end; [reflexivity|].
  rewrite (sent_all_ok t pre post cb Htm).
  erewrite Hbody.
  - cbn [app]. reflexivity.
  - intros x tr. unfold evs_of. destruct cb; cbn [negb]; eff_run Hfmt; events_eq.
Qed.

(* ---- consequences in terms of Model/SendModel.send, about which Props/C05.v is stated *)
Definition writes_of (tr : list event) : list (list N) :=
  flat_map (fun e => match e with EvWrite b => [b] | _ => [] end) tr.

Lemma writes_of_evs pre post cb l :
  writes_of (flat_map (evs_of pre post cb) l) = map (fun x => pre ++ content_bytes x ++ post) l.
Proof.
  induction l as [|x l IH]; [reflexivity|]. cbn [flat_map map]. unfold writes_of in *. rewrite flat_map_app, IH.
  unfold evs_of. destruct cb; reflexivity.
Qed.

(* the translated send() writes exactly the byte strings of the model's send, in order, each followed by a flush; when
   the model rejects the limit, the translated send() raises having written nothing *)
Theorem tr_send_writes (pipe : Z) (c : command) (t pre post : list N) (ms : option Z) (cb : bool) :
  tmpl_ok t pre post ->
  let m := match ms with Some v => v | None => pipe end in
  match send c t m with
  | SendOk ws => exists evs, tr_GraphicsCommand_send pipe c t ms cb [] = EOk tt evs /\ writes_of evs = ws
  | SendError => tr_GraphicsCommand_send pipe c t ms cb [] = EExc [EvFlush]
  end.
Proof.
  intros Htm m. rewrite (tr_send_eq pipe c t pre post ms cb Htm). fold m. unfold send_trace.
  destruct (send_cmds c t m) as [cmds|] eqn:Hc.
  - rewrite (send_ok_writes t pre post c m cmds Htm Hc). rewrite (sent_all_ok t pre post cb Htm).
    eexists. split; [reflexivity|]. unfold writes_of. cbn [flat_map app]. apply writes_of_evs.
  - unfold send. rewrite Hc. reflexivity.
Qed.

(* every write is followed by a flush before anything else is written or reported (what C09's "recorded only after the
   last flush" rests on): in the trace of a completed send, the event after each EvWrite is EvFlush *)
Fixpoint write_then_flush (tr : list event) : bool :=
  match tr with
  | EvWrite _ :: ((EvFlush :: _) as r) => write_then_flush r
  | EvWrite _ :: _ => false
  | _ :: r => write_then_flush r
  | [] => true
  end.

Lemma wtf_evs pre post cb l : write_then_flush (flat_map (evs_of pre post cb) l) = true.
Proof. induction l as [|x l IH]; [reflexivity|]. cbn [flat_map]. unfold evs_of. destruct cb; cbn; exact IH. Qed.

Theorem tr_send_flushes (pipe : Z) (c : command) (t pre post : list N) (ms : option Z) (cb : bool) evs :
  tmpl_ok t pre post ->
  tr_GraphicsCommand_send pipe c t ms cb [] = EOk tt evs -> write_then_flush evs = true.
Proof.
  intros Htm. rewrite (tr_send_eq pipe c t pre post ms cb Htm). unfold send_trace.
  destruct (send_cmds c t _) as [cmds|]; [|discriminate].
  rewrite (sent_all_ok t pre post cb Htm). intro H. inversion H. cbn [write_then_flush]. apply wtf_evs.
Qed.
