(* Spec/PosixShSpec.v — what a POSIX sh prints when it runs a script made of the one command shape
   the shell-script exporter uses.  Written from POSIX.1-2017 (XCU 2.2 Quoting, 2.3 Token
   Recognition, 2.6.3 Command Substitution, 2.9.2 Pipelines, the `printf` utility, XBD 5 File
   Format Notation), RFC 4648 section 4 and the GNU coreutils manual for `base64 -w0`.
   It imports nothing from the development.

   [eval script = Some out] means: the standard guarantees that the script writes exactly [out]
   to standard output.  [None] means "outside the subset described here, or unspecified by the
   standard" (for instance a printf format operand that starts with '-').

   The subset.  A script is a sequence of lines.  A line is empty, a comment, or one simple
   command, optionally followed by a comment.  Words are made of: unquoted characters from a
   harmless set; '...' (every character literal, XCU 2.2.2); and "$(...)" around a pipeline of
   simple commands whose words are made of unquoted harmless characters and '...'.  Commands:
   `printf format [argument...]` and `base64 -w0` (reading a pipe).  Everything else is None. *)
From Coq Require Import NArith List Bool.
Import ListNotations.
Open Scope N_scope.

Fixpoint eqb_bytes (a b : list N) : bool :=
  match a, b with
  | [], [] => true
  | x :: a', y :: b' => (x =? y) && eqb_bytes a' b'
  | _, _ => false
  end.

(* ------------------------------------------------------------------ RFC 4648, section 4 *)
(* "A 65-character subset of US-ASCII is used ... Table 1: The Base 64 Alphabet" *)
Definition rfc_alphabet : list N :=
  [65; 66; 67; 68; 69; 70; 71; 72; 73; 74; 75; 76; 77; 78; 79; 80; 81; 82; 83; 84; 85; 86; 87; 88; 89; 90;            (* A-Z *)
   97; 98; 99; 100; 101; 102; 103; 104; 105; 106; 107; 108; 109; 110; 111; 112; 113; 114; 115; 116; 117; 118; 119; 120; 121; 122; (* a-z *)
   48; 49; 50; 51; 52; 53; 54; 55; 56; 57;                                                                              (* 0-9 *)
   43; 47].                                                                                                             (* + / *)
Definition rfc_pad : N := 61.                                                                                           (* = *)
Definition sym (i : N) : N := nth (N.to_nat i) rfc_alphabet 0.

(* 24-bit groups -> four 6-bit indices; a final 8-bit group is padded with four zero bits to two
   characters and "=="; a final 16-bit group is padded with two zero bits to three characters and "=" *)
Fixpoint rfc_b64 (l : list N) : list N :=
  match l with
  | a :: b :: c :: r =>
      let v := a * 65536 + b * 256 + c in
      sym (v / 262144) :: sym ((v / 4096) mod 64) :: sym ((v / 64) mod 64) :: sym (v mod 64) :: rfc_b64 r
  | [a; b] => let v := (a * 256 + b) * 4 in [sym (v / 4096); sym ((v / 64) mod 64); sym (v mod 64); rfc_pad]
  | [a] => let v := a * 16 in [sym (v / 64); sym (v mod 64); rfc_pad; rfc_pad]
  | [] => []
  end.

(* ------------------------------------------------------------------ the printf utility *)
(* XBD 5: "\\" "\a" "\b" "\f" "\n" "\r" "\t" "\v" *)
Definition simple_escape (e : N) : option N :=
  if e =? 92 then Some 92
  else if e =? 97 then Some 7
  else if e =? 98 then Some 8
  else if e =? 102 then Some 12
  else if e =? 110 then Some 10
  else if e =? 114 then Some 13
  else if e =? 116 then Some 9
  else if e =? 118 then Some 11
  else None.

Definition is_oct (c : N) : bool := (48 <=? c) && (c <=? 55).
Definition ov (c : N) : N := c - 48.

(* result: bytes written, arguments not yet used *)
Definition emit (v : N) (k : option (list N * list (list N))) : option (list N * list (list N)) :=
  if v <? 256 then match k with Some (o, a) => Some (v :: o, a) | None => None end else None.

(* The format operand (printf, EXTENDED DESCRIPTION): "\ddd", where ddd is a one, two, or
   three-digit octal number, is written as the byte with that value; "%%" writes "%"; "%s" writes
   the next argument (the null string if there is none left).  Other conversions, flags, widths,
   an unknown escape or a trailing "\" or "%" are outside this subset. *)
Fixpoint printf_fmt (fmt : list N) (args : list (list N)) : option (list N * list (list N)) :=
  match fmt with
  | [] => Some ([], args)
  | c :: r =>
      if c =? 92 then
        match r with
        | [] => None
        | e :: r1 =>
            if is_oct e then
              match r1 with
              | f :: r2 =>
                  if is_oct f then
                    match r2 with
                    | g :: r3 =>
                        if is_oct g then emit (ov e * 64 + ov f * 8 + ov g) (printf_fmt r3 args)
                        else emit (ov e * 8 + ov f) (printf_fmt r2 args)
                    | [] => emit (ov e * 8 + ov f) (printf_fmt r2 args)
                    end
                  else emit (ov e) (printf_fmt r1 args)
              | [] => emit (ov e) (printf_fmt r1 args)
              end
            else match simple_escape e with
                 | Some v => emit v (printf_fmt r1 args)
                 | None => None
                 end
        end
      else if c =? 37 then
        match r with
        | d :: r1 =>
            if d =? 37 then emit 37 (printf_fmt r1 args)
            else if d =? 115 then
              match args with
              | a :: args' =>
                  match printf_fmt r1 args' with Some (o, u) => Some (a ++ o, u) | None => None end
              | [] => printf_fmt r1 []
              end
            else None
        | [] => None
        end
      else emit c (printf_fmt r args)
  end.

Definition starts_with_dash (w : list N) : bool :=
  match w with c :: _ => c =? 45 | [] => false end.

(* printf format [argument...].  "-" first: XBD 12.2 guideline 10/ printf has no options, but a
   first operand starting with '-' is not required to be taken as the format (dash and bash
   reject it as an unknown option): unspecified.  Arguments left over after one pass over the
   format would make the format be reused; that is outside this subset. *)
Definition printf_utility (operands : list (list N)) : option (list N) :=
  match operands with
  | [] => None
  | fmt :: args =>
      if starts_with_dash fmt then None
      else match printf_fmt fmt args with
           | Some (o, []) => Some o
           | _ => None
           end
  end.

(* ------------------------------------------------------------------ simple commands, pipelines *)
Definition w_printf : list N := [112; 114; 105; 110; 116; 102].
Definition w_base64 : list N := [98; 97; 115; 101; 54; 52].
Definition w_w0 : list N := [45; 119; 48].

(* stdin: Some bytes when the command reads from a pipe.  `base64 -w0` (GNU coreutils): the RFC
   4648 encoding of standard input, no line wrapping, no trailing newline. *)
Definition eval_simple (ws : list (list N)) (stdin : option (list N)) : option (list N) :=
  match ws with
  | [] => None
  | name :: operands =>
      if eqb_bytes name w_printf then printf_utility operands
      else if eqb_bytes name w_base64 then
        match operands, stdin with
        | [o], Some input => if eqb_bytes o w_w0 then Some (rfc_b64 input) else None
        | _, _ => None
        end
      else None
  end.

Inductive itok := IWord (w : list N) | IPipe.

Fixpoint split_pipe (toks : list itok) (cmd : list (list N)) : list (list (list N)) :=
  match toks with
  | [] => [cmd]
  | IWord w :: r => split_pipe r (cmd ++ [w])
  | IPipe :: r => cmd :: split_pipe r []
  end.

(* XCU 2.9.2: the standard output of each command but the last is the standard input of the next *)
Fixpoint run_pipe (cmds : list (list (list N))) (stdin : option (list N)) : option (list N) :=
  match cmds with
  | [] => None
  | [c] => eval_simple c stdin
  | c :: r => match eval_simple c stdin with Some out => run_pipe r (Some out) | None => None end
  end.

(* XCU 2.6.3: "... removing sequences of one or more <newline> characters at the end of the
   substitution"; a NUL byte in the output is unspecified *)
Fixpoint strip_nl (l : list N) : list N :=
  match l with
  | [] => []
  | c :: r => match strip_nl r with
              | [] => if c =? 10 then [] else [c]
              | r' => c :: r'
              end
  end.
Fixpoint has_nul (l : list N) : bool :=
  match l with [] => false | c :: r => (c =? 0) || has_nul r end.

(* ------------------------------------------------------------------ token recognition (XCU 2.3) *)
Definition is_blank (c : N) : bool := (c =? 32) || (c =? 9).
(* unquoted characters this subset accepts as ordinary word characters: letters, digits and
   % + , - . / : = @ _   (no expansions, operators, patterns or backslashes) *)
Definition is_plain (c : N) : bool :=
  ((48 <=? c) && (c <=? 57)) || ((65 <=? c) && (c <=? 90)) || ((97 <=? c) && (c <=? 122)) ||
  (c =? 37) || (c =? 43) || (c =? 44) || (c =? 45) || (c =? 46) || (c =? 47) || (c =? 58) ||
  (c =? 61) || (c =? 64) || (c =? 95).

Inductive mode :=
| MU    (* top level, unquoted *)
| MQ    (* top level, inside '...' *)
| MD1   (* after an opening double quote: only $( may follow *)
| MD2   (* after dquote-dollar *)
| MIU   (* inside dquote-dollar-paren ... : unquoted *)
| MIQ   (* inside dquote-dollar-paren ... : inside '...' *)
| MD3   (* after the closing ) : only the closing double quote may follow *)
| MC.   (* inside a comment *)

Record st := mk_st {
  st_mode : mode;
  st_words : list (list N);        (* completed words of the line *)
  st_cur : option (list N);        (* the word being assembled (Some [] after '' ) *)
  st_itoks : list itok;            (* tokens of the pipeline inside the substitution *)
  st_icur : option (list N) }.

Definition push (ws : list (list N)) (cur : option (list N)) : list (list N) :=
  match cur with Some w => ws ++ [w] | None => ws end.
Definition ipush (ts : list itok) (cur : option (list N)) : list itok :=
  match cur with Some w => ts ++ [IWord w] | None => ts end.
Definition add (cur : option (list N)) (c : N) : option (list N) :=
  match cur with Some w => Some (w ++ [c]) | None => Some [c] end.
Definition addl (cur : option (list N)) (l : list N) : option (list N) :=
  match cur with Some w => Some (w ++ l) | None => Some l end.
Definition opened (cur : option (list N)) : option (list N) :=
  match cur with Some w => Some w | None => Some [] end.

Definition init : st := mk_st MU [] None [] None.

Definition step (s : st) (c : N) : option st :=
  let '(mk_st m ws cur its icur) := s in
  if c =? 0 then None else
  match m with
  | MU =>
      if is_blank c then Some (mk_st MU (push ws cur) None its icur)
      else if c =? 35 then                       (* '#': a comment only where a new token would start *)
        match cur with None => Some (mk_st MC ws None its icur) | Some _ => Some (mk_st MU ws (add cur c) its icur) end
      else if c =? 39 then Some (mk_st MQ ws (opened cur) its icur)
      else if c =? 34 then Some (mk_st MD1 ws (opened cur) its icur)
      else if is_plain c then Some (mk_st MU ws (add cur c) its icur)
      else None
  | MQ => if c =? 39 then Some (mk_st MU ws cur its icur) else Some (mk_st MQ ws (add cur c) its icur)
  | MD1 => if c =? 36 then Some (mk_st MD2 ws cur its icur) else None
  | MD2 => if c =? 40 then Some (mk_st MIU ws cur [] None) else None
  | MIU =>
      if is_blank c then Some (mk_st MIU ws cur (ipush its icur) None)
      else if c =? 39 then Some (mk_st MIQ ws cur its (opened icur))
      else if c =? 124 then Some (mk_st MIU ws cur (ipush its icur ++ [IPipe]) None)
      else if c =? 41 then
        match run_pipe (split_pipe (ipush its icur) []) None with
        | Some out => if has_nul out then None else Some (mk_st MD3 ws (addl cur (strip_nl out)) [] None)
        | None => None
        end
      else if c =? 35 then
        match icur with None => None | Some _ => Some (mk_st MIU ws cur its (add icur c)) end
      else if is_plain c then Some (mk_st MIU ws cur its (add icur c))
      else None
  | MIQ => if c =? 39 then Some (mk_st MIU ws cur its icur) else Some (mk_st MIQ ws cur its (add icur c))
  | MD3 => if c =? 34 then Some (mk_st MU ws cur its icur) else None
  | MC => Some s
  end.

Fixpoint run_line (s : st) (line : list N) : option st :=
  match line with
  | [] => Some s
  | c :: r => match step s c with Some s' => run_line s' r | None => None end
  end.

(* one line: no words -> nothing is written; otherwise one simple command whose standard input
   is not a pipe.  An unterminated quote or substitution is outside the subset. *)
Definition eval_line (line : list N) : option (list N) :=
  match run_line init line with
  | Some s =>
      match st_mode s with
      | MU | MC => match push (st_words s) (st_cur s) with
                   | [] => Some []
                   | ws => eval_simple ws None
                   end
      | _ => None
      end
  | None => None
  end.

Fixpoint split_lines (cur : list N) (l : list N) : list (list N) :=
  match l with
  | [] => [cur]
  | c :: r => if c =? 10 then cur :: split_lines [] r else split_lines (cur ++ [c]) r
  end.

Fixpoint eval_lines (ls : list (list N)) : option (list N) :=
  match ls with
  | [] => Some []
  | l :: r => match eval_line l, eval_lines r with
              | Some a, Some b => Some (a ++ b)
              | _, _ => None
              end
  end.

(* standard output of `sh script` *)
Definition eval (script : list N) : option (list N) := eval_lines (split_lines [] script).
