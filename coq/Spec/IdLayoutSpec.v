(* Spec/IdLayoutSpec.v — the byte layout of image IDs, read independently of the library.

   An image ID is a non-zero 32-bit number.  With Unicode placeholders its bytes travel in
   different features:  byte 3 (most significant) = the 3rd diacritic,  bytes 2,1,0 = red, green,
   blue of a 24-bit foreground colour, or byte 0 alone = the index of an 8-bit colour.
   The five spaces are named by the features an ID *needs*:

     8bit_diacritic  only the diacritic:      byte 3 <> 0,  bytes 2,1,0 = 0
     16bit           diacritic + 8-bit colour: byte 3 <> 0,  byte 0 <> 0, bytes 2,1 = 0
     32bit           diacritic + 24-bit colour: byte 3 <> 0, byte 2 or byte 1 <> 0
     8bit            8-bit colour only:        byte 3 = 0,   byte 0 <> 0, bytes 2,1 = 0
     24bit           24-bit colour only:       byte 3 = 0,   byte 2 or byte 1 <> 0

   A subspace [b, e) restricts the most significant byte the space can use ("subspace byte").
   Everything here is written with [byte], =, <>, <, <= only: no masks, no shifts.  Nothing in
   this file is shared with Model/ (only the names of the spaces, Lib/IdSpaceTy.v). *)
From Coq Require Import NArith Bool.
From Tup Require Import Lib.IdSpaceTy.
Open Scope N_scope.

Definition byte (k : N) (id : N) : N := (id / 256 ^ k) mod 256.

Definition is_id (id : N) : Prop := 0 < id < 2 ^ 32.

Definition in_space (sp : space) (id : N) : Prop :=
  is_id id /\
  match sp with
  | Sp8d => byte 3 id <> 0 /\ byte 2 id = 0 /\ byte 1 id = 0 /\ byte 0 id = 0
  | Sp16 => byte 3 id <> 0 /\ byte 2 id = 0 /\ byte 1 id = 0 /\ byte 0 id <> 0
  | Sp32 => byte 3 id <> 0 /\ (byte 2 id <> 0 \/ byte 1 id <> 0)
  | Sp8  => byte 3 id = 0  /\ byte 2 id = 0 /\ byte 1 id = 0 /\ byte 0 id <> 0
  | Sp24 => byte 3 id = 0  /\ (byte 2 id <> 0 \/ byte 1 id <> 0)
  end.

(* the byte a subspace restricts *)
Definition sub_byte (sp : space) (id : N) : N :=
  match sp with
  | Sp8d | Sp16 | Sp32 => byte 3 id
  | Sp24 => byte 2 id
  | Sp8 => byte 0 id
  end.

(* a subspace is a byte range [b, e) with at least one non-zero value *)
Definition valid_sub (s : N * N) : Prop := fst s < snd s /\ snd s <= 256 /\ snd s <> 1.

Definition in_sub (sp : space) (s : N * N) (id : N) : Prop :=
  in_space sp id /\ fst s <= sub_byte sp id < snd s.

(* number of non-zero byte values of a subspace: what "has at least one usable ID" counts *)
Definition nonzero_values (s : N * N) : N := if fst s =? 0 then snd s - 1 else snd s - fst s.

(* ---- executable versions (the oracle the harness runs on the implementation's outputs);
        Proofs/IdLayoutFacts.v proves them equivalent to the propositions above ---- *)
Definition is_id_b (id : N) : bool := (0 <? id) && (id <? 2 ^ 32).
Definition nz (x : N) : bool := negb (x =? 0).
Definition in_space_b (sp : space) (id : N) : bool :=
  is_id_b id &&
  match sp with
  | Sp8d => nz (byte 3 id) && (byte 2 id =? 0) && (byte 1 id =? 0) && (byte 0 id =? 0)
  | Sp16 => nz (byte 3 id) && (byte 2 id =? 0) && (byte 1 id =? 0) && nz (byte 0 id)
  | Sp32 => nz (byte 3 id) && (nz (byte 2 id) || nz (byte 1 id))
  | Sp8  => (byte 3 id =? 0) && (byte 2 id =? 0) && (byte 1 id =? 0) && nz (byte 0 id)
  | Sp24 => (byte 3 id =? 0) && (nz (byte 2 id) || nz (byte 1 id))
  end.
Definition valid_sub_b (s : N * N) : bool := (fst s <? snd s) && (snd s <=? 256) && negb (snd s =? 1).
Definition in_sub_b (sp : space) (s : N * N) (id : N) : bool :=
  in_space_b sp id && (fst s <=? sub_byte sp id) && (sub_byte sp id <? snd s).
