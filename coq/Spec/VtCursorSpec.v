(* Spec/VtCursorSpec.v — the CURSOR of a VT/xterm-style terminal of W x H cells, and nothing else
   (no screen contents, no SGR state).  Independent reading of ECMA-48 (CUU/CUD/CUF/CUB/CHA/VPA/CUP/
   CNL/CPL/SU/SD/DSR), the DEC VT510 programmer's manual (DECSTBM, IND, NEL, RI, RIS, DECSC/DECRC,
   deferred wrap = "last column flag") and xterm's ctlseqs / cursor.c (SCOSC/SCORC = CSI s / CSI u,
   CUU/CUD stopping at the margins only when started inside them, CPR in the pending-wrap state).
   Shares nothing with Model/.  Used by C16 only (C07 has its own full-screen terminal).

   Conventions fixed here and named as assumptions in the manifest:
   * The byte stream is UTF-8.  Width of a scalar value: 0 if it is in [vt_zero_width] (general
     categories Mn, Me, Cf except U+00AD, plus U+1160..U+11FF and U+200B — Markus Kuhn's wcwidth rule,
     ranges computed from Unicode 15.0), otherwise 1.  East-Asian wide characters are not modelled.
     U+10EEEE (the kitty placeholder, category Co) therefore has width 1.
   * No terminal modes: no origin mode (DECOM), autowrap always on (DECAWM), no LNM, no left/right
     margins; private-mode sequences (CSI ? ...) and sequences with intermediates are ignored.
   * LF keeps the column (the harness writes to a pty slave in raw mode / straight to this Spec:
     no ONLCR translation).
   * Numeric parameters are unbounded; 0 or missing means the default. *)
From Coq Require Import ZArith NArith List Bool.
From Tup Require Import Lib.Dec.
Import ListNotations.
Open Scope Z_scope.

(* ------------------------------------------------------------------ state *)
Record vt := Vt {
  vW : Z; vH : Z;               (* size in cells *)
  vx : Z; vy : Z;               (* cursor, 0-based *)
  vpend : bool;                 (* deferred wrap pending: a character was written in the last column *)
  vsx : Z; vsy : Z; vspend : bool;   (* saved cursor (DECSC / SCOSC) *)
  vtop : Z; vbot : Z            (* scroll region, 0-based, inclusive *)
}.

Definition vt_blank (W H : Z) : vt := Vt W H 0 0 false 0 0 false 0 (H - 1).
Definition vt_cursor (t : vt) : Z * Z := (vx t, vy t).

(* every explicit cursor placement clamps to the screen and clears the pending wrap
   (xterm CursorSet/CursorUp/...: ResetWrap; VT510: "last column flag" reset by cursor movement) *)
Definition vt_goto (t : vt) (x y : Z) : vt :=
  Vt (vW t) (vH t) (Z.max 0 (Z.min x (vW t - 1))) (Z.max 0 (Z.min y (vH t - 1))) false
     (vsx t) (vsy t) (vspend t) (vtop t) (vbot t).
Definition vt_set_pend (t : vt) : vt :=
  Vt (vW t) (vH t) (vx t) (vy t) true (vsx t) (vsy t) (vspend t) (vtop t) (vbot t).

(* IND (ESC D), also LF/VT/FF: at the bottom margin the region scrolls and the cursor stays; elsewhere
   the cursor goes down one line, but not past the last line (VT510 IND; xterm xtermIndex) *)
Definition vt_index (t : vt) : vt :=
  if vy t =? vbot t then vt_goto t (vx t) (vy t) else vt_goto t (vx t) (vy t + 1).
(* RI (ESC M) *)
Definition vt_rindex (t : vt) : vt :=
  if vy t =? vtop t then vt_goto t (vx t) (vy t) else vt_goto t (vx t) (vy t - 1).
(* CUU / CUD: stop at the margin if started inside the region, else at the screen edge
   (VT510 CUU: "The cursor stops at the top margin. If the cursor is already above the top margin, then
   the cursor stops at the top line."; xterm CursorUp/CursorDown) *)
Definition vt_up (t : vt) (n : Z) : vt :=
  let lim := if vtop t <=? vy t then vtop t else 0 in vt_goto t (vx t) (Z.max lim (vy t - n)).
Definition vt_down (t : vt) (n : Z) : vt :=
  let lim := if vy t <=? vbot t then vbot t else vH t - 1 in vt_goto t (vx t) (Z.min lim (vy t + n)).
(* CUF / CUB (ECMA-48 8.3.20 / 8.3.18; no left/right margins) *)
Definition vt_right (t : vt) (n : Z) : vt := vt_goto t (vx t + n) (vy t).
Definition vt_left (t : vt) (n : Z) : vt := vt_goto t (vx t - n) (vy t).
Definition vt_cr (t : vt) : vt := vt_goto t 0 (vy t).

(* a width-1 character: a pending wrap is executed first (CR + IND), then the cursor advances; in the
   last column it stays and the wrap becomes pending (VT100/xterm deferred wrap) *)
Definition vt_wrap (t : vt) : vt := if vpend t then vt_cr (vt_index t) else t.
Definition vt_print1 (t : vt) : vt :=
  let t := vt_wrap t in
  if vx t =? vW t - 1 then vt_set_pend t else vt_goto t (vx t + 1) (vy t).

(* DECSC / SCOSC save position and the pending-wrap flag; DECRC / SCORC restore them (xterm CursorSave /
   CursorRestore); nothing saved yet = home (RIS state) *)
Definition vt_save (t : vt) : vt :=
  Vt (vW t) (vH t) (vx t) (vy t) (vpend t) (vx t) (vy t) (vpend t) (vtop t) (vbot t).
Definition vt_restore (t : vt) : vt :=
  Vt (vW t) (vH t) (vsx t) (vsy t) (vspend t) (vsx t) (vsy t) (vspend t) (vtop t) (vbot t).

(* DECSTBM  CSI t ; b r : defaults 1 and H; accepted only if t < b (b > H is clamped to H, xterm); when
   accepted the margins are set and the cursor goes home (no origin mode).  CSI r = reset to full screen. *)
Definition vt_decstbm (t : vt) (p1 p2 : Z) : vt :=
  let top := if p1 =? 0 then 1 else p1 in
  let bot := if (p2 =? 0) || (vH t <? p2) then vH t else p2 in
  if top <? bot then
    Vt (vW t) (vH t) 0 0 false (vsx t) (vsy t) (vspend t) (top - 1) (bot - 1)
  else t.

(* horizontal tab: next multiple of 8, at most the last column *)
Definition vt_tab (t : vt) : vt :=
  if vpend t then t else vt_goto t ((vx t / 8 + 1) * 8) (vy t).

(* ------------------------------------------------------------------ character widths *)
Definition vt_zero_width : list (N * N) :=
  [(768, 879); (1155, 1161); (1425, 1469); (1471, 1471); (1473, 1474); (1476, 1477); (1479, 1479); 
   (1536, 1541); (1552, 1562); (1564, 1564); (1611, 1631); (1648, 1648); (1750, 1757); (1759, 1764); 
   (1767, 1768); (1770, 1773); (1807, 1807); (1809, 1809); (1840, 1866); (1958, 1968); (2027, 2035); 
   (2045, 2045); (2070, 2073); (2075, 2083); (2085, 2087); (2089, 2093); (2137, 2139); (2192, 2193); 
   (2200, 2207); (2250, 2306); (2362, 2362); (2364, 2364); (2369, 2376); (2381, 2381); (2385, 2391); 
   (2402, 2403); (2433, 2433); (2492, 2492); (2497, 2500); (2509, 2509); (2530, 2531); (2558, 2558); 
   (2561, 2562); (2620, 2620); (2625, 2626); (2631, 2632); (2635, 2637); (2641, 2641); (2672, 2673); 
   (2677, 2677); (2689, 2690); (2748, 2748); (2753, 2757); (2759, 2760); (2765, 2765); (2786, 2787); 
   (2810, 2815); (2817, 2817); (2876, 2876); (2879, 2879); (2881, 2884); (2893, 2893); (2901, 2902); 
   (2914, 2915); (2946, 2946); (3008, 3008); (3021, 3021); (3072, 3072); (3076, 3076); (3132, 3132); 
   (3134, 3136); (3142, 3144); (3146, 3149); (3157, 3158); (3170, 3171); (3201, 3201); (3260, 3260); 
   (3263, 3263); (3270, 3270); (3276, 3277); (3298, 3299); (3328, 3329); (3387, 3388); (3393, 3396); 
   (3405, 3405); (3426, 3427); (3457, 3457); (3530, 3530); (3538, 3540); (3542, 3542); (3633, 3633); 
   (3636, 3642); (3655, 3662); (3761, 3761); (3764, 3772); (3784, 3790); (3864, 3865); (3893, 3893); 
   (3895, 3895); (3897, 3897); (3953, 3966); (3968, 3972); (3974, 3975); (3981, 3991); (3993, 4028); 
   (4038, 4038); (4141, 4144); (4146, 4151); (4153, 4154); (4157, 4158); (4184, 4185); (4190, 4192); 
   (4209, 4212); (4226, 4226); (4229, 4230); (4237, 4237); (4253, 4253); (4448, 4607); (4957, 4959); 
   (5906, 5908); (5938, 5939); (5970, 5971); (6002, 6003); (6068, 6069); (6071, 6077); (6086, 6086); 
   (6089, 6099); (6109, 6109); (6155, 6159); (6277, 6278); (6313, 6313); (6432, 6434); (6439, 6440); 
   (6450, 6450); (6457, 6459); (6679, 6680); (6683, 6683); (6742, 6742); (6744, 6750); (6752, 6752); 
   (6754, 6754); (6757, 6764); (6771, 6780); (6783, 6783); (6832, 6862); (6912, 6915); (6964, 6964); 
   (6966, 6970); (6972, 6972); (6978, 6978); (7019, 7027); (7040, 7041); (7074, 7077); (7080, 7081); 
   (7083, 7085); (7142, 7142); (7144, 7145); (7149, 7149); (7151, 7153); (7212, 7219); (7222, 7223); 
   (7376, 7378); (7380, 7392); (7394, 7400); (7405, 7405); (7412, 7412); (7416, 7417); (7616, 7679); 
   (8203, 8207); (8234, 8238); (8288, 8292); (8294, 8303); (8400, 8432); (11503, 11505); (11647, 11647); 
   (11744, 11775); (12330, 12333); (12441, 12442); (42607, 42610); (42612, 42621); (42654, 42655); 
   (42736, 42737); (43010, 43010); (43014, 43014); (43019, 43019); (43045, 43046); (43052, 43052); 
   (43204, 43205); (43232, 43249); (43263, 43263); (43302, 43309); (43335, 43345); (43392, 43394); 
   (43443, 43443); (43446, 43449); (43452, 43453); (43493, 43493); (43561, 43566); (43569, 43570); 
   (43573, 43574); (43587, 43587); (43596, 43596); (43644, 43644); (43696, 43696); (43698, 43700); 
   (43703, 43704); (43710, 43711); (43713, 43713); (43756, 43757); (43766, 43766); (44005, 44005); 
   (44008, 44008); (44013, 44013); (64286, 64286); (65024, 65039); (65056, 65071); (65279, 65279); 
   (65529, 65531); (66045, 66045); (66272, 66272); (66422, 66426); (68097, 68099); (68101, 68102); 
   (68108, 68111); (68152, 68154); (68159, 68159); (68325, 68326); (68900, 68903); (69291, 69292); 
   (69373, 69375); (69446, 69456); (69506, 69509); (69633, 69633); (69688, 69702); (69744, 69744); 
   (69747, 69748); (69759, 69761); (69811, 69814); (69817, 69818); (69821, 69821); (69826, 69826); 
   (69837, 69837); (69888, 69890); (69927, 69931); (69933, 69940); (70003, 70003); (70016, 70017); 
   (70070, 70078); (70089, 70092); (70095, 70095); (70191, 70193); (70196, 70196); (70198, 70199); 
   (70206, 70206); (70209, 70209); (70367, 70367); (70371, 70378); (70400, 70401); (70459, 70460); 
   (70464, 70464); (70502, 70508); (70512, 70516); (70712, 70719); (70722, 70724); (70726, 70726); 
   (70750, 70750); (70835, 70840); (70842, 70842); (70847, 70848); (70850, 70851); (71090, 71093); 
   (71100, 71101); (71103, 71104); (71132, 71133); (71219, 71226); (71229, 71229); (71231, 71232); 
   (71339, 71339); (71341, 71341); (71344, 71349); (71351, 71351); (71453, 71455); (71458, 71461); 
   (71463, 71467); (71727, 71735); (71737, 71738); (71995, 71996); (71998, 71998); (72003, 72003); 
   (72148, 72151); (72154, 72155); (72160, 72160); (72193, 72202); (72243, 72248); (72251, 72254); 
   (72263, 72263); (72273, 72278); (72281, 72283); (72330, 72342); (72344, 72345); (72752, 72758); 
   (72760, 72765); (72767, 72767); (72850, 72871); (72874, 72880); (72882, 72883); (72885, 72886); 
   (73009, 73014); (73018, 73018); (73020, 73021); (73023, 73029); (73031, 73031); (73104, 73105); 
   (73109, 73109); (73111, 73111); (73459, 73460); (73472, 73473); (73526, 73530); (73536, 73536); 
   (73538, 73538); (78896, 78912); (78919, 78933); (92912, 92916); (92976, 92982); (94031, 94031); 
   (94095, 94098); (94180, 94180); (113821, 113822); (113824, 113827); (118528, 118573); 
   (118576, 118598); (119143, 119145); (119155, 119170); (119173, 119179); (119210, 119213); 
   (119362, 119364); (121344, 121398); (121403, 121452); (121461, 121461); (121476, 121476); 
   (121499, 121503); (121505, 121519); (122880, 122886); (122888, 122904); (122907, 122913); 
   (122915, 122916); (122918, 122922); (123023, 123023); (123184, 123190); (123566, 123566); 
   (123628, 123631); (124140, 124143); (125136, 125142); (125252, 125258); (917505, 917505); 
   (917536, 917631); (917760, 917999)]%N.
Fixpoint in_ranges (cp : N) (l : list (N * N)) : bool :=
  match l with
  | [] => false
  | (a, b) :: r => ((a <=? cp) && (cp <=? b))%N || in_ranges cp r
  end.
Definition vt_width (cp : N) : Z := if in_ranges cp vt_zero_width then 0 else 1.

(* ------------------------------------------------------------------ events and their meaning *)
Inductive vev :=
| EvPrint (cp : N)                        (* a decoded scalar value (U+FFFD for malformed input) *)
| EvC0 (b : N)                            (* a C0 control *)
| EvEsc (b : N)                           (* ESC <final> *)
| EvCsi (params : list N) (final : N).    (* CSI p1 ; p2 ; ... <final>, no private marker/intermediates *)

Definition par (ps : list N) (i : nat) : Z := Z.of_N (nth i ps 0%N).          (* raw, 0 = default *)
Definition par1 (ps : list N) (i : nat) : Z := let v := par ps i in if v =? 0 then 1 else v.

(* decimal digits of a non-negative number, for the cursor position report *)
Definition vt_dec (z : Z) : list N := dec (Z.to_N z).

Definition feq (a b : N) : bool := N.eqb a b.

Definition vt_csi (t : vt) (ps : list N) (f : N) : vt * list N :=
  if (feq f 65) then (vt_up t (par1 ps 0), [])                                   (* A  CUU *)
   else if (feq f 66) then (vt_down t (par1 ps 0), [])                            (* B  CUD *)
   else if (feq f 67) then (vt_right t (par1 ps 0), [])                           (* C  CUF *)
   else if (feq f 68) then (vt_left t (par1 ps 0), [])                            (* D  CUB *)
   else if (feq f 69) then (vt_cr (vt_down t (par1 ps 0)), [])                    (* E  CNL *)
   else if (feq f 70) then (vt_cr (vt_up t (par1 ps 0)), [])                      (* F  CPL *)
   else if (feq f 71) || (feq f 96) then (vt_goto t (par1 ps 0 - 1) (vy t), [])  (* G  CHA, `  HPA *)
   else if (feq f 100) then (vt_goto t (vx t) (par1 ps 0 - 1), [])                (* d  VPA *)
   else if (feq f 72) || (feq f 102) then (vt_goto t (par1 ps 1 - 1) (par1 ps 0 - 1), [])   (* H CUP, f HVP: row ; col *)
   else if (feq f 115) then (vt_save t, [])                                       (* s  SCOSC *)
   else if (feq f 117) then (vt_restore t, [])                                    (* u  SCORC *)
   else if (feq f 114) then (vt_decstbm t (par ps 0) (par ps 1), [])              (* r  DECSTBM *)
   else if (feq f 110) then                                                       (* n  DSR; 6 = CPR: ESC [ row ; col R, 1-based;
                                                                                  with a wrap pending the last column is reported *)
     (t, if par ps 0 =? 6 then [27; 91]%N ++ vt_dec (vy t + 1) ++ [59]%N ++ vt_dec (vx t + 1) ++ [82]%N else [])
   else (t, [])            (* S SU, T SD: scroll, the cursor does not move; m SGR; K EL; J ED; anything else *)
  .

Definition vt_esc (t : vt) (b : N) : vt :=
  if (feq b 68) then vt_index t                      (* ESC D  IND *)
   else if (feq b 69) then vt_cr (vt_index t)         (* ESC E  NEL *)
   else if (feq b 77) then vt_rindex t                (* ESC M  RI *)
   else if (feq b 99) then vt_blank (vW t) (vH t)     (* ESC c  RIS: home, margins reset, nothing saved *)
   else if (feq b 55) then vt_save t                  (* ESC 7  DECSC *)
   else if (feq b 56) then vt_restore t               (* ESC 8  DECRC *)
   else t.                                      (* ESC \ (ST) and everything else: no cursor effect *)

Definition vt_c0 (t : vt) (b : N) : vt :=
  if (feq b 8) then vt_left t 1                       (* BS *)
   else if (feq b 9) then vt_tab t                     (* HT *)
   else if (feq b 10) || (feq b 11) || (feq b 12) then vt_index t     (* LF VT FF: no ONLCR/LNM: column kept *)
   else if (feq b 13) then vt_cr t                     (* CR *)
   else t.

Definition vt_apply (t : vt) (e : vev) : vt * list N :=
  match e with
  | EvPrint cp => (if vt_width cp =? 0 then t else vt_print1 t, [])
  | EvC0 b => (vt_c0 t b, [])
  | EvEsc b => (vt_esc t b, [])
  | EvCsi ps f => vt_csi t ps f
  end.

Fixpoint vt_run (t : vt) (evs : list vev) : vt * list N :=
  match evs with
  | [] => (t, [])
  | e :: r => let '(t1, r1) := vt_apply t e in let '(t2, r2) := vt_run t1 r in (t2, r1 ++ r2)
  end.

(* ------------------------------------------------------------------ byte-level parser
   (after Paul Williams' VT500 state machine: C0 controls are executed inside sequences, ESC restarts,
   CAN/SUB abort; strings APC/DCS/PM/SOS/OSC are swallowed up to ST (or BEL for OSC)) *)
Inductive pst :=
| PGround
| PEsc
| PEscI                                              (* ESC followed by intermediates, e.g. ESC ( B *)
| PCsi (ok : bool) (done : list N) (cur : option N)  (* ok = false: private marker, intermediate or ':' seen *)
| PUtf (need : nat) (acc : N)                        (* inside a UTF-8 sequence, need+1 continuation bytes missing *)
| PStr (osc : bool).

Open Scope N_scope.
Definition step_ground (b : N) : pst * list vev :=
  if b =? 27 then (PEsc, [])
  else if b <? 32 then (PGround, [EvC0 b])
  else if b <? 127 then (PGround, [EvPrint b])
  else if b =? 127 then (PGround, [])
  else if b <? 194 then (PGround, [EvPrint 65533])       (* stray continuation byte, overlong lead *)
  else if b <? 224 then (PUtf 0 (b - 192), [])
  else if b <? 240 then (PUtf 1 (b - 224), [])
  else if b <? 245 then (PUtf 2 (b - 240), [])
  else (PGround, [EvPrint 65533]).

Definition is_c0_exec (b : N) : bool := (b <? 32) && negb (b =? 27) && negb (b =? 24) && negb (b =? 26).

Definition vt_step (s : pst) (b : N) : pst * list vev :=
  match s with
  | PGround => step_ground b
  | PUtf need acc =>
      if (128 <=? b) && (b <? 192) then
        let acc' := acc * 64 + (b - 128) in
        match need with O => (PGround, [EvPrint acc']) | S k => (PUtf k acc', []) end
      else let '(s', evs) := step_ground b in (s', EvPrint 65533 :: evs)
  | PEsc =>
      if b =? 27 then (PEsc, [])
      else if (b =? 24) || (b =? 26) then (PGround, [])
      else if b <? 32 then (PEsc, [EvC0 b])
      else if b =? 91 then (PCsi true [] None, [])                               (* [ *)
      else if (b =? 95) || (b =? 80) || (b =? 94) || (b =? 88) then (PStr false, [])   (* _ APC, P DCS, ^ PM, X SOS *)
      else if b =? 93 then (PStr true, [])                                       (* ] OSC *)
      else if b <? 48 then (PEscI, [])
      else if b <? 127 then (PGround, [EvEsc b])
      else (PGround, [])
  | PEscI =>
      if b =? 27 then (PEsc, [])
      else if (b =? 24) || (b =? 26) then (PGround, [])
      else if b <? 32 then (PEscI, [EvC0 b])
      else if b <? 48 then (PEscI, [])
      else (PGround, [])
  | PCsi ok done cur =>
      if (48 <=? b) && (b <=? 57) then
        (PCsi ok done (Some (match cur with Some c => c * 10 + (b - 48) | None => b - 48 end)), [])
      else if b =? 59 then (PCsi ok (done ++ [match cur with Some c => c | None => 0 end]) None, [])
      else if b =? 27 then (PEsc, [])
      else if (b =? 24) || (b =? 26) then (PGround, [])
      else if b <? 32 then (PCsi ok done cur, [EvC0 b])
      else if b <? 64 then (PCsi false done cur, [])      (* intermediates, ':', private markers < = > ? *)
      else if b <? 127 then
        (PGround, if ok then [EvCsi (done ++ [match cur with Some c => c | None => 0 end]) b] else [])
      else if b =? 127 then (PCsi ok done cur, [])
      else (PGround, [])
  | PStr osc =>
      if b =? 27 then (PEsc, [])
      else if (b =? 24) || (b =? 26) then (PGround, [])
      else if osc && (b =? 7) then (PGround, [])
      else (PStr osc, [])
  end.

Fixpoint vt_parse (s : pst) (bs : list N) : pst * list vev :=
  match bs with
  | [] => (s, [])
  | b :: r => let '(s1, e1) := vt_step s b in let '(s2, e2) := vt_parse s1 r in (s2, e1 ++ e2)
  end.

(* the terminal as a byte consumer: new parser state, new cursor state, bytes answered *)
Definition vt_feed (st : pst * vt) (bs : list N) : (pst * vt) * list N :=
  let '(s', evs) := vt_parse (fst st) bs in
  let '(t', rep) := vt_run (snd st) evs in
  ((s', t'), rep).

Definition vt_start (W H : Z) : pst * vt := (PGround, vt_blank W H).

(* "harmless" byte strings, used as hypotheses on what callers write themselves:
   complete sequences, no DECSTBM, nothing that makes the terminal answer *)
Definition ev_plain (e : vev) : bool :=
  match e with EvCsi _ f => negb (f =? 114) && negb (f =? 110) | _ => true end.
Definition vt_plain (bs : list N) : bool :=
  match vt_parse PGround bs with (PGround, evs) => forallb ev_plain evs | _ => false end.
(* byte strings with no cursor effect at all: SGR, zero-width characters, string terminators (i.e. APC/DCS
   strings such as graphics commands, with or without tmux wrapping) *)
Definition ev_null (e : vev) : bool :=
  match e with
  | EvCsi _ f => f =? 109
  | EvPrint cp => (vt_width cp =? 0)%Z
  | EvEsc b => b =? 92
  | EvC0 _ => false
  end.
Definition vt_null (bs : list N) : bool :=
  match vt_parse PGround bs with (PGround, evs) => forallb ev_null evs | _ => false end.
