(* Spec/RetentionSpec.v — what "a terminal that retains at least that many recent uploads" means, and the
   world in which the library's bookkeeping is judged.

   Each terminal has its own image store keyed by image id.  A transmission of id to terminal t replaces what t
   holds under id.  A terminal may *evict* an image only when, counting what it itself still holds, at least
   Nmax other images have arrived after it, or its bytes plus the bytes of those later images exceed Bmax, or
   it is older than Tmax — i.e. it retains at least Nmax recent uploads / Bmax bytes / Tmax time.  Everything
   else (which image it evicts, when) is up to the terminal.

   Events: binding of ids to descriptions changes arbitrarily (assign, recycle, force-set, delete, re-issue);
   Transmit = the image currently bound to id is sent to t and recorded (upload + mark_uploaded), at a strictly
   later time than anything before; Evict = terminal t drops id; Forget = upload-table clean-up keeping n rows.

   The terminal's actual store is represented as the database table filtered by [held]; this is a Spec-level
   ghost: the terminal knows nothing of the table, it just holds, per id, the image of the last transmission. *)
From Coq Require Import ZArith NArith List Bool.
From Tup Require Import Model.UploadModel.
Import ListNotations.
Open Scope Z_scope.

Inductive event :=
| Bind (id d : N) | Unbind (id : N)
| Transmit (id t : N) (size time : Z)
| Evict (t id : N) (now : Z)
| Forget (n : Z).

Record world := {
  cur : N -> option N;            (* id -> description currently bound *)
  up : utable;                    (* the library's upload table *)
  held : N -> N -> bool;          (* held t id: terminal t still holds what was last transmitted under id *)
  image : N -> N -> option N;     (* image t id: description of the image last transmitted to t under id *)
  clock : Z }.

(* what terminal t holds, as rows (id, description, size, arrival time) — its own view *)
Definition tstore (w : world) (t : N) : utable :=
  filter (fun x => (rterm x =? t)%N && held w t (rid x)) (up w).

Definition upd2 {A} (f : N -> N -> A) (t id : N) (v : A) : N -> N -> A :=
  fun t' i => if ((t' =? t) && (i =? id))%N then v else f t' i.

Definition step (Nmax Bmax Tmax : Z) (w : world) (e : event) : option world :=
  match e with
  | Bind id d => Some {| cur := fun i => if (i =? id)%N then Some d else cur w i; up := up w; held := held w; image := image w; clock := clock w |}
  | Unbind id => Some {| cur := fun i => if (i =? id)%N then None else cur w i; up := up w; held := held w; image := image w; clock := clock w |}
  | Transmit id t size time =>
      match cur w id with
      | Some d =>
          if (clock w <? time) && (0 <=? size)
          then Some {| cur := cur w; up := mark_uploaded (cur w) (up w) id t size time;
                       held := upd2 (held w) t id true; image := upd2 (image w) t id (Some d); clock := time |}
          else None
      | None => None      (* the library never transmits an unassigned id *)
      end
  | Evict t id now =>
      match find_row (tstore w t) id t with
      | Some r => if (clock w <=? now) && expired (tstore w t) r now Nmax Bmax Tmax
                  then Some {| cur := cur w; up := up w; held := upd2 (held w) t id false; image := image w; clock := now |}
                  else None
      | None => None
      end
  | Forget n => if 0 <=? n then Some {| cur := cur w; up := cleanup_uploads (up w) n; held := held w; image := image w; clock := clock w |} else None
  end.

Fixpoint run (Nmax Bmax Tmax : Z) (w : world) (h : list event) : option world :=
  match h with
  | [] => Some w
  | e :: r => match step Nmax Bmax Tmax w e with Some w' => run Nmax Bmax Tmax w' r | None => None end
  end.

Definition init (t0 : Z) : world :=
  {| cur := fun _ => None; up := []; held := fun _ _ => false; image := fun _ _ => None; clock := t0 |}.

(* "terminal t shows the right image for id": it still holds a transmission under id and that transmission
   carried the image currently bound to id *)
Definition shows_current (w : world) (t id : N) : Prop :=
  exists d, cur w id = Some d /\ held w t id = true /\ image w t id = Some d.

(* histories in which no id is re-sent to a terminal with a smaller size than its previous transmission *)
Fixpoint no_shrink (w : world) (h : list event) (Nmax Bmax Tmax : Z) : bool :=
  match h with
  | [] => true
  | e :: r =>
      (match e with
       | Transmit id t size _ => forallb (fun x => rsize x <=? size) (filter (same_key id t) (up w))
       | _ => true
       end) &&
      match step Nmax Bmax Tmax w e with Some w' => no_shrink w' r Nmax Bmax Tmax | None => true end
  end.
