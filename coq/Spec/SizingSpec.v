(* Spec/SizingSpec.v — exact-rational box fitting (independent of Model/: shares no definition).

   An image of (scaled) size W x H pixels, W and H positive rationals, is shown in a box of
   C columns and R rows of character cells, each cell cw x ch pixels.  The terminal fits the
   image into the box preserving its aspect ratio: it is scaled by the largest factor f for which
   it still fits, i.e.  f*W <= C*cw,  f*H <= R*ch  and one of the two is an equality. *)
From Coq Require Import ZArith QArith.
Open Scope Q_scope.

Definition box_w (cw C : Z) : Q := inject_Z (C * cw).
Definition box_h (ch R : Z) : Q := inject_Z (R * ch).

(* f is the factor by which W x H is scaled when fitted into a BW x BH box keeping the aspect ratio *)
Definition is_fit (W H BW BH f : Q) : Prop :=
  f * W <= BW /\ f * H <= BH /\ (f * W == BW \/ f * H == BH).

(* "no entirely unused row or column": the fitted image reaches into the last column and the last row *)
Definition no_unused_row_or_col (W H : Q) (cw ch C R : Z) : Prop :=
  forall f, is_fit W H (box_w cw C) (box_h ch R) f ->
            box_w cw (C - 1) < f * W /\ box_h ch (R - 1) < f * H.

(* the C x R cell box contains the (unfitted) image *)
Definition contains (W H : Q) (cw ch C R : Z) : Prop := W <= box_w cw C /\ H <= box_h ch R.

(* ... and is the smallest such box: every cell box containing the image has at least as many
   columns and at least as many rows *)
Definition smallest_containing_box (W H : Q) (cw ch C R : Z) : Prop :=
  contains W H cw ch C R /\
  forall C' R', contains W H cw ch C' R' -> (C <= C')%Z /\ (R <= R')%Z.

(* Executable versions (the oracle run on the implementation's answers). *)
Definition Qlt_bool (x y : Q) : bool := negb (Qle_bool y x).
Definition fit_factor (W H BW BH : Q) : Q := if Qle_bool (BW / W) (BH / H) then BW / W else BH / H.
Definition no_unused_row_or_colb (W H : Q) (cw ch C R : Z) : bool :=
  let f := fit_factor W H (box_w cw C) (box_h ch R) in
  Qlt_bool (box_w cw (C - 1)) (f * W) && Qlt_bool (box_h ch (R - 1)) (f * H).
Definition smallest_containing_boxb (W H : Q) (cw ch C R : Z) : bool :=
  Qle_bool W (box_w cw C) && Qle_bool H (box_h ch R) &&
  Qlt_bool (box_w cw (C - 1)) W && Qlt_bool (box_h ch (R - 1)) H.
