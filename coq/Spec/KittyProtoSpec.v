(* Spec/KittyProtoSpec.v — an independent reading of the kitty graphics protocol's escape format
   (https://sw.kovidgoyal.net/kitty/graphics-protocol/):
       ESC _ G <control data> [; <payload>] ESC \
   control data = comma separated key=value pairs, keys are single letters, each key at most once;
   payload = base64 (RFC 4648, padded).  Plus the protocol's key letters and value encodings for the
   fields of the library's command classes (the "expected" tables), written from the protocol text.
   Shares only the plain data types of Lib/CommandTypes.v with the model. *)
From Coq Require Import NArith List Bool.
From Tup Require Import Lib.CommandTypes.
Import ListNotations.
Open Scope N_scope.

(* ---- own helpers (deliberately not those of Lib/, so that the Spec stands alone) *)
Fixpoint sp_split (sep : N) (l cur : list N) : list (list N) :=
  match l with
  | [] => [rev cur]
  | b :: r => if b =? sep then rev cur :: sp_split sep r [] else sp_split sep r (b :: cur)
  end.
Fixpoint sp_split1 (sep : N) (l cur : list N) : list N * option (list N) :=
  match l with
  | [] => (rev cur, None)
  | b :: r => if b =? sep then (rev cur, Some r) else sp_split1 sep r (b :: cur)
  end.
Fixpoint sp_mem (k : N) (l : list (N * list N)) : bool :=
  match l with [] => false | (k', _) :: r => (k =? k') || sp_mem k r end.
Fixpoint sp_assoc (k : N) (l : list (N * list N)) : option (list N) :=
  match l with [] => None | (k', v) :: r => if k =? k' then Some v else sp_assoc k r end.
Definition is_letter (c : N) : bool := ((65 <=? c) && (c <=? 90)) || ((97 <=? c) && (c <=? 122)).

(* base64 decoding, RFC 4648 with mandatory padding *)
Definition sextet (c : N) : option N :=
  if (65 <=? c) && (c <=? 90) then Some (c - 65)
  else if (97 <=? c) && (c <=? 122) then Some (c - 71)
  else if (48 <=? c) && (c <=? 57) then Some (c + 4)
  else if c =? 43 then Some 62 else if c =? 47 then Some 63 else None.
Fixpoint sp_b64 (l : list N) : option (list N) :=
  match l with
  | [] => Some []
  | a :: b :: c :: d :: r =>
      match sextet a, sextet b with
      | Some x, Some y =>
          if (c =? 61) && (d =? 61) then match r with [] => Some [x * 4 + y / 16] | _ => None end
          else match sextet c with
               | Some z =>
                   if d =? 61 then match r with [] => Some [x * 4 + y / 16; (y mod 16) * 16 + z / 4] | _ => None end
                   else match sextet d, sp_b64 r with
                        | Some w, Some t => Some (x * 4 + y / 16 :: (y mod 16) * 16 + z / 4 :: (z mod 4) * 64 + w :: t)
                        | _, _ => None
                        end
               | None => None
               end
      | _, _ => None
      end
  | _ => None
  end.

(* ---- the escape format *)
Definition parse_pair (p : list N) : option (N * list N) :=
  match p with
  | k :: e :: v => if is_letter k && (e =? 61) then match v with [] => None | _ => Some (k, v) end else None
  | _ => None
  end.

Fixpoint parse_pairs (parts : list (list N)) (seen : list (N * list N)) : option (list (N * list N)) :=
  match parts with
  | [] => Some (rev seen)
  | p :: r => match parse_pair p with
              | Some (k, v) => if sp_mem k seen then None (* duplicate key *) else parse_pairs r ((k, v) :: seen)
              | None => None
              end
  end.

Definition parse_control (h : list N) : option (list (N * list N)) :=
  match h with [] => Some [] | _ => parse_pairs (sp_split 44 h []) [] end.

Fixpoint has_esc (l : list N) : bool := match l with [] => false | b :: r => (b =? 27) || has_esc r end.

(* body = what is between ESC _ G and ESC \ ; it must not contain ESC *)
Definition parse_body (body : list N) : option (list (N * list N) * option (list N)) :=
  if has_esc body then None else
  let '(h, p) := sp_split1 59 body [] in
  match parse_control h with
  | None => None
  | Some kv =>
      match p with
      | None => Some (kv, None)
      | Some b => match sp_b64 b with Some d => Some (kv, Some d) | None => None end
      end
  end.

Definition parse_escape (l : list N) : option (list (N * list N) * option (list N)) :=
  match l with
  | 27 :: 95 :: 71 :: r =>
      let n := length r in
      if Nat.leb 2 n then
        match skipn (n - 2) r with
        | [27; 92] => parse_body (firstn (n - 2) r)
        | _ => None
        end
      else None
  | _ => None
  end.

(* ---- expected protocol fields of the command classes (key letter -> value text) *)
(* decimal text of a number, independent of Lib/Dec: most significant digit first *)
Fixpoint sp_digits (fuel : nat) (n : N) (acc : list N) : list N :=
  match fuel with
  | O => acc
  | S f => if n <? 10 then (n + 48) :: acc else sp_digits f (n / 10) ((n mod 10) + 48 :: acc)
  end.
Definition sp_dec (n : N) : list N := sp_digits (S (N.to_nat (N.size n))) n [].
Definition e_num (o : option N) : option (list N) := option_map sp_dec o.
Definition e_bool (o : option bool) : option (list N) := option_map (fun b : bool => if b then [49] else [48]) o.
Definition e_quiet (o : option quietness) : option (list N) :=
  option_map (fun q => match q with QVerbose => [48] | QUnlessError => [49] | QAlways => [50] end) o.
Definition e_medium (o : option medium) : option (list N) :=
  option_map (fun m => match m with MDirect => [100] | MFile => [102] | MTemp => [116] | MShm => [115] end) o.
Definition e_format (o : option format) : option (list N) :=
  option_map (fun f => match f with FRgb => [50; 52] | FRgba => [51; 50] | FPng => [49; 48; 48] end) o.
Definition e_compression (o : option compression) : option (list N) := option_map (fun _ => [122]) o.
Definition delete_letter (w : what_delete) : N :=
  match w with WVisible => 97 | WById => 105 | WByNumber => 110 | WUnderCursor => 99 | WFrames => 102
             | WAtPos => 112 | WAtPosZ => 113 | WAtCol => 120 | WAtRow => 121 | WAtZ => 122 end.

Definition expected_placement (p : placement) (k : N) : option (list N) :=
  if k =? 112 then e_num (p_placement_id p)            (* p *)
  else if k =? 85 then e_bool (p_virtual p)            (* U *)
  else if k =? 114 then e_num (p_rows p)               (* r *)
  else if k =? 99 then e_num (p_cols p)                (* c *)
  else if k =? 120 then e_num (p_src_x p)              (* x *)
  else if k =? 121 then e_num (p_src_y p)              (* y *)
  else if k =? 119 then e_num (p_src_w p)              (* w *)
  else if k =? 104 then e_num (p_src_h p)              (* h *)
  else if k =? 67 then e_bool (p_do_not_move_cursor p) (* C *)
  else None.

Definition expected_transmit (c : transmit) (k : N) : option (list N) :=
  if k =? 97 then                                      (* a: q query, T transmit+display, t transmit *)
    if t_omit_action c then None
    else Some (match t_query c with Some true => [113] | _ => match t_placement c with Some _ => [84] | None => [116] end end)
  else if k =? 105 then e_num (t_image_id c)           (* i *)
  else if k =? 73 then e_num (t_image_number c)        (* I *)
  else if k =? 116 then e_medium (t_medium c)          (* t *)
  else if k =? 83 then e_num (t_size c)                (* S *)
  else if k =? 79 then e_num (t_offset c)              (* O *)
  else if k =? 113 then e_quiet (t_quiet c)            (* q *)
  else if k =? 109 then e_bool (t_more c)              (* m *)
  else if k =? 102 then e_format (t_format c)          (* f *)
  else if k =? 111 then e_compression (t_compression c)(* o *)
  else if k =? 115 then e_num (t_pix_width c)          (* s *)
  else if k =? 118 then e_num (t_pix_height c)         (* v *)
  else match t_placement c with Some p => expected_placement p k | None => None end.

Definition expected_more (c : moredata) (k : N) : option (list N) :=
  if k =? 105 then e_num (m_image_id c)
  else if k =? 73 then e_num (m_image_number c)
  else if k =? 109 then e_bool (m_more c)
  else None.

Definition expected_put (c : put) (k : N) : option (list N) :=
  if k =? 97 then Some [112]                           (* a=p *)
  else if k =? 105 then e_num (u_image_id c)
  else if k =? 73 then e_num (u_image_number c)
  else if k =? 113 then e_quiet (u_quiet c)
  else expected_placement (u_placement c) k.

Definition expected_delete (c : delete) (k : N) : option (list N) :=
  if k =? 97 then Some [100]                           (* a=d *)
  else if k =? 105 then e_num (d_image_id c)
  else if k =? 73 then e_num (d_image_number c)
  else if k =? 112 then e_num (d_placement_id c)
  else if k =? 113 then e_quiet (d_quiet c)
  else if k =? 100 then                                (* d: lower case keeps the data, upper case frees it *)
    option_map (fun w => [match d_delete_data c with Some true => delete_letter w - 32 | _ => delete_letter w end]) (d_what c)
  else None.

Definition expected_fields (c : command) (k : N) : option (list N) :=
  match c with
  | CTransmit t => expected_transmit t k
  | CMore m => expected_more m k
  | CPut u => expected_put u k
  | CDelete d => expected_delete d k
  end.
Definition expected_payload (c : command) : option (list N) :=
  match c with
  | CTransmit t => Some (t_data t)
  | CMore m => Some (m_data m)
  | _ => None
  end.

(* executable oracle used on implementation bytes: the escape parses, keys are distinct (by
   construction of parse_pairs), every key carries the expected text, no expected key is missing
   (checked over all letters), and the payload is exact *)
Fixpoint letters_from (n : nat) (c : N) : list N :=
  match n with O => [] | S k => c :: letters_from k (c + 1) end.
Definition all_letters : list N := letters_from 26 65 ++ letters_from 26 97.
Fixpoint bytes_eqb (a b : list N) : bool :=
  match a, b with [], [] => true | x :: a', y :: b' => (x =? y) && bytes_eqb a' b' | _, _ => false end.
Definition opt_bytes_eqb (a b : option (list N)) : bool :=
  match a, b with None, None => true | Some x, Some y => bytes_eqb x y | _, _ => false end.
Definition conforms (c : command) (escape : list N) : bool :=
  match parse_escape escape with
  | None => false
  | Some (kv, payload) =>
      forallb (fun k => opt_bytes_eqb (sp_assoc k kv) (expected_fields c k)) all_letters
      && forallb (fun kv1 => is_letter (fst kv1)) kv
      && opt_bytes_eqb payload (expected_payload c)
  end.
