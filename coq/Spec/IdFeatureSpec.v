(* Spec/IdFeatureSpec.v — what C14 talks about, independent of coq/Model:
   (1) the five ID spaces by *features* (tupimage/id_manager.py:106-173 / README): a space has 0, 8
       or 24 colour bits and uses or does not use the third diacritic.  Membership is written with
       the bytes of the ID only:  byte k = (id / 256^k) mod 256.
         - third diacritic used  <->  byte 3 is non-zero;
         - 0 colour bits: bytes 0,1,2 are zero;  8 colour bits: bytes 1,2 are zero and byte 0 is
           non-zero;  24 colour bits: byte 1 or byte 2 is non-zero.
       (Spec/IdLayoutSpec.v of C10 states the same layout; this file is deliberately self-contained.)
   (2) which features a display stream uses, read off the token stream of Spec/TermSpec.v:
       a true-colour foreground (SGR 38;2;r;g;b), a 256-colour foreground (SGR 38;5;n), and the
       largest number of row/column diacritics carried by a placeholder cell. *)
From Coq Require Import ZArith NArith List Bool.
From Tup Require Import Spec.TermSpec Spec.PlaceholderSpec.
Import ListNotations.
Open Scope N_scope.

Definition id_byte (k : N) (id : N) : N := (id / 256 ^ k) mod 256.

Record feature_space := mkspace { colour_bits : N; uses_3rd : bool }.
Definition legal_space (sp : feature_space) : bool :=
  ((colour_bits sp =? 0) && uses_3rd sp) || (colour_bits sp =? 8) || (colour_bits sp =? 24).

Definition id_in_space (sp : feature_space) (id : N) : bool :=
  (0 <? id) && (id <? 4294967296)
  && (if uses_3rd sp then negb (id_byte 3 id =? 0) else id_byte 3 id =? 0)
  && (if colour_bits sp =? 0 then (id_byte 0 id =? 0) && (id_byte 1 id =? 0) && (id_byte 2 id =? 0)
      else if colour_bits sp =? 8 then negb (id_byte 0 id =? 0) && (id_byte 1 id =? 0) && (id_byte 2 id =? 0)
      else negb ((id_byte 1 id =? 0) && (id_byte 2 id =? 0))).

(* does an SGR parameter list select a foreground of the given kind (5: 256-colour, 2: true colour)?
   Parameters are consumed the way Spec/TermSpec.sgr_apply consumes them. *)
Fixpoint sgr_has_fg (kind : N) (ps : list N) {struct ps} : bool :=
  match ps with
  | [] => false
  | p :: r =>
      if (p =? 38) || (p =? 48) || (p =? 58) then
        match r with
        | m :: r1 =>
            if m =? 5 then
              match r1 with
              | _ :: r2 => ((p =? 38) && (kind =? 5)) || sgr_has_fg kind r2
              | [] => false
              end
            else if m =? 2 then
              match r1 with
              | _ :: _ :: _ :: r2 => ((p =? 38) && (kind =? 2)) || sgr_has_fg kind r2
              | _ => false
              end
            else false
        | [] => false
        end
      else sgr_has_fg kind r
  end.

Definition tok_has_fg (kind : N) (k : tok) : bool :=
  match k with TCsi ps f => (f =? 109) && sgr_has_fg kind ps | _ => false end.
Definition uses_truecolor_fg (ks : list tok) : bool := existsb (tok_has_fg 2) ks.
Definition uses_256_fg (ks : list tok) : bool := existsb (tok_has_fg 5) ks.

(* the largest number of row/column diacritics following a placeholder character *)
Fixpoint max_diacritics_go (cur : option N) (best : N) (ks : list tok) : N :=
  match ks with
  | [] => match cur with Some c => N.max best c | None => best end
  | k :: r =>
      let best' := match cur with Some c => N.max best c | None => best end in
      match k with
      | TChar cp =>
          if cp =? placeholder_cp then max_diacritics_go (Some 0) best' r
          else match cur, diacritic_value cp with
               | Some c, Some _ => max_diacritics_go (Some (c + 1)) best r
               | _, _ => max_diacritics_go None best' r
               end
      | _ => max_diacritics_go None best' r
      end
  end.
Definition max_diacritics (ks : list tok) : N := max_diacritics_go None 0 ks.
