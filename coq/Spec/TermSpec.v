(* Spec/TermSpec.v — an independent reading of a VT/ECMA-48 style terminal as far as the library's
   display stream uses it: a W x H grid of cells, a cursor with the "pending wrap" (last column)
   flag, a saved cursor, SGR colour state; a byte-level parser (ground / ESC / CSI parameters /
   UTF-8 continuation / control strings) and the meaning of each token.

   Shares no definition with coq/Model.  Choices where real terminals differ are marked CHOICE.

   * The screen is a function  row -> column -> cell ; only rows 0..H-1 / columns 0..W-1 matter.
   * Every printable, non-zero-width scalar occupies one cell (no East-Asian wide characters;
     U+10EEEE, the placeholder, is a private-use scalar of width 1).  Zero-width = general category
     Mn or Me (table below, from Unicode 15.0 via Python's unicodedata; regenerated/cross-checked
     by harness/gen_placeholder.py): such a scalar is appended to the combining list of the cell
     left of the cursor (the cell under the cursor when a wrap is pending).
   * CHOICE: LF / IND / NEL and all cursor movements clear the pending-wrap flag (DEC STD 070, xterm).
   * CHOICE: CSI s / CSI u (and ESC 7 / ESC 8) save and restore position, pending-wrap flag *and*
     the SGR state (xterm, kitty: SCOSC = DECSC).
   * CHOICE: erased and scrolled-in cells are [blank_cell] (default background; no BCE).
   * LF is a pure index (column kept).  A stream that goes through a tty with ONLCR reaches the
     terminal with every LF turned into CR LF: [tty_onlcr].  The library's "line feed" output style
     is meant for exactly that situation (output piped through cat/head/less and then written to the
     tty by that program; tupimage/cli.py switches it on when the display stream is not a tty); for that
     style the properties are stated about [tty_onlcr bytes]. *)
From Coq Require Import ZArith NArith List Bool.
Import ListNotations.

Inductive color := CDefault | CIdx (n : N) | CRgb (r g b : N).
Record attrs := mkattrs { afg : color; aul : color; abg : color }.
Definition default_attrs : attrs := mkattrs CDefault CDefault CDefault.
(* ch = 0: nothing was ever printed here (or it was erased) *)
Record cell := mkcell { ch : N; comb : list N; cfg : color; cul : color; cbg : color }.
Definition blank_cell : cell := mkcell 0 [] CDefault CDefault CDefault.

(* ------------------------------------------------------------------ bytes -> tokens *)
Open Scope N_scope.

Inductive tok :=
| TChar (cp : N)                     (* a decoded Unicode scalar >= 32, not 127 *)
| TCtl (b : N)                       (* C0 control or DEL *)
| TEsc (b : N)                       (* ESC followed by a final byte *)
| TCsi (ps : list N) (fin : N).      (* CSI p1;p2;... final ; an omitted parameter is 0 *)

Inductive pst :=
| Ground | Esc | EscI
| Csi (bad : bool) (done : list N) (cur : option N)
| Utf (need : nat) (acc : N)
| Str | StrEsc.

Definition is_digit (b : N) : bool := (48 <=? b) && (b <=? 57).
Definition replacement : N := 65533.

Definition step_ground (b : N) : pst * list tok :=
  if b =? 27 then (Esc, [])
  else if (b <? 32) || (b =? 127) then (Ground, [TCtl b])
  else if b <? 128 then (Ground, [TChar b])
  else if b <? 194 then (Ground, [TChar replacement])
  else if b <? 224 then (Utf 1 (b - 192), [])
  else if b <? 240 then (Utf 2 (b - 224), [])
  else if b <? 248 then (Utf 3 (b - 240), [])
  else (Ground, [TChar replacement]).

Definition csi_params (done : list N) (cur : option N) : list N :=
  match cur with
  | Some c => done ++ [c]
  | None => match done with [] => [] | _ => done ++ [0] end
  end.

Definition step (s : pst) (b : N) : pst * list tok :=
  match s with
  | Ground => step_ground b
  | Utf need acc =>
      if (128 <=? b) && (b <? 192) then
        let acc' := acc * 64 + (b - 128) in
        match need with
        | S (S n) => (Utf (S n) acc', [])
        | _ => (Ground, [TChar acc'])
        end
      else let '(s', ts) := step_ground b in (s', TChar replacement :: ts)
  | Esc =>
      if b =? 91 then (Csi false [] None, [])
      else if b =? 27 then (Esc, [])
      else if (32 <=? b) && (b <? 48) then (EscI, [])
      else if (b =? 80) || (b =? 88) || (b =? 93) || (b =? 94) || (b =? 95) then (Str, [])   (* DCS SOS OSC PM APC *)
      else (Ground, [TEsc b])
  | EscI =>
      if (32 <=? b) && (b <? 48) then (EscI, []) else if b =? 27 then (Esc, []) else (Ground, [])
  | Csi bad done cur =>
      if is_digit b then (Csi bad done (Some (match cur with Some c => c * 10 + (b - 48) | None => b - 48 end)), [])
      else if b =? 59 then (Csi bad (done ++ [match cur with Some c => c | None => 0 end]) None, [])
      else if b =? 27 then (Esc, [])
      else if b <? 32 then (Csi bad done cur, [TCtl b])
      else if b <? 64 then (Csi true done cur, [])         (* ':' '<' '=' '>' '?' / intermediates: sequence ignored *)
      else (Ground, if bad then [] else [TCsi (csi_params done cur) b])
  | Str => if b =? 27 then (StrEsc, []) else if b =? 7 then (Ground, []) else (Str, [])
  | StrEsc => if b =? 92 then (Ground, []) else if b =? 27 then (StrEsc, []) else (Str, [])
  end.

Fixpoint lex (s : pst) (l : list N) : pst * list tok :=
  match l with
  | [] => (s, [])
  | b :: r => let '(s', o) := step s b in
              let '(s'', ts) := lex s' r in
              (s'', o ++ ts)
  end.

Definition tokens (l : list N) : list tok := snd (lex Ground l).

(* what the tty line discipline (ONLCR) does to a stream on its way to the terminal *)
Definition tty_onlcr (l : list N) : list N := flat_map (fun b => if b =? 10 then [13; 10] else [b]) l.

(* general categories Mn and Me, as inclusive ranges *)
Definition zero_width_ranges : list (N * N) :=
  [
   (768, 879); (1155, 1161); (1425, 1469); (1471, 1471); (1473, 1474); (1476, 1477); (1479, 1479); (1552, 1562); 
   (1611, 1631); (1648, 1648); (1750, 1756); (1759, 1764); (1767, 1768); (1770, 1773); (1809, 1809); (1840, 
   1866); (1958, 1968); (2027, 2035); (2045, 2045); (2070, 2073); (2075, 2083); (2085, 2087); (2089, 2093); 
   (2137, 2139); (2200, 2207); (2250, 2273); (2275, 2306); (2362, 2362); (2364, 2364); (2369, 2376); (2381, 
   2381); (2385, 2391); (2402, 2403); (2433, 2433); (2492, 2492); (2497, 2500); (2509, 2509); (2530, 2531); 
   (2558, 2558); (2561, 2562); (2620, 2620); (2625, 2626); (2631, 2632); (2635, 2637); (2641, 2641); (2672, 
   2673); (2677, 2677); (2689, 2690); (2748, 2748); (2753, 2757); (2759, 2760); (2765, 2765); (2786, 2787); 
   (2810, 2815); (2817, 2817); (2876, 2876); (2879, 2879); (2881, 2884); (2893, 2893); (2901, 2902); (2914, 
   2915); (2946, 2946); (3008, 3008); (3021, 3021); (3072, 3072); (3076, 3076); (3132, 3132); (3134, 3136); 
   (3142, 3144); (3146, 3149); (3157, 3158); (3170, 3171); (3201, 3201); (3260, 3260); (3263, 3263); (3270, 
   3270); (3276, 3277); (3298, 3299); (3328, 3329); (3387, 3388); (3393, 3396); (3405, 3405); (3426, 3427); 
   (3457, 3457); (3530, 3530); (3538, 3540); (3542, 3542); (3633, 3633); (3636, 3642); (3655, 3662); (3761, 
   3761); (3764, 3772); (3784, 3790); (3864, 3865); (3893, 3893); (3895, 3895); (3897, 3897); (3953, 3966); 
   (3968, 3972); (3974, 3975); (3981, 3991); (3993, 4028); (4038, 4038); (4141, 4144); (4146, 4151); (4153, 
   4154); (4157, 4158); (4184, 4185); (4190, 4192); (4209, 4212); (4226, 4226); (4229, 4230); (4237, 4237); 
   (4253, 4253); (4957, 4959); (5906, 5908); (5938, 5939); (5970, 5971); (6002, 6003); (6068, 6069); (6071, 
   6077); (6086, 6086); (6089, 6099); (6109, 6109); (6155, 6157); (6159, 6159); (6277, 6278); (6313, 6313); 
   (6432, 6434); (6439, 6440); (6450, 6450); (6457, 6459); (6679, 6680); (6683, 6683); (6742, 6742); (6744, 
   6750); (6752, 6752); (6754, 6754); (6757, 6764); (6771, 6780); (6783, 6783); (6832, 6862); (6912, 6915); 
   (6964, 6964); (6966, 6970); (6972, 6972); (6978, 6978); (7019, 7027); (7040, 7041); (7074, 7077); (7080, 
   7081); (7083, 7085); (7142, 7142); (7144, 7145); (7149, 7149); (7151, 7153); (7212, 7219); (7222, 7223); 
   (7376, 7378); (7380, 7392); (7394, 7400); (7405, 7405); (7412, 7412); (7416, 7417); (7616, 7679); (8400, 
   8432); (11503, 11505); (11647, 11647); (11744, 11775); (12330, 12333); (12441, 12442); (42607, 42610); 
   (42612, 42621); (42654, 42655); (42736, 42737); (43010, 43010); (43014, 43014); (43019, 43019); (43045, 
   43046); (43052, 43052); (43204, 43205); (43232, 43249); (43263, 43263); (43302, 43309); (43335, 43345); 
   (43392, 43394); (43443, 43443); (43446, 43449); (43452, 43453); (43493, 43493); (43561, 43566); (43569, 
   43570); (43573, 43574); (43587, 43587); (43596, 43596); (43644, 43644); (43696, 43696); (43698, 43700); 
   (43703, 43704); (43710, 43711); (43713, 43713); (43756, 43757); (43766, 43766); (44005, 44005); (44008, 
   44008); (44013, 44013); (64286, 64286); (65024, 65039); (65056, 65071); (66045, 66045); (66272, 66272); 
   (66422, 66426); (68097, 68099); (68101, 68102); (68108, 68111); (68152, 68154); (68159, 68159); (68325, 
   68326); (68900, 68903); (69291, 69292); (69373, 69375); (69446, 69456); (69506, 69509); (69633, 69633); 
   (69688, 69702); (69744, 69744); (69747, 69748); (69759, 69761); (69811, 69814); (69817, 69818); (69826, 
   69826); (69888, 69890); (69927, 69931); (69933, 69940); (70003, 70003); (70016, 70017); (70070, 70078); 
   (70089, 70092); (70095, 70095); (70191, 70193); (70196, 70196); (70198, 70199); (70206, 70206); (70209, 
   70209); (70367, 70367); (70371, 70378); (70400, 70401); (70459, 70460); (70464, 70464); (70502, 70508); 
   (70512, 70516); (70712, 70719); (70722, 70724); (70726, 70726); (70750, 70750); (70835, 70840); (70842, 
   70842); (70847, 70848); (70850, 70851); (71090, 71093); (71100, 71101); (71103, 71104); (71132, 71133); 
   (71219, 71226); (71229, 71229); (71231, 71232); (71339, 71339); (71341, 71341); (71344, 71349); (71351, 
   71351); (71453, 71455); (71458, 71461); (71463, 71467); (71727, 71735); (71737, 71738); (71995, 71996); 
   (71998, 71998); (72003, 72003); (72148, 72151); (72154, 72155); (72160, 72160); (72193, 72202); (72243, 
   72248); (72251, 72254); (72263, 72263); (72273, 72278); (72281, 72283); (72330, 72342); (72344, 72345); 
   (72752, 72758); (72760, 72765); (72767, 72767); (72850, 72871); (72874, 72880); (72882, 72883); (72885, 
   72886); (73009, 73014); (73018, 73018); (73020, 73021); (73023, 73029); (73031, 73031); (73104, 73105); 
   (73109, 73109); (73111, 73111); (73459, 73460); (73472, 73473); (73526, 73530); (73536, 73536); (73538, 
   73538); (78912, 78912); (78919, 78933); (92912, 92916); (92976, 92982); (94031, 94031); (94095, 94098); 
   (94180, 94180); (113821, 113822); (118528, 118573); (118576, 118598); (119143, 119145); (119163, 119170); 
   (119173, 119179); (119210, 119213); (119362, 119364); (121344, 121398); (121403, 121452); (121461, 121461); 
   (121476, 121476); (121499, 121503); (121505, 121519); (122880, 122886); (122888, 122904); (122907, 122913); 
   (122915, 122916); (122918, 122922); (123023, 123023); (123184, 123190); (123566, 123566); (123628, 123631); 
   (124140, 124143); (125136, 125142); (125252, 125258); (917760, 917999)
  ].
Definition zero_width (cp : N) : bool :=
  existsb (fun r => (fst r <=? cp) && (cp <=? snd r)) zero_width_ranges.

(* ------------------------------------------------------------------ SGR *)
Definition set_col (which : N) (a : attrs) (c : color) : attrs :=
  if which =? 38 then mkattrs c (aul a) (abg a)
  else if which =? 48 then mkattrs (afg a) (aul a) c
  else mkattrs (afg a) c (abg a).

Fixpoint sgr_apply (a : attrs) (ps : list N) {struct ps} : attrs :=
  match ps with
  | [] => a
  | p :: r =>
      if p =? 0 then sgr_apply default_attrs r
      else if (p =? 38) || (p =? 48) || (p =? 58) then
        match r with
        | m :: r1 =>
            if m =? 5 then
              match r1 with
              | n :: r2 => sgr_apply (set_col p a (CIdx n)) r2
              | [] => a
              end
            else if m =? 2 then
              match r1 with
              | cr :: cg :: cb :: r2 => sgr_apply (set_col p a (CRgb cr cg cb)) r2
              | _ => a
              end
            else a
        | [] => a
        end
      else if p =? 39 then sgr_apply (set_col 38 a CDefault) r
      else if p =? 49 then sgr_apply (set_col 48 a CDefault) r
      else if p =? 59 then sgr_apply (set_col 58 a CDefault) r
      else if (30 <=? p) && (p <=? 37) then sgr_apply (set_col 38 a (CIdx (p - 30))) r
      else if (40 <=? p) && (p <=? 47) then sgr_apply (set_col 48 a (CIdx (p - 40))) r
      else if (90 <=? p) && (p <=? 97) then sgr_apply (set_col 38 a (CIdx (p - 82))) r
      else if (100 <=? p) && (p <=? 107) then sgr_apply (set_col 48 a (CIdx (p - 92))) r
      else sgr_apply a r        (* bold, italic, ...: not tracked *)
  end.
Definition sgr_csi (a : attrs) (ps : list N) : attrs :=
  match ps with [] => default_attrs | _ => sgr_apply a ps end.

(* ------------------------------------------------------------------ the terminal *)
Open Scope Z_scope.

Record term := mkterm {
  cx : Z; cy : Z; pend : bool; sgr : attrs;
  sx : Z; sy : Z; spend : bool; ssgr : attrs;       (* saved cursor *)
  scr : Z -> Z -> cell }.

Definition set_cursor (t : term) (x y : Z) (p : bool) : term :=
  mkterm x y p (sgr t) (sx t) (sy t) (spend t) (ssgr t) (scr t).
Definition set_scr (t : term) (s : Z -> Z -> cell) : term :=
  mkterm (cx t) (cy t) (pend t) (sgr t) (sx t) (sy t) (spend t) (ssgr t) s.
Definition set_sgr (t : term) (a : attrs) : term :=
  mkterm (cx t) (cy t) (pend t) a (sx t) (sy t) (spend t) (ssgr t) (scr t).

Definition blank_screen : Z -> Z -> cell := fun _ _ => blank_cell.
Definition blank_term (x y : Z) : term :=
  mkterm x y false default_attrs 0 0 false default_attrs blank_screen.

Definition upd (s : Z -> Z -> cell) (y x : Z) (c : cell) : Z -> Z -> cell :=
  fun y' x' => if (y' =? y) && (x' =? x) then c else s y' x'.

Section Sized.
Variables W H : Z.

Definition scroll_up (n : Z) (s : Z -> Z -> cell) : Z -> Z -> cell :=
  fun y x => if y + n <? H then s (y + n) x else blank_cell.
Definition scroll_down (n : Z) (s : Z -> Z -> cell) : Z -> Z -> cell :=
  fun y x => if n <=? y then s (y - n) x else blank_cell.

(* IND: one line down, scrolling at the bottom row; the column is kept *)
Definition index_down (t : term) : term :=
  if cy t =? H - 1 then set_scr (set_cursor t (cx t) (cy t) false) (scroll_up 1 (scr t))
  else set_cursor t (cx t) (cy t + 1) false.
Definition index_up (t : term) : term :=
  if cy t =? 0 then set_scr (set_cursor t (cx t) (cy t) false) (scroll_down 1 (scr t))
  else set_cursor t (cx t) (cy t - 1) false.

Definition wrap (t : term) : term :=
  if pend t then let t' := index_down t in set_cursor t' 0 (cy t') false else t.

Definition put (t : term) (cp : N) : term :=
  let t := wrap t in
  let c := mkcell cp [] (afg (sgr t)) (aul (sgr t)) (abg (sgr t)) in
  let s := upd (scr t) (cy t) (cx t) c in
  if cx t =? W - 1 then set_scr (set_cursor t (cx t) (cy t) true) s
  else set_scr (set_cursor t (cx t + 1) (cy t) false) s.

Definition attach (t : term) (cp : N) : term :=
  let tx := if pend t then cx t else cx t - 1 in
  if tx <? 0 then t else
  let c := scr t (cy t) tx in
  if (ch c =? 0)%N then t
  else set_scr t (upd (scr t) (cy t) tx (mkcell (ch c) (comb c ++ [cp]) (cfg c) (cul c) (cbg c))).

Definition save_cursor (t : term) : term :=
  mkterm (cx t) (cy t) (pend t) (sgr t) (cx t) (cy t) (pend t) (sgr t) (scr t).
Definition restore_cursor (t : term) : term :=
  mkterm (sx t) (sy t) (spend t) (ssgr t) (sx t) (sy t) (spend t) (ssgr t) (scr t).

Definition clampx (x : Z) : Z := Z.max 0 (Z.min (W - 1) x).
Definition clampy (y : Z) : Z := Z.max 0 (Z.min (H - 1) y).
(* i-th parameter, default (and 0) = 1 *)
Definition par1 (ps : list N) (i : nat) : Z :=
  let v := Z.of_N (nth i ps 0%N) in if v =? 0 then 1 else v.
Definition par0 (ps : list N) (i : nat) : Z := Z.of_N (nth i ps 0%N).

Definition erase (t : term) (which : Z -> Z -> bool) : term :=
  set_scr t (fun y x => if which y x then blank_cell else scr t y x).

Definition exec_csi (t : term) (ps : list N) (f : N) : term :=
  if (f =? 109)%N then set_sgr t (sgr_csi (sgr t) ps)                                   (* m  SGR *)
  else if (f =? 65)%N then set_cursor t (cx t) (clampy (cy t - par1 ps 0)) false        (* A  CUU *)
  else if (f =? 66)%N then set_cursor t (cx t) (clampy (cy t + par1 ps 0)) false        (* B  CUD *)
  else if (f =? 67)%N then set_cursor t (clampx (cx t + par1 ps 0)) (cy t) false        (* C  CUF *)
  else if (f =? 68)%N then set_cursor t (clampx (cx t - par1 ps 0)) (cy t) false        (* D  CUB *)
  else if (f =? 71)%N then set_cursor t (clampx (par1 ps 0 - 1)) (cy t) false           (* G  CHA *)
  else if (f =? 100)%N then set_cursor t (cx t) (clampy (par1 ps 0 - 1)) false          (* d  VPA *)
  else if (f =? 72)%N || (f =? 102)%N then
    set_cursor t (clampx (par1 ps 1 - 1)) (clampy (par1 ps 0 - 1)) false                (* H f CUP *)
  else if (f =? 115)%N then save_cursor t                                               (* s *)
  else if (f =? 117)%N then restore_cursor t                                            (* u *)
  else if (f =? 83)%N then set_scr t (scroll_up (par1 ps 0) (scr t))                    (* S  SU *)
  else if (f =? 84)%N then set_scr t (scroll_down (par1 ps 0) (scr t))                  (* T  SD *)
  else if (f =? 75)%N then                                                              (* K  EL *)
    let m := par0 ps 0 in
    erase t (fun y x => (y =? cy t) && (if m =? 0 then cx t <=? x else if m =? 1 then x <=? cx t else m =? 2))
  else if (f =? 74)%N then                                                              (* J  ED *)
    let m := par0 ps 0 in
    erase t (fun y x => if m =? 0 then ((y =? cy t) && (cx t <=? x)) || (cy t <? y)
                        else if m =? 1 then ((y =? cy t) && (x <=? cx t)) || (y <? cy t)
                        else (m =? 2) || (m =? 3))
  else t.                                                                                (* not modelled: no effect *)

Definition exec (t : term) (k : tok) : term :=
  match k with
  | TChar cp => if zero_width cp then attach t cp else put t cp
  | TCtl b =>
      if (b =? 13)%N then set_cursor t 0 (cy t) false                                   (* CR *)
      else if (b =? 10)%N || (b =? 11)%N || (b =? 12)%N then index_down t                (* LF VT FF *)
      else if (b =? 8)%N then set_cursor t (clampx (cx t - 1)) (cy t) false              (* BS *)
      else t
  | TEsc b =>
      if (b =? 68)%N then index_down t                                                   (* ESC D  IND *)
      else if (b =? 69)%N then index_down (set_cursor t 0 (cy t) false)                  (* ESC E  NEL *)
      else if (b =? 77)%N then index_up t                                                (* ESC M  RI *)
      else if (b =? 55)%N then save_cursor t                                             (* ESC 7 *)
      else if (b =? 56)%N then restore_cursor t                                          (* ESC 8 *)
      else if (b =? 99)%N then blank_term 0 0                                            (* ESC c  RIS *)
      else t
  | TCsi ps f => exec_csi t ps f
  end.

Definition run (t : term) (ks : list tok) : term := fold_left exec ks t.
Definition feed (t : term) (bytes : list N) : term := run t (tokens bytes).

End Sized.
