(* Spec/PlaceholderSpec.v — the kitty graphics protocol's "Unicode placeholders", read from the
   protocol text, as a decoder over terminal cells (Spec/TermSpec.v).  Shares nothing with coq/Model.

   A cell is a placeholder cell iff its character is U+10EEEE.  For such a cell
     * the foreground colour gives the low 24 bits of the image ID (256-colour index n: the bits
       are n; 24-bit colour r,g,b: r*65536 + g*256 + b; default colour: 0),
     * the underline colour gives the placement ID the same way (default: 0),
     * the 1st, 2nd, 3rd combining character, looked up in the row/column diacritics table below
       (golden/rowcolumn-diacritics.txt), give row, column and the most significant ID byte,
     * missing ones are inherited from the cell to the left when that is a placeholder cell with
       the same foreground and underline colour:
         - no diacritic:   row = left row, column = left column + 1, msb = left msb;
         - row only:       if left row is the same: column = left column + 1, msb = left msb;
         - row and column: if left row is the same and left column + 1 = column: msb = left msb;
       in every other case a missing column / msb is 0 (and a missing row is 0).
   [decode_at scr W x y] is what the terminal shows at column x of line y. *)
From Coq Require Import ZArith NArith List Bool.
From Tup Require Import Spec.TermSpec.
Import ListNotations.
Open Scope N_scope.

Definition placeholder_cp : N := 1109742.    (* U+10EEEE *)

(* the protocol's row/column diacritics, index = value *)
Definition protocol_diacritics : list N :=
  [773; 781; 782; 784; 786; 829; 830; 831; 838; 842; 843; 844;
   848; 849; 850; 855; 859; 867; 868; 869; 870; 871; 872; 873;
   874; 875; 876; 877; 878; 879; 1155; 1156; 1157; 1158; 1159; 1426;
   1427; 1428; 1429; 1431; 1432; 1433; 1436; 1437; 1438; 1439; 1440; 1441;
   1448; 1449; 1451; 1452; 1455; 1476; 1552; 1553; 1554; 1555; 1556; 1557;
   1558; 1559; 1623; 1624; 1625; 1626; 1627; 1629; 1630; 1750; 1751; 1752;
   1753; 1754; 1755; 1756; 1759; 1760; 1761; 1762; 1764; 1767; 1768; 1771;
   1772; 1840; 1842; 1843; 1845; 1846; 1850; 1853; 1855; 1856; 1857; 1859;
   1861; 1863; 1865; 1866; 2027; 2028; 2029; 2030; 2031; 2032; 2033; 2035;
   2070; 2071; 2072; 2073; 2075; 2076; 2077; 2078; 2079; 2080; 2081; 2082;
   2083; 2085; 2086; 2087; 2089; 2090; 2091; 2092; 2093; 2385; 2387; 2388;
   3970; 3971; 3974; 3975; 4957; 4958; 4959; 6109; 6458; 6679; 6773; 6774;
   6775; 6776; 6777; 6778; 6779; 6780; 7019; 7021; 7022; 7023; 7024; 7025;
   7026; 7027; 7376; 7377; 7378; 7386; 7387; 7392; 7616; 7617; 7619; 7620;
   7621; 7622; 7623; 7624; 7625; 7627; 7628; 7633; 7634; 7635; 7636; 7637;
   7638; 7639; 7640; 7641; 7642; 7643; 7644; 7645; 7646; 7647; 7648; 7649;
   7650; 7651; 7652; 7653; 7654; 7678; 8400; 8401; 8404; 8405; 8406; 8407;
   8411; 8412; 8417; 8423; 8425; 8432; 11503; 11504; 11505; 11744; 11745; 11746;
   11747; 11748; 11749; 11750; 11751; 11752; 11753; 11754; 11755; 11756; 11757; 11758;
   11759; 11760; 11761; 11762; 11763; 11764; 11765; 11766; 11767; 11768; 11769; 11770;
   11771; 11772; 11773; 11774; 11775; 42607; 42620; 42621; 42736; 42737; 43232; 43233;
   43234; 43235; 43236; 43237; 43238; 43239; 43240; 43241; 43242; 43243; 43244; 43245;
   43246; 43247; 43248; 43249; 43696; 43698; 43699; 43703; 43704; 43710; 43711; 43713;
   65056; 65057; 65058; 65059; 65060; 65061; 65062; 68111; 68152; 119173; 119174; 119175;
   119176; 119177; 119210; 119211; 119212; 119213; 119362; 119363; 119364].

Fixpoint index_from (i : N) (cp : N) (l : list N) : option N :=
  match l with
  | [] => None
  | c :: r => if c =? cp then Some i else index_from (i + 1) cp r
  end.
Definition diacritic_value (cp : N) : option N := index_from 0 cp protocol_diacritics.

(* values of the leading combining characters that are row/column diacritics, at most three *)
Fixpoint leading_values (fuel : nat) (l : list N) : list N :=
  match fuel, l with
  | S f, cp :: r => match diacritic_value cp with Some v => v :: leading_values f r | None => [] end
  | _, _ => []
  end.

Definition color24 (c : color) : N :=
  match c with CDefault => 0 | CIdx n => n | CRgb r g b => r * 65536 + g * 256 + b end.

Definition is_placeholder (c : cell) : bool := ch c =? placeholder_cp.

(* what is known about a placeholder cell once decoded *)
Record pinfo := mkpinfo { p_fg : N; p_ul : N; p_row : N; p_col : N; p_msb : N }.

Definition decode_cell (prev : option pinfo) (c : cell) : pinfo :=
  let f := color24 (cfg c) in
  let u := color24 (cul c) in
  let same p := (p_fg p =? f) && (p_ul p =? u) in
  match leading_values 3 (comb c) with
  | [] => match prev with
          | Some p => if same p then mkpinfo f u (p_row p) (p_col p + 1) (p_msb p) else mkpinfo f u 0 0 0
          | None => mkpinfo f u 0 0 0
          end
  | [r] => match prev with
           | Some p => if same p && (p_row p =? r) then mkpinfo f u r (p_col p + 1) (p_msb p) else mkpinfo f u r 0 0
           | None => mkpinfo f u r 0 0
           end
  | [r; k] => match prev with
              | Some p => if same p && (p_row p =? r) && (p_col p + 1 =? k) then mkpinfo f u r k (p_msb p) else mkpinfo f u r k 0
              | None => mkpinfo f u r k 0
              end
  | r :: k :: m :: _ => mkpinfo f u r k m
  end.

(* one screen line, left to right; a non-placeholder cell breaks the inheritance chain *)
Fixpoint decode_cells (prev : option pinfo) (l : list cell) : list (option pinfo) :=
  match l with
  | [] => []
  | c :: r =>
      if is_placeholder c then let d := decode_cell prev c in Some d :: decode_cells (Some d) r
      else None :: decode_cells None r
  end.

(* image ID, placement ID, row, column *)
Record decoded := mkdecoded { d_id : N; d_pid : N; d_row : N; d_col : N }.
Definition decoded_of (p : pinfo) : decoded := mkdecoded (p_msb p * 16777216 + p_fg p) (p_ul p) (p_row p) (p_col p).

Definition row_cells (s : Z -> Z -> cell) (y : Z) (W : nat) : list cell :=
  map (fun i => s y (Z.of_nat i)) (seq 0 W).

Definition decode_line (s : Z -> Z -> cell) (W : nat) (y : Z) : list (option decoded) :=
  map (option_map decoded_of) (decode_cells None (row_cells s y W)).

Definition decode_at (s : Z -> Z -> cell) (W : nat) (x : nat) (y : Z) : option decoded :=
  nth x (decode_line s W y) None.
