(* Spec/SystemSpec.v — what the terminals of property C08 do with what they receive, and what "the terminal shows
   the requested image" means.  Shares only the plain data of Lib/SystemTypes.v with the model.

   A terminal keeps, per image id, the last complete transmission it received under that id (a=T with a virtual
   placement U=1, r, c): the decoded payload and the placement's rows x cols.  A payload is either inline data, or
   a file name (t=f, t=t) that the terminal opens at that moment: it sees the user's files as they are then, and
   the temporary files that have been written.  A name that cannot be opened leaves nothing under the id.
   Retention/eviction is property C04's subject and is not modelled here: "has received", not "still holds". *)
From Coq Require Import ZArith NArith List Bool.
From Tup Require Import Lib.CommandTypes Lib.SystemTypes.
Import ListNotations.
Open Scope N_scope.

Record entry := { e_content : content; e_rows : N; e_cols : N }.
Definition store := N -> N -> option entry.          (* terminal -> id -> what it holds *)
Definition empty_store : store := fun _ _ => None.
Definition fsview := fpath -> option content.

Definition put (st : store) (t id : N) (v : option entry) : store :=
  fun t' i => if (t' =? t) && (i =? id) then v else st t' i.

(* the files as a terminal sees them: user files decode to their image, temp files to what was written *)
Definition view (ufs : N -> option fileinfo) (tmp : N -> option content) : fsview :=
  fun p => match p with
           | UserPath u => option_map (fun fi => whole (f_img fi)) (ufs u)
           | TempPath k => tmp k
           end.

Definition payload_content (fs : fsview) (p : payload) : option content :=
  match p with PData c => Some c | PName n => fs n end.

Definition receive (fs : fsview) (st : store) (x : tx) : store :=
  put st (x_term x) (x_id x)
      (option_map (fun c => {| e_content := c; e_rows := x_rows x; e_cols := x_cols x |}) (payload_content fs (x_payload x))).

Definition write_tmp (tmp : N -> option content) (k : N) (c : content) : N -> option content :=
  fun j => if j =? k then Some c else tmp j.

(* terminal t holds under id an image with the pixels of im (possibly resized), placed on r x c cells *)
Definition shows (st : store) (t id : N) (im : img) (r c : N) : Prop :=
  exists e, st t id = Some e /\ c_img (e_content e) = im /\ e_rows e = r /\ e_cols e = c.

(* the events of one call, in order; at every Print the terminal must already show a wanted image *)
Fixpoint prints_ok (ufs : N -> option fileinfo) (tmp : N -> option content) (st : store) (want : img -> Prop)
         (evs : list event) : Prop :=
  match evs with
  | [] => True
  | EMkTemp k c :: r => prints_ok ufs (write_tmp tmp k c) st want r
  | ETx x :: r => prints_ok ufs tmp (receive (view ufs tmp) st x) want r
  | EPrint t id rows cols :: r => (exists im, want im /\ shows st t id im rows cols) /\ prints_ok ufs tmp st want r
  | ERaise :: r => prints_ok ufs tmp st want r
  end.
Fixpoint after (ufs : N -> option fileinfo) (tmp : N -> option content) (st : store) (evs : list event)
  : (N -> option content) * store :=
  match evs with
  | [] => (tmp, st)
  | EMkTemp k c :: r => after ufs (write_tmp tmp k c) st r
  | ETx x :: r => after ufs tmp (receive (view ufs tmp) st x) r
  | _ :: r => after ufs tmp st r
  end.

(* "(path, mtime) determines the content" is the world C : path -> mtime -> image.  keyf = what the digest in the
   description of an in-memory image covers (md5 itself is taken as collision-free: out of scope). *)
Definition describes (C : N -> Z -> option img) (keyf : img -> memkey) (d : descr) (im : img) : Prop :=
  match d with
  | DFile p m _ _ => C p m = Some im
  | DMem k _ _ => keyf im = k
  end.

(* the image a call asks for *)
Definition requested (C : N -> Z -> option img) (keyf : img -> memkey) (decode : N -> option descr)
           (ufs : N -> option fileinfo) (cur : N -> option N) (s : subject) (im : img) : Prop :=
  match s with
  | SImg (SMem m) => im = m
  | SImg (SFile p) => exists fi, ufs p = Some fi /\ f_img fi = im
  | SInst i => match n_src i with
               | IMem m => im = m
               | IFile p mt => C p mt = Some im
               | ILost k => keyf im = k
               end
  | SId id => exists dn d, cur id = Some dn /\ decode dn = Some d /\ describes C keyf d im
  end.

(* file names may be announced: only with the file method, or the automatic one outside an SSH session *)
Definition names_allowed (m : meth) (inside_ssh : bool) : bool :=
  match m with MethFile => true | MethAuto => negb inside_ssh | _ => false end.
(* the variables whose presence means "inside an SSH session" *)
Definition ssh_variable_names : list (list N) :=
  [[83; 83; 72; 95; 67; 76; 73; 69; 78; 84]; [83; 83; 72; 95; 84; 84; 89]; [83; 83; 72; 95; 67; 79; 78; 78; 69; 67; 84; 73; 79; 78]].
(* the prefix that marks a file as created by the library: "tty-graphics-protocol-" *)
Definition library_temp_prefix : list N :=
  [116; 116; 121; 45; 103; 114; 97; 112; 104; 105; 99; 115; 45; 112; 114; 111; 116; 111; 99; 111; 108; 45].

(* an image of mode RGB counts 3 bytes per pixel, any other 4: "exceeds the configured upload size" *)
Definition exceeds (im : img) (limit : Z) : Prop :=
  (limit < Z.of_N (iw im * ih im) * (if (imode im =? 0)%N then 3 else 4))%Z.
Definition untouched (c : content) : Prop := c_w c = iw (c_img c) /\ c_h c = ih (c_img c).
