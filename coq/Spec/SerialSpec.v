(* Spec/SerialSpec.v — what "the results and the final database are ones that some one-at-a-time ordering of the same
   requests could have produced" means (C03), independent of any model of the library: generic in the type of
   databases, calls and results and in the one-at-a-time semantics [exec].

   A history gives, per process, the calls it completed (in its program order) with the results it got.  It is
   SERIALIZABLE from s0 to final when some single sequence of (process, call, result) entries
     - contains, for every process, exactly its calls with its results, in its order (it is a merge), and
     - is what executing the calls one after the other from s0 produces: each call returns the listed result and
       the last database is final.
   [search] is the executable decision procedure used as the oracle on the implementation's observations. *)
From Coq Require Import List Bool Arith.
Import ListNotations.

Section Serial.
  Variables store call result : Type.
  Variable exec : call -> store -> store * result.

  Definition entry := (nat * call * result)%type.
  Definition pidof (e : entry) : nat := fst (fst e).
  Definition callof (e : entry) : call := snd (fst e).
  Definition resof (e : entry) : result := snd e.
  Definition proj (p : nat) (l : list entry) : list entry := filter (fun e => pidof e =? p) l.

  Inductive serial_run : store -> list entry -> store -> Prop :=
  | sr_nil : forall s, serial_run s [] s
  | sr_cons : forall s p c l s'', serial_run (fst (exec c s)) l s'' ->
                                  serial_run s ((p, c, snd (exec c s)) :: l) s''.

  Definition history := list (list (call * result)).
  Definition Serializable (s0 : store) (hist : history) (final : store) : Prop :=
    exists l : list entry,
      (forall p, map (fun e => (callof e, resof e)) (proj p l) = nth p hist []) /\
      (forall e, In e l -> pidof e < length hist) /\
      serial_run s0 l final.

  (* decision procedure, given decidable equalities on results and databases *)
  Variable eq_res : result -> result -> bool.
  Variable eq_store : store -> store -> bool.

  Fixpoint set_at {A} (l : list A) (n : nat) (x : A) : list A :=
    match l, n with [] , _ => [] | _ :: r, O => x :: r | y :: r, S k => y :: set_at r k x end.

  Fixpoint search (fuel : nat) (s : store) (hist : history) (final : store) : bool :=
    if forallb (fun h => match h with [] => true | _ => false end) hist then eq_store s final
    else match fuel with
         | O => false
         | S k =>
             existsb (fun i => match nth i hist [] with
                               | [] => false
                               | (c, r) :: rest => let '(s', r') := exec c s in eq_res r r' && search k s' (set_at hist i rest) final
                               end) (seq 0 (length hist))
         end.
  Definition total (hist : history) : nat := fold_right (fun h n => length h + n) 0 hist.
  Definition serial_ok (s0 : store) (hist : history) (final : store) : bool := search (total hist) s0 hist final.
End Serial.

(* all one-at-a-time orderings of the calls of several processes that respect each process's own order *)
Section Merges.
  Variable call : Type.
  Fixpoint set_at' (l : list (list call)) (n : nat) (x : list call) : list (list call) :=
    match l, n with [], _ => [] | _ :: r, O => x :: r | y :: r, S k => y :: set_at' r k x end.
  Fixpoint merges_fuel (fuel : nat) (ps : list (list call)) : list (list call) :=
    if forallb (fun h => match h with [] => true | _ => false end) ps then [[]]
    else match fuel with
         | O => []
         | S k => flat_map (fun i => match nth i ps [] with
                                     | [] => []
                                     | c :: rest => map (cons c) (merges_fuel k (set_at' ps i rest))
                                     end) (seq 0 (length ps))
         end.
  Definition merges (ps : list (list call)) : list (list call) :=
    merges_fuel (fold_right (fun h n => length h + n) 0 ps) ps.
End Merges.
