(* Spec/ResponseSpec.v — what a terminal sends back, read from the kitty graphics protocol
   ("Responses": the terminal answers  ESC _ G <keys> ; <message> ESC \  where keys are
   comma-separated key=value pairs: i = image id, I = image number, p = placement id; the
   message is OK or an error text) and from ECMA-48 CPR (cursor position report
   ESC [ <row> ; <column> R, both 1-based).

   This file shares nothing with Model/.  It defines how a response is *written* from its
   components and what a reader is *expected* to report for it — directly from the components,
   not by parsing. *)
From Coq Require Import ZArith NArith List Bool.
From Tup Require Import Lib.ByteStr Lib.Dec.
Import ListNotations.
Open Scope N_scope.

Definition APC_G : list N := [27; 95; 71].     (* ESC _ G *)
Definition ST : list N := [27; 92].            (* ESC \  *)
Definition OK : list N := [79; 75].
Definition CSI : list N := [27; 91].           (* ESC [  *)

(* one entry of the key list *)
Inductive item :=
| ImageId (n : N)                               (* i=<n> *)
| ImageNumber (n : N)                           (* I=<n> *)
| PlacementId (n : N)                           (* p=<n> *)
| Extra (k : list N) (v : option (list N)).     (* any other key, with or without =value *)

Definition key_name (it : item) : list N :=
  match it with
  | ImageId _ => [105] | ImageNumber _ => [73] | PlacementId _ => [112]
  | Extra k _ => k
  end.

Definition enc_item (it : item) : list N :=
  match it with
  | ImageId n => [105; 61] ++ dec n
  | ImageNumber n => [73; 61] ++ dec n
  | PlacementId n => [112; 61] ++ dec n
  | Extra k None => k
  | Extra k (Some v) => k ++ [61] ++ v
  end.

Fixpoint join (sep : N) (parts : list (list N)) : list N :=
  match parts with
  | [] => []
  | [p] => p
  | p :: r => p ++ sep :: join sep r
  end.

(* ESC _ G keys [; message] ESC \ *)
Definition enc_response (items : list item) (msg : option (list N)) : list N :=
  APC_G ++ join 44 (map enc_item items)
        ++ (match msg with Some m => 59 :: m | None => [] end) ++ ST.

(* ------------------------------------------------------------------ the expected report *)
Record parsed := mkParsed {
  p_image_id : option N;
  p_image_number : option N;
  p_placement_id : option N;
  p_extras : list (list N * option (list N));    (* in the order written *)
  p_message : list N;                            (* UTF-8 bytes of the text; empty when absent *)
  p_ok : bool;
  p_noise : list N                               (* unrelated bytes that preceded the response *)
}.

Fixpoint find_image_id (l : list item) : option N :=
  match l with [] => None | ImageId n :: _ => Some n | _ :: r => find_image_id r end.
Fixpoint find_image_number (l : list item) : option N :=
  match l with [] => None | ImageNumber n :: _ => Some n | _ :: r => find_image_number r end.
Fixpoint find_placement_id (l : list item) : option N :=
  match l with [] => None | PlacementId n :: _ => Some n | _ :: r => find_placement_id r end.
Fixpoint extras_of (l : list item) : list (list N * option (list N)) :=
  match l with [] => [] | Extra k v :: r => (k, v) :: extras_of r | _ :: r => extras_of r end.

Definition expected (noise : list N) (items : list item) (msg : option (list N)) : parsed :=
  mkParsed (find_image_id items) (find_image_number items) (find_placement_id items)
           (extras_of items)
           (match msg with Some m => m | None => [] end)
           (match msg with Some m => beq_bytes m OK | None => false end)
           noise.

(* ------------------------------------------------------------------ well-formedness *)

(* [noise ++ pat] contains pat only at its very end: noise does not contain the pattern and no
   suffix of noise combines with a prefix of pat into an earlier occurrence *)
Definition first_at_end (pat noise : list N) : Prop :=
  forall pre post, noise ++ pat = pre ++ pat ++ post -> post = [].

(* pat does not occur in l *)
Definition absent (pat l : list N) : Prop := forall pre post, l <> pre ++ pat ++ post.

(* well-formed UTF-8 (Unicode 15 table 3-7 / RFC 3629) *)
Definition cont (b : N) : Prop := 128 <= b <= 191.
Inductive utf8 : list N -> Prop :=
| u_nil : utf8 []
| u_1 b r : b < 128 -> utf8 r -> utf8 (b :: r)
| u_2 b c1 r : 194 <= b <= 223 -> cont c1 -> utf8 r -> utf8 (b :: c1 :: r)
| u_3a c1 c2 r : 160 <= c1 <= 191 -> cont c2 -> utf8 r -> utf8 (224 :: c1 :: c2 :: r)
| u_3b b c1 c2 r : 225 <= b <= 236 \/ 238 <= b <= 239 -> cont c1 -> cont c2 -> utf8 r -> utf8 (b :: c1 :: c2 :: r)
| u_3c c1 c2 r : 128 <= c1 <= 159 -> cont c2 -> utf8 r -> utf8 (237 :: c1 :: c2 :: r)
| u_4a c1 c2 c3 r : 144 <= c1 <= 191 -> cont c2 -> cont c3 -> utf8 r -> utf8 (240 :: c1 :: c2 :: c3 :: r)
| u_4b b c1 c2 c3 r : 241 <= b <= 243 -> cont c1 -> cont c2 -> cont c3 -> utf8 r -> utf8 (b :: c1 :: c2 :: c3 :: r)
| u_4c c1 c2 c3 r : 128 <= c1 <= 143 -> cont c2 -> cont c3 -> utf8 r -> utf8 (244 :: c1 :: c2 :: c3 :: r).

(* a number whose decimal form a reader can be expected to accept: at most 4300 digits
   (CPython's default limit for int()); every 32-bit id qualifies, see ResponseProofs.num_ok_32 *)
Definition num_ok (n : N) : Prop := N.of_nat (length (dec n)) <= 4300.

(* bytes allowed inside keys and values: not ESC, not ',' and not ';' *)
Definition plain (b : N) : Prop := b <> 27 /\ b <> 44 /\ b <> 59.

Definition wf_item (it : item) : Prop :=
  match it with
  | ImageId n | ImageNumber n | PlacementId n => num_ok n
  | Extra k v =>
      Forall (fun b => plain b /\ b <> 61) k /\ utf8 k /\
      k <> [105] /\ k <> [73] /\ k <> [112] /\
      match v with Some v => Forall plain v /\ utf8 v | None => True end
  end.

(* a non-empty key list, every key at most once *)
Definition wf_items (items : list item) : Prop :=
  items <> [] /\ NoDup (map key_name items) /\ Forall wf_item items.

(* the message is text and does not contain the terminator *)
Definition wf_msg (msg : option (list N)) : Prop :=
  match msg with Some m => first_at_end ST m /\ utf8 m | None => True end.

(* ------------------------------------------------------------------ streams of responses *)
Definition unit_ := (list N * list item * option (list N))%type.    (* noise, keys, message *)
Definition wf_unit (u : unit_) : Prop :=
  let '(noise, items, msg) := u in first_at_end APC_G noise /\ wf_items items /\ wf_msg msg.
Definition enc_unit (u : unit_) : list N :=
  let '(noise, items, msg) := u in noise ++ enc_response items msg.
Definition expected_unit (u : unit_) : parsed :=
  let '(noise, items, msg) := u in expected noise items msg.
Definition enc_stream (us : list unit_) : list N := concat (map enc_unit us).

(* a tail in which no complete response arrives: no introducer at all, or an introducer that is
   never followed by a terminator *)
Definition incomplete (tail : list N) : Prop :=
  absent APC_G tail \/
  exists noise body, tail = noise ++ APC_G ++ body /\ first_at_end APC_G noise /\ absent ST body.

(* ------------------------------------------------------------------ cursor position report *)
(* ESC [ row ; column R, 1-based *)
Definition enc_cpr (row col : N) : list N := CSI ++ dec row ++ [59] ++ dec col ++ [82].
