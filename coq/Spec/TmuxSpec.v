(* Spec/Tmux.v — how tmux removes one layer of DCS pass-through (input.c): after
   ESC P "tmux;" bytes are collected until ESC \ ; inside, ESC ESC stands for one ESC.
   An ESC followed by anything else is not something a well-formed pass-through contains:
   the Spec rejects it (tmux itself would silently drop the ESC).  Independent of the model:
   shares no definition with Model/ or Gen/. *)
From Coq Require Import NArith List Bool.
Import ListNotations.
Open Scope N_scope.

Definition dcs_prefix : list N := [27; 80; 116; 109; 117; 120; 59].   (* ESC P t m u x ; *)

Fixpoint scan (l : list N) (acc : list N) : option (list N * list N) :=
  match l with
  | [] => None
  | b :: r =>
      if b =? 27 then
        match r with
        | c :: r' => if c =? 27 then scan r' (27 :: acc)
                     else if c =? 92 then Some (rev acc, r') else None
        | [] => None
        end
      else scan r (b :: acc)
  end.

Fixpoint strip (p l : list N) : option (list N) :=
  match p, l with
  | [], _ => Some l
  | a :: p', b :: l' => if a =? b then strip p' l' else None
  | _ :: _, [] => None
  end.

(* one layer: returns the inner bytes and what follows the terminator *)
Definition unwrap (l : list N) : option (list N * list N) :=
  match strip dcs_prefix l with Some r => scan r [] | None => None end.

(* n layers around exactly one command, nothing trailing *)
Fixpoint unwrapn (n : nat) (l : list N) : option (list N) :=
  match n with
  | O => Some l
  | S k => match unwrap l with Some (x, []) => unwrapn k x | _ => None end
  end.

(* "no lone ESC inside a wrapper": in the body between prefix and terminator every ESC is
   followed by another ESC *)
Fixpoint paired (l : list N) : bool :=
  match l with
  | [] => true
  | b :: r => if b =? 27 then match r with c :: r' => (c =? 27) && paired r' | [] => false end
              else paired r
  end.

(* body of a wrapper = everything between the prefix and the final ESC \ *)
Definition body_of (l : list N) : option (list N) :=
  match strip dcs_prefix l with
  | Some r =>
      let n := length r in
      if Nat.leb 2 n then
        match skipn (n - 2) r with
        | [27; 92] => Some (firstn (n - 2) r)
        | _ => None
        end
      else None
  | None => None
  end.

(* the whole check used as search oracle: n layers unwrap to [expected] and every layer's
   body has only paired ESCs *)
Fixpoint layers_ok (n : nat) (l expected : list N) : bool :=
  match n with
  | O => (fix eqb (a b : list N) := match a, b with
            | [], [] => true | x :: a', y :: b' => (x =? y) && eqb a' b' | _, _ => false end) l expected
  | S k =>
      match body_of l, unwrap l with
      | Some body, Some (x, []) => paired body && layers_ok k x expected
      | _, _ => false
      end
  end.
