(* Spec/ConfigSpec.v — independent reading of what C17 demands of a layered configuration.
   Shares only data types (Lib/CfgTypes.v) and byte-string helpers with the model.

   * [effective]: "the value given by the highest-priority layer that sets it".
   * [conforms]: a value is of the annotated type.  A boolean is not an integer, an integer is not
     a float, a tuple has exactly the annotated arity.  [conforms_loose] additionally admits what the
     same *text* denotes in a TOML file: `1` for a float option, `0`/`1` for a boolean option.
   * [scalar_ty]: the options whose file form is a bare TOML scalar (int / float / bool, possibly
     with a Literal alternative).  For every other option (strings, lists, names of ID spaces,
     subspaces, media, WxH sizes) the file form of an environment text t is the TOML string "t",
     which reaches the code as the same string — there "same text" is literally the same input.
   * [names]: an error message names an option if the option's name occurs in it. *)
From Coq Require Import ZArith NArith List Bool.
From Tup Require Import Lib.ByteStr Lib.CfgTypes.
Import ListNotations.
Open Scope N_scope.

Section Effective.
  Context {Raw Prov : Type}.
  (* last assignment to [o] inside one layer (layers are dictionaries: at most one in practice) *)
  Fixpoint in_layer (o : list N) (l : list (list N * Raw * Prov)) : option (Raw * Prov) :=
    match l with
    | [] => None
    | (o', r, p) :: rest =>
        match in_layer o rest with
        | Some x => Some x
        | None => if beq_bytes o o' then Some (r, p) else None
        end
    end.
  (* layers listed highest priority first *)
  Fixpoint effective (layers : list (list (list N * Raw * Prov))) (o : list N) : option (Raw * Prov) :=
    match layers with
    | [] => None
    | l :: lower => match in_layer o l with Some x => Some x | None => effective lower o end
    end.
End Effective.

Fixpoint conforms (t : ty) (v : value) {struct t} : bool :=
  match t, v with
  | TInt, VInt _ => true
  | TFloat, VFloat _ _ => true
  | TBool, VBool _ => true
  | TStr, VStr _ => true
  | TNone, VNone => true
  | TSpace, VSpace _ _ => true
  | TSub, VSub _ _ => true
  | TMedium, VMedium _ => true
  | TLit s, VStr s' => beq_bytes s' s
  | TUnion l, _ => existsb (fun a => conforms a v) l
  | TList a, VList vs => forallb (conforms a) vs
  | TTuple l, VTuple vs =>
      (fix all2 (l : list ty) (vs : list value) : bool :=
         match l, vs with
         | [], [] => true
         | a :: r, x :: xs => conforms a x && all2 r xs
         | _, _ => false
         end) l vs
  | _, _ => false
  end.

Definition conforms_loose (t : ty) (v : value) : bool :=
  conforms t v ||
  match t, v with
  | TFloat, VInt _ => true
  | TBool, VInt z => (z =? 0)%Z || (z =? 1)%Z
  | _, _ => false
  end.

Definition scalar_base (t : ty) : bool :=
  match t with TInt | TFloat | TBool => true | _ => false end.
Definition scalar_ty (t : ty) : bool :=
  match t with
  | TUnion l => forallb (fun a => scalar_base a || match a with TLit _ => true | _ => false end) l
  | _ => scalar_base t
  end.

Definition is_string (v : value) : bool := match v with VStr _ => true | _ => false end.
Definition names (name msg : list N) : bool := contains_sub name msg.
