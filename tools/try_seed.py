#!/usr/bin/env python3
"""tools/try_seed.py <Cxx> <out-dir-of-the-seeding-agent> [name] [harmless]
Confirms a seeded change (patch.diff + demo) in a fresh scratch worktree of /repo — the suite still passes with it,
the demonstration fails with it and passes without it — then runs ./check Cxx against that worktree (VERIF_REPO) and
records everything under /verif/seeded/<name>/ (patch.diff, demo, meta.json).  The worktree is removed afterwards.
With a fourth argument `harmless` the change is a behaviour-preserving rewrite: its differential demo must pass with and
without it, and a VIOLATION line from the check is then an alarm on code where the property holds (meta: "alarm")."""
import json
import os
import shutil
import subprocess
import sys
import time

V = os.path.dirname(os.path.dirname(os.path.abspath(__file__)))
PY = "/venv/bin/python"


def sh(cmd, cwd=None, env=None, timeout=3600):
    p = subprocess.run(cmd, shell=True, cwd=cwd, env=env, stdout=subprocess.PIPE, stderr=subprocess.STDOUT, timeout=timeout)
    return p.returncode, p.stdout.decode(errors="replace")


def suite(wt):
    rc, out = sh(f"{PY} -m pytest -q -p no:cacheprovider --timeout=900 2>&1 | tail -15", cwd=wt)
    failed = [l for l in out.splitlines() if l.startswith("FAILED")]
    # the only tolerated failures: the 20 ms wall-clock assertion of test_id_manager_disjoint_subspaces
    bad = [l for l in failed if "test_id_manager_disjoint_subspaces" not in l]
    # wall-clock assertions (20 ms) fail under load: a failed test that passes when re-run alone is not a failure
    still = []
    for l in bad:
        tid = l.split()[1]
        ok = False
        for _ in range(2):
            rc2, out2 = sh(f"{PY} -m pytest -q -p no:cacheprovider --timeout=900 '{tid}' 2>&1 | tail -3", cwd=wt)
            if " passed" in out2 and " failed" not in out2:
                ok = True
                break
        if not ok:
            still.append(l)
    bad = still
    summary = [l for l in out.splitlines() if " passed" in l or " failed" in l]
    return (not bad), (summary[-1] if summary else out[-300:]), failed


def run_demo(wt, demo):
    env = dict(os.environ, PYTHONPATH=wt)
    if os.path.basename(demo).startswith("test_"):
        rc, out = sh(f"{PY} -m pytest -q -p no:cacheprovider {demo} 2>&1 | tail -5", cwd=wt, env=env, timeout=900)
        ok = " passed" in out and " failed" not in out and "error" not in out.lower()
        return ok, out[-400:]
    rc, out = sh(f"{PY} {demo}; echo EXIT=$?", cwd=wt, env=env, timeout=900)
    ok = out.strip().endswith("EXIT=0")
    return ok, out[-400:]


def main():
    prop, outdir = sys.argv[1], sys.argv[2]
    name = sys.argv[3] if len(sys.argv) > 3 else prop
    harmless = len(sys.argv) > 4 and sys.argv[4] == "harmless"
    patch = os.path.join(outdir, "patch.diff")
    demo = next((os.path.join(outdir, f) for f in ("demo.py", "test_demo.py") if os.path.exists(os.path.join(outdir, f))), None)
    notes = {}
    if os.path.exists(os.path.join(outdir, "notes.json")):
        try:
            notes = json.load(open(os.path.join(outdir, "notes.json")))
        except Exception as e:  # noqa
            notes = {"unparsable": str(e)}
    wt = f"/tmp/scratch/seedcheck-{name}"
    sh(f"git -C /repo worktree remove --force {wt}")
    shutil.rmtree(wt, ignore_errors=True)
    os.makedirs("/tmp/scratch", exist_ok=True)
    rc, out = sh(f"git -C /repo worktree add --detach {wt}")
    assert rc == 0, out
    meta = {"property": prop, "name": name, "notes_from_author": notes, "repo_head": sh("git -C /repo rev-parse --short HEAD")[1].strip(), "ran": []}
    try:
        demo_in_wt = os.path.join(wt, os.path.basename(demo)) if demo else None
        if demo:
            shutil.copy(demo, demo_in_wt)
        ok_without, out_without = run_demo(wt, demo_in_wt) if demo else (None, "no demo")
        meta["ran"].append({"what": "demo without the change", "passes": ok_without, "tail": out_without})
        rc, out = sh(f"git apply {patch}", cwd=wt)
        meta["ran"].append({"what": "git apply patch.diff", "rc": rc, "out": out[-300:]})
        if rc != 0:
            meta["confirmed"] = False
            return finish(meta, name, patch, demo)
        ok_with, out_with = run_demo(wt, demo_in_wt) if demo else (None, "no demo")
        meta["ran"].append({"what": "demo with the change", "passes": ok_with, "tail": out_with})
        if demo_in_wt:
            os.remove(demo_in_wt)
        suite_ok, summ, failed = suite(wt)
        meta["ran"].append({"what": "repository test-suite with the change", "ok": suite_ok, "summary": summ, "failed": failed[:6]})
        meta["confirmed"] = bool(suite_ok and ok_without and (ok_with is True if harmless else ok_with is False))
        if harmless:
            meta["kind"] = "harmless"
        t = time.time()
        env = dict(os.environ, VERIF_REPO=wt)
        rc, out = sh(f"./check {prop}", cwd=V, env=env, timeout=7200)
        lines = [l for l in out.splitlines() if l.startswith("VIOLATION") or l.startswith("OK ") or l.startswith("KNOWN-FINDING")]
        meta["check"] = {"cmd": f"VERIF_REPO={wt} ./check {prop}", "exit": rc, "lines": [l[:300] for l in lines], "wall_s": round(time.time() - t, 1)}
        meta["detected"] = rc == 1 and any(l.startswith("VIOLATION") for l in lines)
        # which channels fired: read the replay
        chans = set()
        for l in lines:
            if "replay=" in l:
                path = l.split("replay=")[1].split()[0]
                try:
                    r = json.load(open(path))
                    if r.get("kind") == "counterexample":
                        chans.add("concrete failing input (Spec oracle on the implementation)")
                    for b in r.get("also_broken", []) + r.get("no_longer_checks", []):
                        chans.add(b.get("kind", "?"))
                    meta.setdefault("replays", []).append({"path": os.path.basename(path), "what": r.get("what", r.get("note", ""))[:300], "signature": r.get("signature")})
                except Exception:  # noqa
                    pass
        meta["channels"] = sorted(chans)
        if harmless:
            meta["alarm"] = meta.pop("detected")
            meta["alarm_has_concrete_input"] = any(c.startswith("concrete") for c in chans)
    finally:
        sh(f"git -C /repo worktree remove --force {wt}")
        shutil.rmtree(wt, ignore_errors=True)
        # rebuild Gen/ from the real repository so that later runs start clean
        sh(os.path.join(V, "tools", "build.sh"))
    finish(meta, name, patch, demo)


def finish(meta, name, patch, demo):
    d = os.path.join(V, "seeded", name)
    os.makedirs(d, exist_ok=True)
    shutil.copy(patch, os.path.join(d, "patch.diff"))
    if demo:
        shutil.copy(demo, os.path.join(d, os.path.basename(demo)))
    json.dump(meta, open(os.path.join(d, "meta.json"), "w"), indent=1)
    print(json.dumps({k: meta.get(k) for k in ("property", "kind", "confirmed", "detected", "alarm", "channels") if k in meta}), meta.get("check", {}).get("lines"))


if __name__ == "__main__":
    main()
