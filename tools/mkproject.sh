#!/bin/sh
# regenerate coq/_CoqProject and coq/Makefile from the files present
cd "$(dirname "$0")/../coq" || exit 1
{ echo "-Q . Tup"; find Lib Spec Gen Model Proofs Props -name '*.v' | LC_ALL=C sort; } > _CoqProject.new
if ! cmp -s _CoqProject.new _CoqProject 2>/dev/null; then mv _CoqProject.new _CoqProject; coq_makefile -f _CoqProject -o Makefile >/dev/null; else rm _CoqProject.new; fi
[ -f Makefile ] || coq_makefile -f _CoqProject -o Makefile >/dev/null
