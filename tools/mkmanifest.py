#!/usr/bin/env python3
"""Assemble MANIFEST.json from manifest.d/*.json (one fragment per claimed property) and
manifest.d/not_applicable.json."""
import glob, json, os
V = os.path.join(os.path.dirname(os.path.abspath(__file__)), "..")
checks = []
for p in sorted(glob.glob(os.path.join(V, "manifest.d", "C*.json"))):
    f = json.load(open(p))
    pid = f["property_id"]
    c = {
        "property_id": pid,
        "quick_cmd": f.get("quick_cmd", f"./check {pid} --tier quick"),
        "thorough_cmd": f.get("thorough_cmd", f"./check {pid} --tier thorough"),
        "evidence_file": f"/verif/evidence/{pid}.json",
        "replay_cmd_template": f"./check {pid} --replay {{path}}",
        "engine": "coq-proof+correspondence",
        "level_claimed": f["level_claimed"],
        "level_note": f["level_note"],
        "technique": f.get("technique", "Coq proof + model/implementation correspondence"),
    }
    checks.append(c)
na_path = os.path.join(V, "manifest.d", "not_applicable.json")
na = json.load(open(na_path)) if os.path.exists(na_path) else []
claimed = {c["property_id"] for c in checks}
na = [x for x in na if x["property_id"] not in claimed]
m = {
    "version": 1,
    "setup_cmd": "tools/setup.sh",
    "hooks": {
        "guard": "TUPIMAGE_VERIF",
        "enable": "no source hooks are needed: the harness replaces module attributes (clock, secrets, sqlite3 connection, streams) from outside; the guard variable is reserved and read by nothing in /repo",
        "baseline_off_cmd": "cd /repo && env -u TUPIMAGE_VERIF /venv/bin/python -m pytest -ra -q -p no:cacheprovider --timeout=900 --continue-on-collection-errors",
        "source_commits": [],
        "add_only": True,
    },
    "engines": [{
        "name": "coq-proof+correspondence",
        "path": "/verif/check",
        "serves_properties": sorted(claimed),
        "kind_free_text": "Coq 8.16.1 development (coq/) with tables regenerated from /repo on every run, Print Assumptions per property, extracted OCaml model (ocaml/) compared with the running implementation by harness/cXX.py; Spec-side oracles search for a failing input when a proof or the correspondence breaks",
    }],
    "checks": checks,
    "not_applicable": na,
    "notes": "See DESIGN.md. Every check rebuilds from /repo's working tree: harness/gen_tables.py -> coq/Gen, make (full .vo), extraction, OCaml build, then runs the implementation in-process from /repo.",
}
json.dump(m, open(os.path.join(V, "MANIFEST.json"), "w"), indent=1)
print("claimed:", sorted(claimed), "not_applicable:", [x["property_id"] for x in na])
