#!/bin/sh
# setup_cmd: clean, offline build of the whole development (Coq .vo, extraction, OCaml model runner).
V="$(cd "$(dirname "$0")/.." && pwd)"
rm -rf "$V/_build" "$V/_work" "$V/ocaml/gen" "$V/ocaml/build" "$V/coq/Gen"
find "$V/coq" \( -name '*.vo' -o -name '*.vok' -o -name '*.vos' -o -name '*.glob' -o -name '.*.aux' \) -delete
rm -f "$V/coq/Makefile" "$V/coq/Makefile.conf" "$V/coq/_CoqProject" "$V/coq/.Makefile.d" "$V/coq/Extract/Extract.v"
mkdir -p "$V/evidence" "$V/replays"
"$V/tools/build.sh" /repo
rc=$?
tail -5 "$V/_build/build.log"
echo "setup: build.sh rc=$rc"
[ $rc -eq 0 ]
