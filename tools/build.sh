#!/bin/sh
# tools/build.sh [repo]  — regenerate Gen/ from the repo, build Coq (.vo, full), extract, build modelrun.
# Exit codes: 0 all built; 2 extractor failed (tie broken); 3 model/spec/extraction failed; 4 a proof file failed
# (modelrun is still built in case 4).  Serialised by flock.
V="$(cd "$(dirname "$0")/.." && pwd)"
REPO="${1:-${VERIF_REPO:-/repo}}"
exec 9>"$V/.build.lock"; flock 9
mkdir -p "$V/_build"
LOG="$V/_build/build.log"; : > "$LOG"
# the caller's private copies of gen.json / build.log, made while the lock is still held (checks may run in parallel)
if [ -n "$VERIF_BUILD_OUT" ]; then
  trap 'cp "$V/_build/gen.json" "$VERIF_BUILD_OUT.gen.json" 2>/dev/null; cp "$LOG" "$VERIF_BUILD_OUT.log" 2>/dev/null' EXIT
fi
rc=0
/venv/bin/python "$V/harness/gen_tables.py" "$REPO" "$V/coq/Gen" > "$V/_build/gen.json" 2>>"$LOG" || rc=2
DEPS=$(/venv/bin/python "$V/tools/mkextract.py") || exit 3
"$V/tools/mkproject.sh" || exit 3
cd "$V/coq" || exit 3
if ! timeout 1800 make -j16 $DEPS >>"$LOG" 2>&1; then echo "model build failed" >>"$LOG"; exit 3; fi
# extraction (Separate Extraction writes into the cwd)
mkdir -p "$V/ocaml/gen" "$V/ocaml/build"
NEED=0
[ -x "$V/ocaml/build/modelrun" ] || NEED=1
for f in $DEPS Extract/Extract.v; do [ "$f" -nt "$V/ocaml/build/modelrun" ] && NEED=1; done
for f in "$V"/ocaml/*.ml; do [ "$f" -nt "$V/ocaml/build/modelrun" ] && NEED=1; done
if [ $NEED -eq 1 ]; then
  rm -rf "$V/ocaml/gen" "$V/ocaml/build"; mkdir -p "$V/ocaml/gen" "$V/ocaml/build"
  ( cd "$V/ocaml/gen" && timeout 600 coqc -Q "$V/coq" Tup "$V/coq/Extract/Extract.v" >>"$LOG" 2>&1 ) || { echo "extraction failed" >>"$LOG"; exit 3; }
  rm -f "$V/coq/Extract/Extract.vo" "$V/coq/Extract/Extract.glob" "$V"/coq/Extract/.Extract.aux "$V/coq/Extract/Extract.vok" "$V/coq/Extract/Extract.vos"
  cp "$V"/ocaml/gen/*.ml "$V"/ocaml/gen/*.mli "$V"/ocaml/*.ml "$V/ocaml/build/" 2>/dev/null
  ( cd "$V/ocaml/build" && FILES=$(ocamlfind ocamldep -sort *.mli *.ml | tr ' ' '\n' | grep -v '^main.ml$' | tr '\n' ' ') && \
    timeout 600 ocamlfind ocamlopt -w -a -O3 $FILES main.ml -o modelrun >>"$LOG" 2>&1 || \
    timeout 600 ocamlfind ocamlopt -w -a $FILES main.ml -o modelrun >>"$LOG" 2>&1 ) || { echo "ocaml build failed" >>"$LOG"; exit 3; }
fi
# everything else (Proofs, Props).  -k: keep going so that one broken proof does not hide the others.
cd "$V/coq" || exit 3
if ! timeout 3000 make -k -j16 >>"$LOG" 2>&1; then [ $rc -eq 0 ] && rc=4; fi
exit $rc
