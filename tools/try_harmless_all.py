#!/usr/bin/env python3
"""tools/try_harmless_all.py <name> <out-dir-of-the-agent>
A behaviour-preserving rewrite of code that several properties flow through (the high-level object, the CLI): confirm it
(suite passes, differential demo passes with and without it) in a scratch worktree, then run EVERY check against that
worktree (four at a time: same tree, so they may overlap) and record per property whether it stayed quiet, raised the
prescribed `no-failing-input-found` report (a tie no longer recognises the code) or — the thing to look for — produced a
concrete counterexample, a broken correspondence or a broken proof on code where the properties hold.
Writes /verif/seeded/<name>/ (patch.diff, demo.py, meta.json with "kind": "harmless-all")."""
import concurrent.futures
import json
import os
import shutil
import subprocess
import sys

V = os.path.dirname(os.path.dirname(os.path.abspath(__file__)))
sys.path.insert(0, os.path.join(V, "tools"))
import try_seed  # noqa: E402


def one_check(prop, wt):
    env = dict(os.environ, VERIF_REPO=wt)
    p = subprocess.run(f"./check {prop}", shell=True, cwd=V, env=env, stdout=subprocess.PIPE, stderr=subprocess.STDOUT, timeout=7200)
    out = p.stdout.decode(errors="replace")
    lines = [l for l in out.splitlines() if l.startswith("VIOLATION") or l.startswith("OK ")]
    chans = set()
    whats = []
    for l in lines:
        if "replay=" in l:
            path = l.split("replay=")[1].split()[0]
            try:
                r = json.load(open(path))
                if r.get("kind") == "counterexample":
                    chans.add("concrete")
                    whats.append(r.get("what", "")[:300])
                for b in r.get("also_broken", []) + r.get("no_longer_checks", []):
                    chans.add(b.get("kind", "?"))
                    if b.get("kind") != "broken-tie":
                        whats.append((b.get("what") or "")[:300])
            except Exception:  # noqa
                pass
    return prop, {"exit": p.returncode, "lines": [l[:200] for l in lines], "channels": sorted(chans), "what": whats[:3]}


def main():
    name, outdir = sys.argv[1], sys.argv[2]
    patch = os.path.join(outdir, "patch.diff")
    demo = os.path.join(outdir, "demo.py")
    notes = {}
    try:
        notes = json.load(open(os.path.join(outdir, "notes.json")))
    except Exception:  # noqa
        pass
    wt = f"/tmp/scratch/harmless-{name}"
    try_seed.sh(f"git -C /repo worktree remove --force {wt}")
    shutil.rmtree(wt, ignore_errors=True)
    os.makedirs("/tmp/scratch", exist_ok=True)
    rc, out = try_seed.sh(f"git -C /repo worktree add --detach {wt}")
    assert rc == 0, out
    meta = {"name": name, "kind": "harmless-all", "notes_from_author": notes, "ran": []}
    try:
        # the demo may bring helper files (expected traces): copy the whole out dir next to it
        dd = os.path.join(wt, "_demo")
        shutil.copytree(outdir, dd)
        d_in = os.path.join(dd, "demo.py")
        ok0, o0 = try_seed.run_demo(wt, d_in) if os.path.exists(demo) else (None, "no demo")
        rc, out = try_seed.sh(f"git apply {patch}", cwd=wt)
        meta["ran"].append({"what": "git apply", "rc": rc, "out": out[-200:]})
        ok1, o1 = try_seed.run_demo(wt, d_in) if os.path.exists(demo) else (None, "no demo")
        shutil.rmtree(dd, ignore_errors=True)
        suite_ok, summ, failed = try_seed.suite(wt)
        meta["ran"] += [{"what": "demo without", "passes": ok0, "tail": o0[-200:]}, {"what": "demo with", "passes": ok1, "tail": o1[-200:]},
                        {"what": "suite", "ok": suite_ok, "summary": summ}]
        meta["confirmed"] = bool(rc == 0 and suite_ok and ok0 and ok1)
        try_seed.sh(os.path.join(V, "tools", "build.sh") + " " + wt)
        props = [f"C{i:02d}" for i in range(1, 20)]
        res = {}
        with concurrent.futures.ThreadPoolExecutor(max_workers=4) as ex:
            for prop, r in ex.map(lambda p: one_check(p, wt), props):
                res[prop] = r
        meta["checks"] = res
        meta["quiet"] = sorted(p for p, r in res.items() if r["exit"] == 0)
        meta["tie_only"] = sorted(p for p, r in res.items() if r["exit"] != 0 and r["channels"] == ["broken-tie"])
        meta["false_alarms"] = sorted(p for p, r in res.items() if r["exit"] != 0 and r["channels"] != ["broken-tie"])
    finally:
        try_seed.sh(f"git -C /repo worktree remove --force {wt}")
        shutil.rmtree(wt, ignore_errors=True)
        try_seed.sh(os.path.join(V, "tools", "build.sh"))
    d = os.path.join(V, "seeded", name)
    os.makedirs(d, exist_ok=True)
    shutil.copy(patch, os.path.join(d, "patch.diff"))
    if os.path.exists(demo):
        shutil.copy(demo, os.path.join(d, "demo.py"))
    json.dump(meta, open(os.path.join(d, "meta.json"), "w"), indent=1)
    print(json.dumps({k: meta.get(k) for k in ("name", "confirmed", "quiet", "tie_only", "false_alarms")}))
    for p in meta.get("false_alarms", []):
        print("  FALSE ALARM", p, meta["checks"][p]["channels"], meta["checks"][p]["what"][:2])


if __name__ == "__main__":
    main()
