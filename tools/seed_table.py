#!/usr/bin/env python3
"""tools/seed_table.py -> markdown table of seeded/<name>/meta.json (for DESIGN.md 0.6)"""
import glob, json, os
V = os.path.join(os.path.dirname(os.path.abspath(__file__)), "..")
short = {"concrete failing input (Spec oracle on the implementation)": "counterexample", "broken-correspondence": "corr", "broken-tie": "tie", "broken-proof": "proof"}
print("| seed | property | change (author's words) | needs | confirmed | `./check` exit 1 | channels |")
print("|---|---|---|---|---|---|---|")
for p in sorted(glob.glob(os.path.join(V, "seeded", "*", "meta.json"))):
    m = json.load(open(p))
    if str(m.get("kind", "")).startswith("harmless"):
        continue     # behaviour-preserving rewrites (round 6): summarised in DESIGN.md 0.6, not breaking changes
    n = m.get("notes_from_author", {}) or {}
    def cell(s):
        return " ".join(str(s).replace("|", "/").split())[:150]
    ch = "+".join(short.get(c, c) for c in m.get("channels", []))
    print(f"| {m.get('name')} | {m.get('property')} | {cell(n.get('summary', n.get('change', '')))} | {cell(n.get('needs', ''))} | {'yes' if m.get('confirmed') else 'NO'} | {'yes' if m.get('detected') else 'NO'} | {ch} |")
