"""C09 — a failed or interrupted transmission is never recorded as uploaded.
Fault enumeration against the real TupimageTerminal.upload in a pty sandbox: the command stream raises OSError at
the j-th write/flush call, for EVERY j of the transmission, both upload methods, payloads giving 1..many chunks,
fresh and previously recorded ids, forced and unforced requests; plus process death (os._exit) at the same points.
Observed: exception type, calls that completed (with their bytes), upload table, what the retry transmits.
Correspondence: Model.UploadFlow.upload.  Oracle (independent of the model): the three sentences of the property."""
import datetime as _dt
import os
import sqlite3

import common
from c04 import BASE, Clock, Tokens, from_us, install_clock, to_us

GEN_DEPS = ("gen_uploadflow", "gen_commands", "gen_idmanager", "gen_system")  # gen_system pins _upload / _transmit_file (every route of a transmission)
ASSUMPTIONS = [
    "the stream contract: a failing write/flush raises and nothing after it happens; process death = no further statement runs (sqlite autocommit statements already executed stay committed)",
    "the escapes written are those of GraphicsCommand.send (property C05); here they are a parameter",
]
TRUSTED = ["FaultyStream (raises OSError at the j-th call on the command stream)", "patched clock tupimage.id_manager.datetime", "ocaml/drv_c09.ml"]


EXC_OF = {"EIO": "OSError", "EPIPE": "BrokenPipeError", "ENOSPC": "OSError", "closed": "ValueError", "EAGAIN": "BlockingIOError"}


class FaultyStream:
    def __init__(self, fail_at=None, die=False, probe=None, error="EIO", once=False):
        self.calls = []  # ("w", bytes) | ("f",)
        self.once = once          # a transient fault: only the first attempt of that call fails, a repetition goes through
        self.fired = False
        self.fail_at = fail_at
        self.die = die
        self.error = error
        self.probe = probe
        self.probe_log = []
        self._null = open(os.devnull, "wb")

    def _tick(self, kind, data=None):
        if self.probe is not None:
            self.probe_log.append(self.probe())
        if self.fail_at is not None and len(self.calls) == self.fail_at and not (self.once and self.fired):
            self.fired = True
            if self.die:
                os._exit(77)
            # the ways a stream fails: an I/O error, the reader of a pipe gone (BrokenPipeError), the device full, a
            # stream that was closed under the writer (ValueError: I/O operation on closed file)
            if self.error == "EPIPE":
                raise BrokenPipeError(32, "Broken pipe")
            if self.error == "ENOSPC":
                raise OSError(28, "No space left on device")
            if self.error == "closed":
                raise ValueError("I/O operation on closed file.")
            if self.error == "EAGAIN":
                raise BlockingIOError(11, "Resource temporarily unavailable")   # a non-blocking stream whose reader does not drain it
            raise OSError(5, "injected I/O error")
        self.calls.append((kind, data))

    def write(self, b):
        self._tick("w", bytes(b))
        return len(b)

    def flush(self):
        self._tick("f")

    def writelines(self, lines):
        for line in lines:
            self.write(line)

    def isatty(self):
        return False

    def writable(self):
        return True

    def fileno(self):
        return self._null.fileno()


def child_main(work, plan):
    """Runs inside the pty sandbox. plan: list of case dicts. Returns list of observations."""
    common.scrub_process_env()
    os.environ["HOME"] = work
    os.environ["XDG_STATE_HOME"] = os.path.join(work, "state")
    os.environ["XDG_CONFIG_HOME"] = os.path.join(work, "config")
    import tupimage
    import tupimage.id_manager as idm
    from PIL import Image

    clock = Clock()

    class AutoClock(Clock):
        def now(self):
            self.now_us += 1
            return from_us(self.now_us)

    clock = AutoClock()
    clock.now_us = 10**6
    install_clock(idm, clock)
    # images
    imgs = {}
    import random as _random
    noise = _random.Random(5)
    for name, (w, h) in {"tiny": (2, 2), "small": (10, 10), "big": (36, 36)}.items():
        p = os.path.join(work, f"{name}.png")
        if not os.path.exists(p):
            im = Image.new("RGB", (w, h))
            im.putdata([(noise.randrange(256), noise.randrange(256), noise.randrange(256)) for x in range(w * h)])
            im.save(p)
        imgs[name] = p
    # further routes of TupimageTerminal._upload: a JPEG on disk (not a supported format: converted, sent through a
    # tty-graphics-protocol-* temporary file or inline), an in-memory PIL image (never has a file of its own)
    pj = os.path.join(work, "photo.jpg")
    if not os.path.exists(pj):
        Image.open(imgs["small"]).save(pj, format="JPEG")
    imgs["jpeg"] = pj
    mem = Image.new("RGB", (6, 5))
    mem.putdata([(noise.randrange(256), noise.randrange(256), noise.randrange(256)) for x in range(30)])
    imgs["mem"] = mem
    import tempfile
    tempfile.tempdir = work          # temporary files of the file route land in the sandbox directory
    out = []
    tty_in = open("/dev/tty", "rb", buffering=0)
    for ci, case in enumerate(plan):
        db = os.path.join(work, f"c09-{os.getpid()}-{ci}.db")
        for suffix in ("", "-wal", "-shm"):
            try:
                os.remove(db + suffix)
            except OSError:
                pass

        def mk(stream):
            return tupimage.TupimageTerminal(
                out_command=stream, out_display=common.RecStream(), in_response=tty_in, id_database=db, terminal_id="term-X",
                config="DEFAULT", id_space="8bit", id_subspace="10:12", upload_method=case["method"],
                max_command_size=case["max_command_size"], redetect_terminal=False)

        obs = {"case": case}
        # pre-state
        ref_stream = FaultyStream()
        t0 = mk(ref_stream)
        if case["previous"]:
            t0.upload(imgs[case["image"]], force_upload=True)
        # reference transmission (what a complete upload writes), on a scratch database copy semantics: use force on a second terminal id
        ref2 = FaultyStream()
        t_ref = tupimage.TupimageTerminal(out_command=ref2, out_display=common.RecStream(), in_response=tty_in, id_database=db, terminal_id="term-REF",
                                          config="DEFAULT", id_space="8bit", id_subspace="10:12", upload_method=case["method"],
                                          max_command_size=case["max_command_size"], redetect_terminal=False)
        inst = t_ref.upload(imgs[case["image"]], force_upload=True)
        obs["ref_calls"] = [(k, None if d is None else d.hex()) for k, d in ref2.calls]
        obs["id"] = inst.id
        conn = sqlite3.connect(db)

        def table():
            return sorted(conn.execute("SELECT id, terminal, description, size, upload_time FROM upload").fetchall())

        def binding():
            r = conn.execute("SELECT description FROM ids_8bit WHERE id=?", (inst.id,)).fetchone()
            return None if r is None else r[0]

        obs["table_before"] = table()
        obs["binding"] = binding()
        j = case["fail_at"]
        obs["needs_before"] = mk(FaultyStream()).needs_uploading(inst.id)
        if case["die"]:
            pid = os.fork()
            if pid == 0:
                try:
                    s = FaultyStream(fail_at=j, die=True, error=case.get("error", "EIO"))
                    t = mk(s)
                    t.upload(imgs[case["image"]], force_upload=case["force"])
                finally:
                    os._exit(0)
            _, status = os.waitpid(pid, 0)
            obs["exc"] = "died" if os.WEXITSTATUS(status) == 77 else "exit-%d" % os.WEXITSTATUS(status)
            obs["calls"] = None
            obs["probe"] = []
        else:
            probe_conn = sqlite3.connect(db)
            s = FaultyStream(fail_at=j, error=case.get("error", "EIO"), once=bool(case.get("once")), probe=lambda: probe_conn.execute("SELECT upload_time FROM upload WHERE id=? AND terminal='term-X'", (inst.id,)).fetchone())
            t = mk(s)
            try:
                t.upload(imgs[case["image"]], force_upload=case["force"])
                obs["exc"] = None
            except BaseException as e:  # noqa
                obs["exc"] = type(e).__name__
            obs["calls"] = [(k, None if d is None else d.hex()) for k, d in s.calls]
            obs["probe"] = [None if p is None else p[0] for p in s.probe_log]
            probe_conn.close()
        obs["table_after"] = table()
        # the next request (not forced)
        s2 = FaultyStream()
        t2 = mk(s2)
        obs["needs_after"] = t2.needs_uploading(inst.id)
        t2.upload(imgs[case["image"]])
        obs["retry_calls"] = [(k, None if d is None else d.hex()) for k, d in s2.calls]
        obs["table_retry"] = table()
        conn.close()
        out.append(obs)
        for suffix in ("", "-wal", "-shm"):
            try:
                os.remove(db + suffix)
            except OSError:
                pass
    return out


def plan_cases(ctx):
    rng = ctx.rng
    shapes = [("file", "tiny", None), ("direct", "tiny", None), ("direct", "small", 300), ("direct", "big", 600), ("direct", "big", 300),
              # the other routes of _upload: temporary file (in-memory image, converted JPEG), inline from memory
              ("file", "mem", None), ("file", "jpeg", None), ("direct", "mem", 300), ("direct", "jpeg", 400)]
    if not ctx.quick():
        shapes += [("direct", "big", 200), ("direct", "small", 160), ("file", "big", 300), ("file", "jpeg", 300), ("direct", "mem", 160)]
    plan = []
    for method, image, mcs in shapes:
        for previous in (False, True):
            for force in ((True, False) if previous else (False,)):
                plan.append({"method": method, "image": image, "max_command_size": mcs or 4096, "previous": previous, "force": force, "fail_at": None, "die": False, "probe_only": True})
    return plan


def run(ctx, model):
    cov = common.Coverage("case = (upload method, image, max_command_size => number of chunks, previously recorded?, forced?, fault position j, raise|die); every j of every transmission is enumerated; non-trivial = the fault hits after at least one completed call; distinct by hash")
    if model is None:
        return cov
    work = ctx.work
    # phase 1: fault-free runs to learn the number of calls per shape
    base = plan_cases(ctx)
    r = common.in_pty(lambda: child_main(work, base), timeout=600)
    if "ok" not in r:
        ctx.corr_breaks.append({"what": "fault-free reference runs failed in the pty sandbox", "error": {k: v for k, v in r.items() if k != "tty"}})
        return cov
    plan = []
    for case, obs in zip(base, r["ok"]):
        n_calls = len(obs["ref_calls"])
        if not case["previous"] or case["force"]:
            js = list(range(n_calls))
        else:
            js = [0]  # an unforced request for a recorded image transmits nothing: a single run shows it
        if ctx.quick() and n_calls > 12:
            js = sorted(set(js[:5] + js[-4:] + ctx.rng.sample(js, min(4, len(js)))))
        for j in js:
            plan.append(dict(case, fail_at=j, die=False, probe_only=False))
            if j in (js[0], js[len(js) // 2], js[-1]) or not ctx.quick():
                for err in ("EPIPE", "ENOSPC", "closed", "EAGAIN"):
                    plan.append(dict(case, fail_at=j, die=False, probe_only=False, error=err))
                # a transient fault (the same call would succeed if repeated): the error still reaches the caller
                plan.append(dict(case, fail_at=j, die=False, probe_only=False, once=True))
            if (not ctx.quick() or j in (js[0], js[len(js) // 2], js[-1])):
                plan.append(dict(case, fail_at=j, die=True, probe_only=False))
    # phase 2: all fault points (split into a few sandbox runs)
    results = list(zip(base, r["ok"]))
    chunk = 60
    for i in range(0, len(plan), chunk):
        part = plan[i:i + chunk]
        rr = common.in_pty(lambda part=part: child_main(work, part), timeout=900)
        if "ok" not in rr:
            ctx.corr_breaks.append({"what": "fault runs failed in the pty sandbox", "error": {k: v for k, v in rr.items() if k != "tty"}})
            return cov
        results += list(zip(part, rr["ok"]))
    toks = Tokens()
    reqs = []
    for case, obs in results:
        hist = []
        if obs["binding"] is not None:
            hist.append(f"B:{obs['id']}:{toks.tok(obs['binding'])}")
        for (i, t, d, size, time) in obs["table_before"]:
            # rows are installed with the binding current at that time: bind, mark, rebind
            hist.append(f"B:{i}:{toks.tok(d)}")
            hist.append(f"M:{i}:{toks.tok(t)}:{size}:{to_us(_dt.datetime.fromisoformat(time))}")
        if obs["binding"] is not None:
            hist.append(f"B:{obs['id']}:{toks.tok(obs['binding'])}")
        rows_x = [row for row in obs["table_after"] if row[0] == obs["id"] and row[1] == "term-X"]
        marktime = to_us(_dt.datetime.fromisoformat(rows_x[0][4])) if rows_x else 0
        size = rows_x[0][3] if rows_x else 0
        nwrites = sum(1 for k, _ in obs["ref_calls"] if k == "w")
        now = 2 * 10**6
        fail = -1 if case["fail_at"] is None else case["fail_at"]
        reqs.append(f"c09.upload {1 if case['force'] else 0} {obs['id']} {toks.tok('term-X')} {size} {marktime} {now} 1024 {20 * 2**20} {3600 * 10**6} {nwrites} {fail} " + " ".join(hist))
    reps = model.batch(reqs)
    for (case, obs), rep in zip(results, reps):
        head, table = rep.split(";")
        outcome, performed = head.split()
        mtable = sorted(tuple(int(x) for x in row.split(",")) for row in table.split("|") if row)
        itable = sorted((row[0], toks.tok(row[1]), toks.tok(row[2]), row[3], to_us(_dt.datetime.fromisoformat(row[4]))) for row in obs["table_after"])
        ref = obs["ref_calls"]
        j = case["fail_at"]
        wanted = case["force"] or obs.get("needs_before", True)
        label = {k: case[k] for k in ("method", "image", "max_command_size", "previous", "force", "fail_at", "die")}
        label["error"] = case.get("error", "EIO")
        if case.get("once"):
            label["once"] = True
        label["calls_in_full_transmission"] = len(ref)
        cov.add(label, nontrivial=j is not None and j > 0, klass=f"{case['method']}/calls={len(ref)}/prev={int(case['previous'])}/force={int(case['force'])}/" + ("nofault" if j is None else "die" if case["die"] else "raise"))
        # ---- correspondence
        if case["die"]:
            iout = "FAILED" if obs["exc"] == "died" else ("UPLOADED" if wanted else "SKIPPED")
        else:
            iout = "FAILED" if obs["exc"] == EXC_OF[case.get("error", "EIO")] else ("SKIPPED" if (obs["exc"] is None and not obs["calls"]) else "UPLOADED" if obs["exc"] is None else "EXC-" + str(obs["exc"]))
        if iout != outcome or mtable != itable or (obs["calls"] is not None and len(obs["calls"]) != int(performed)):
            ctx.corr_breaks.append({"what": "outcome / completed calls / upload table differ from Model.UploadFlow.upload", "case": label,
                                    "impl": [iout, None if obs["calls"] is None else len(obs["calls"]), itable], "model": [outcome, performed, mtable]})
        # the name of a temporary file differs from run to run (same length): compare kinds and lengths there
        tmp_route = case["method"] == "file" and case["image"] in ("mem", "jpeg")
        shape = (lambda cs: [(k, None if d is None else len(d)) for k, d in cs]) if tmp_route else (lambda cs: list(cs))
        if obs["calls"] is not None and shape(obs["calls"]) != shape(ref[:len(obs["calls"])]):
            ctx.corr_breaks.append({"what": "calls completed before the fault are not a prefix of the full transmission", "case": label})
        # ---- oracle: the property's sentences on the implementation's behaviour
        fault_hit = (j is not None) and wanted and j < len(ref)
        vio = None
        if fault_hit:
            if not case["die"] and obs["exc"] != EXC_OF[case.get("error", "EIO")]:
                vio = ("error-not-propagated", f"the injected I/O error at call {j} did not reach the caller (got {obs['exc']})")
            elif any(row[0] == obs["id"] and row[1] == "term-X" for row in obs["table_after"]) or not obs["needs_after"]:
                vio = ("recorded-despite-failed-transmission", f"after a transmission that failed at call {j} of {len(ref)} the database still records the image as uploaded to the terminal (needs_uploading={obs['needs_after']})")
            elif shape([c for c in obs["retry_calls"] if c[0] == "w"]) != shape([c for c in ref if c[0] == "w"]):
                vio = ("retry-not-in-full", "the next request did not transmit the image again in full")
        if vio is None and wanted and ref and (ref[-1][0] != "f" or any(a[0] == "w" and b[0] != "f" for a, b in zip(ref, ref[1:] + [("end",)]))):
            vio = ("recorded-before-last-flush", "a complete transmission does not flush after its last write (or after some write): the upload is recorded although the last bytes may still sit in a buffer")
        if vio is None and obs["probe"]:
            # during the calls of a transmission the (new) record must not exist yet
            before_times = {row[4] for row in obs["table_before"] if row[0] == obs["id"] and row[1] == "term-X"}
            for k, p in enumerate(obs["probe"]):
                if p is not None and p not in before_times:
                    vio = ("recorded-before-last-flush", f"a new upload record exists already at call {k} of the transmission")
                    break
        if vio:
            ctx.violations.append({"signature": {"class": vio[0], "forced": case["force"], "previous": case["previous"]}, "what": vio[1], "case": {"kind": "fault", **label}})
    slow_reader(ctx, cov)
    return cov


def slow_reader_child(work):
    """The command stream given as a PATH (a FIFO, the slave side of a pty) whose reader is slower than the writer: an
    inline upload much larger than the kernel's buffer.  Either every byte of the transmission arrives and the upload is
    recorded, or the caller gets an error and nothing is recorded."""
    import threading
    import time as _t
    common.scrub_process_env()
    os.environ["HOME"] = work
    os.environ["XDG_STATE_HOME"] = os.path.join(work, "state")
    os.environ["XDG_CONFIG_HOME"] = os.path.join(work, "config")
    import tupimage
    from PIL import Image
    import random as _random
    noise = _random.Random(9)
    big = os.path.join(work, "c09-large.png")
    if not os.path.exists(big):
        im = Image.new("RGB", (300, 300))
        im.putdata([(noise.randrange(256), noise.randrange(256), noise.randrange(256)) for _ in range(90000)])
        im.save(big)
    tty_in = open("/dev/tty", "rb", buffering=0)
    out = []
    for kind in ("fifo", "pty"):
        db = os.path.join(work, f"c09-slow-{os.getpid()}-{kind}.db")

        def mk(stream, term_id):
            return tupimage.TupimageTerminal(out_command=stream, out_display=common.RecStream(), in_response=tty_in, id_database=db, terminal_id=term_id, config="DEFAULT",
                                             id_space="8bit", id_subspace="10:12", upload_method="direct", redetect_terminal=False, num_tmux_layers=0)
        ref = common.RecStream()
        inst = mk(ref, "term-REF").upload(big, force_upload=True)
        reference = b"".join(ref.writes)
        received = bytearray()
        master = None
        if kind == "fifo":
            path = os.path.join(work, f"c09-slow-{os.getpid()}.fifo")
            os.mkfifo(path)
            opener = lambda: os.open(path, os.O_RDONLY)
        else:
            import pty
            import tty
            master, slave = pty.openpty()
            tty.setraw(slave)
            path = os.ttyname(slave)
            opener = lambda: master
        done = threading.Event()

        def reader():
            fd = opener()
            _t.sleep(0.7)        # the terminal is busy: the writer fills the kernel's buffer meanwhile
            while True:
                if kind == "pty":
                    import select
                    r, _, _ = select.select([fd], [], [], 0.2)
                    if not r:
                        if done.is_set():
                            break
                        continue
                try:
                    b = os.read(fd, 4096)
                except OSError:
                    break
                if not b:
                    break
                received.extend(b)
                _t.sleep(0.0005)
            if kind == "fifo":
                os.close(fd)

        th = threading.Thread(target=reader, daemon=True)
        th.start()
        t = mk(path, "term-X")
        exc = None
        t0 = _t.time()
        try:
            t.upload(big, force_upload=True)
        except BaseException as e:  # noqa: BLE001
            exc = type(e).__name__
        wall = _t.time() - t0
        try:
            t.term.out_command.close()
        except OSError:
            pass
        done.set()
        th.join(timeout=30)
        needs = mk(common.RecStream(), "term-X").needs_uploading(inst.id)
        out.append({"kind": kind, "exc": exc, "needs_after": bool(needs), "received": len(received), "expected": len(reference), "identical": bytes(received) == reference,
                    "first_difference": next((i for i, (a, b) in enumerate(zip(received, reference)) if a != b), min(len(received), len(reference))), "wall": round(wall, 2)})
        for f in (db, db + "-wal", db + "-shm"):
            try:
                os.remove(f)
            except OSError:
                pass
        if kind == "fifo":
            os.remove(path)
    return out


def slow_reader(ctx, cov):
    work = ctx.work
    r = common.in_pty(lambda: slow_reader_child(work), timeout=300)
    if "ok" not in r:
        ctx.corr_breaks.append({"what": "slow-reader scenarios failed in the pty sandbox", "error": {k: v for k, v in r.items() if k != "tty"}})
        return
    for o in r["ok"]:
        cov.add(o, klass=f"slow-reader/{o['kind']}/" + ("raised" if o["exc"] else "completed"))
        if not o["identical"] and (o["exc"] is None or not o["needs_after"]):
            ctx.violations.append({"signature": {"class": "recorded-despite-failed-transmission" if not o["needs_after"] else "error-not-propagated", "route": "command stream given as a path, slow reader"},
                                   "what": f"command stream = path of a {o['kind']} whose reader is slower than the writer: only {o['received']} of the {o['expected']} bytes of the transmission "
                                           f"arrived (first difference at byte {o['first_difference']}), upload() raised {o['exc']}, needs_uploading afterwards = {o['needs_after']}",
                                   "case": {"kind": "slow-reader", "stream": o["kind"]}})
        elif o["identical"] and o["exc"] is None and o["needs_after"]:
            ctx.violations.append({"signature": {"class": "complete-transmission-not-recorded", "route": "command stream given as a path, slow reader"},
                                   "what": f"{o['kind']}: the whole transmission arrived without an error but the upload is not recorded", "case": {"kind": "slow-reader", "stream": o["kind"]}})


def replay(ctx, model, rec):
    if rec.get("case", {}).get("kind") == "slow-reader":
        n0 = len(ctx.violations)
        slow_reader(ctx, common.Coverage("replay"))
        mine = ctx.violations[n0:]
        del ctx.violations[n0:]
        return {"violates": bool(mine), "violations": [v["what"] for v in mine][:3]}
    case = dict(rec["case"])
    case.pop("kind", None)
    case.pop("calls_in_full_transmission", None)
    work = ctx.work
    r = common.in_pty(lambda: child_main(work, [case]), timeout=300)
    if "ok" not in r:
        return {"violates": False, "error": {k: v for k, v in r.items() if k != "tty"}}
    obs = r["ok"][0]
    bad = any(row[0] == obs["id"] and row[1] == "term-X" for row in obs["table_after"]) or not obs["needs_after"]
    return {"violates": bool(bad and case.get("fail_at") is not None), "exc": obs["exc"], "needs_uploading_after": obs["needs_after"], "table_after": obs["table_after"]}
