"""Extractor plug-in for C07/C13/C14: tupimage/placeholder.py (+ the display path of
tupimage_terminal.py and GraphicsTerminal.print_placeholder) -> coq/Gen/DiacriticsGen.v.

Data (the 297 code points, PLACEHOLDER_CHAR, DiacriticLevel values, every bytes/int literal of
validate / to_lines / to_stream_*, the display-mode constants, the get_formatting templates) is
written to Coq; control flow is checked fail-closed: each function is normalised (every bytes/int
literal replaced by L<k>, every str literal by S) and its unparsed text must equal the text recorded
below.  A literal that changes flows into Gen and from there into the model and the `src_` lemmas;
a control-flow change raises ExtractError (tie broken).

to_lines is accepted in two shapes: the pinned one, whose blank-row branch (`row >= 297`) leaves the
loop body before the trailing reset (finding F-C13), and the repaired one (fixes/C13-blank-row-reset.patch).
Gen.blank_row_resets says which; Proofs/… needs `blank_row_resets = true`.

Also cross-checks golden/rowcolumn-diacritics.txt (the protocol's table) against unicodedata and
against the literal table in coq/Spec/PlaceholderSpec.v.
"""
import ast
import os
import re
import unicodedata

from gen_tables import extractor, parse, find_class, find_func, find_assign, const_str, expect, coq_bytes, coq_list, coq_bool, HEADER, ExtractError


class _Norm(ast.NodeTransformer):
    def __init__(self, keep_str):
        self.lits = []
        self.keep_str = keep_str

    def visit_Constant(self, n):
        if isinstance(n.value, bool) or n.value is None:
            return n
        if isinstance(n.value, (bytes, int)):
            self.lits.append(n.value)
            return ast.copy_location(ast.Name(id=f"L{len(self.lits) - 1}", ctx=ast.Load()), n)
        if isinstance(n.value, str) and not self.keep_str:
            return ast.copy_location(ast.Name(id="S", ctx=ast.Load()), n)
        return n

    def visit_JoinedStr(self, n):
        if self.keep_str:
            return n
        return ast.copy_location(ast.Name(id="S", ctx=ast.Load()), n)


def normalise(fn, keep_str=False):
    import copy

    nm = _Norm(keep_str)
    f2 = nm.visit(copy.deepcopy(fn))
    # the docstring, if any, is not code
    if f2.body and isinstance(f2.body[0], ast.Expr) and isinstance(f2.body[0].value, (ast.Constant, ast.Name)) and \
            (isinstance(f2.body[0].value, ast.Name) and f2.body[0].value.id == "S" or isinstance(getattr(f2.body[0].value, "value", None), str)):
        f2.body = f2.body[1:]
    return ast.unparse(f2), nm.lits


def check_shape(fn, expected_variants, what, keep_str=False):
    """Returns (index of the matching variant, literals)."""
    text, lits = normalise(fn, keep_str)
    for i, exp in enumerate(expected_variants):
        if text.strip() == exp.strip():
            return i, lits
    # first differing line, to make the message useful
    exp = expected_variants[0].strip().split("\n")
    got = text.strip().split("\n")
    k = 0
    while k < min(len(exp), len(got)) and exp[k] == got[k]:
        k += 1
    raise ExtractError(f"{what}: control flow changed at normalised line {k + 1}:\n   now: {got[k] if k < len(got) else '<end>'}\n   was: {exp[k] if k < len(exp) else '<end>'}")


VALIDATE = '''
def validate(self):
    if self.image_id == L0:
        raise ValueError(S)
    if self.image_id < L1 or self.image_id > L2:
        raise ValueError(S)
    if self.placement_id is not None and (self.placement_id < L3 or self.placement_id > L4):
        raise ValueError(S)
    if self.start_col < L5:
        raise ValueError(S)
    if self.start_row < L6:
        raise ValueError(S)
    if self.start_col >= self.end_col:
        raise ValueError(S)
    if self.start_row >= self.end_row:
        raise ValueError(S)
'''
VALIDATE_NAMES = ["v_id_zero", "v_id_min", "v_id_max", "v_pid_min", "v_pid_max", "v_col_min", "v_row_min"]

_TL_HEAD = '''
def to_lines(self, mode: ImagePlaceholderMode=ImagePlaceholderMode.default(), formatting: AdditionalFormatting=None, no_escape: bool=False) -> List[bytes]:
    self.validate()
    placeholder_bytes = mode.placeholder_char.encode(S)
    cell_formatting = None
    row_formatting = None
    if formatting is None:
        pass
    elif isinstance(formatting, bytes):
        row_formatting = lambda row: formatting
    elif isinstance(formatting, CellFormatting):
        cell_formatting = formatting.func
    elif isinstance(formatting, RowFormatting):
        row_formatting = formatting.func
    else:
        raise TypeError(S)
    line_id_colors = L0
    if not no_escape:
        if mode.allow_256colors_for_image_id and self.image_id & L1 == L2:
            line_id_colors += L3 % (self.image_id & L4)
        else:
            line_id_colors += L5 % (self.image_id >> L6 & L7, self.image_id >> L8 & L9, self.image_id & L10)
        if not (mode.skip_placement_id_if_zero and self.placement_id == L11):
            if mode.allow_256colors_for_placement_id and self.placement_id & L12 == L13:
                line_id_colors += L14 % (self.placement_id & L15)
            else:
                line_id_colors += L16 % (self.placement_id >> L17 & L18, self.placement_id >> L19 & L20, self.placement_id & L21)
    image_id_4thbyte = (self.image_id & L22) >> L23
    image_id_4thbyte_diacritic = ROWCOLUMN_DIACRITICS_UTF8[image_id_4thbyte]
    firstcol_diacritic_count = mode.first_column_diacritic_level.value
    othercol_diacritic_count = mode.other_columns_diacritic_level.value
    if self.start_col != L24:
        firstcol_diacritic_count = max(firstcol_diacritic_count, L25)
    if image_id_4thbyte != L26:
        firstcol_diacritic_count = L27
        if mode.other_columns_diacritic_level == DiacriticLevel.ROW_COLUMN_ID4THBYTE_IF_NONZERO:
            othercol_diacritic_count = L28
    else:
        if mode.first_column_diacritic_level == DiacriticLevel.ROW_COLUMN_ID4THBYTE_IF_NONZERO:
            firstcol_diacritic_count = L29
        if mode.other_columns_diacritic_level == DiacriticLevel.ROW_COLUMN_ID4THBYTE_IF_NONZERO:
            othercol_diacritic_count = L30
    result = []
    for row in range(self.start_row, self.end_row):
        line = L31
        if not no_escape:
            line += L32
        if row_formatting is not None:
            line += row_formatting(row)
        if row >= len(ROWCOLUMN_DIACRITICS_UTF8):
            for col in range(self.start_col, self.end_col):
                if cell_formatting is not None:
                    line += cell_formatting(col, row)
                line += L33
'''
_TL_TAIL = '''
            result.append(line)
            continue
        line += line_id_colors
        if cell_formatting is not None:
            line += cell_formatting(self.start_col, row)
        row_diacritic = ROWCOLUMN_DIACRITICS_UTF8[row]
        line += placeholder_bytes
        if firstcol_diacritic_count >= L%d:
            line += row_diacritic
            if firstcol_diacritic_count >= L%d:
                line += ROWCOLUMN_DIACRITICS_UTF8[self.start_col]
                if firstcol_diacritic_count >= L%d:
                    line += image_id_4thbyte_diacritic
        for col in range(self.start_col + L%d, self.end_col):
            if cell_formatting is not None:
                line += cell_formatting(col, row)
            line += placeholder_bytes
            if othercol_diacritic_count >= L%d:
                line += row_diacritic
                if othercol_diacritic_count >= L%d and col < len(ROWCOLUMN_DIACRITICS_UTF8):
                    line += ROWCOLUMN_DIACRITICS_UTF8[col]
                    if othercol_diacritic_count >= L%d:
                        line += image_id_4thbyte_diacritic
        if not no_escape:
            line += L%d
        result.append(line)
    return result
'''
_TL_FIX = '''
            if not no_escape:
                line += L34
'''
TO_LINES_PINNED = _TL_HEAD.rstrip("\n") + "\n" + (_TL_TAIL % tuple(range(34, 42))).lstrip("\n")
TO_LINES_FIXED = _TL_HEAD.rstrip("\n") + "\n" + _TL_FIX.strip("\n") + "\n" + (_TL_TAIL % tuple(range(35, 43))).lstrip("\n")
TL_NAMES_HEAD = [
    "colors_init", "id_midmask", "id_midzero", "fg256_t", "id_lomask", "fg24_t", "id_rshift", "id_rmask", "id_gshift", "id_gmask", "id_bmask",
    "pid_zero", "pid_midmask", "pid_midzero", "ul256_t", "pid_lomask", "ul24_t", "pid_rshift", "pid_rmask", "pid_gshift", "pid_gmask", "pid_bmask",
    "msb_mask", "msb_shift", "startcol_zero", "first_min", "msb_zero", "first_msb", "other_msb", "first_nomsb", "other_nomsb",
    "line_init", "reset_pre", "blank_cell_bytes",
]
TL_NAMES_TAIL = ["th_first1", "th_first2", "th_first3", "othercol_off", "th_other1", "th_other2", "th_other3", "reset_post"]

WITH_LINEFEEDS = '''
def to_stream_with_linefeeds(self, stream: BinaryIO, mode: ImagePlaceholderMode=ImagePlaceholderMode.default(), formatting: AdditionalFormatting=None, no_escape: bool=False):
    lines = self.to_lines(mode, formatting, no_escape=no_escape)
    for line in lines:
        stream.write(line)
        stream.write(L0)
'''
ABS_POSITION = '''
def to_stream_abs_position(self, stream: BinaryIO, pos: Tuple[int, int], mode: ImagePlaceholderMode=ImagePlaceholderMode.default(), formatting: AdditionalFormatting=None):
    lines = self.to_lines(mode, formatting)
    for idx, line in enumerate(lines):
        stream.write(L0 % (pos[L1] + idx + L2, pos[L3] + L4))
        stream.write(line)
'''
AT_CURSOR = '''
def to_stream_at_cursor(self, stream: BinaryIO, mode: ImagePlaceholderMode=ImagePlaceholderMode.default(), formatting: AdditionalFormatting=None, use_save_cursor: bool=True, use_line_feeds: bool=False):
    lines = self.to_lines(mode, formatting)
    for idx, line in enumerate(lines):
        if not use_line_feeds and use_save_cursor and (idx != len(lines) - L0):
            stream.write(L1)
        stream.write(line)
        if idx != len(lines) - L2:
            if use_line_feeds:
                stream.write(L3)
                continue
            if use_save_cursor:
                stream.write(L4)
            else:
                stream.write(L5 % (self.end_col - self.start_col))
            stream.write(L6)
'''
TO_STREAM = '''
def to_stream(self, stream: BinaryIO, pos: Optional[Tuple[int, int]]=None, mode: ImagePlaceholderMode=ImagePlaceholderMode.default(), formatting: AdditionalFormatting=None, use_save_cursor: bool=True, use_line_feeds: bool=False):
    if pos is not None:
        if use_line_feeds:
            raise ValueError(S)
        self.to_stream_abs_position(stream, pos, mode, formatting)
    else:
        self.to_stream_at_cursor(stream, mode, formatting, use_save_cursor, use_line_feeds=use_line_feeds)
'''
POST_INIT = '''
def __post_init__(self):
    if self.first_column_diacritic_level == DiacriticLevel.NONE:
        raise ValueError(S)
'''
PRINT_PLACEHOLDER = '''
def print_placeholder(self, placeholder: Optional[ImagePlaceholder]=None, image_id: Optional[int]=None, placement_id: Optional[int]=None, start_col: Optional[int]=None, start_row: Optional[int]=None, end_col: Optional[int]=None, end_row: Optional[int]=None, pos: Optional[Tuple[int, int]]=None, mode: ImagePlaceholderMode=ImagePlaceholderMode.default(), formatting: AdditionalFormatting=None, use_save_cursor: bool=True, use_line_feeds: bool=False):
    if placeholder is None:
        placeholder = ImagePlaceholder()
    else:
        placeholder = placeholder.clone_with()
    if image_id is not None:
        placeholder.image_id = image_id
    if placement_id is not None:
        placeholder.placement_id = placement_id
    if start_col is not None:
        placeholder.start_col = start_col
    if start_row is not None:
        placeholder.start_row = start_row
    if end_col is not None:
        placeholder.end_col = end_col
    if end_row is not None:
        placeholder.end_row = end_row
    placeholder.to_stream(self.out_display, pos=pos, mode=mode, formatting=formatting, use_save_cursor=use_save_cursor, use_line_feeds=use_line_feeds)
    if self.shellscript_out is not None:
        self.shellscript_out.write(S)
        placeholder.to_stream(ShellScriptBinaryIOHelper(self.shellscript_out), pos=pos, mode=mode, formatting=formatting, use_save_cursor=use_save_cursor, use_line_feeds=use_line_feeds)
        self.shellscript_out.write(S)
'''
# the C16 repair (fix: forget the tracked cursor position after printing a placeholder) adds one
# assignment after the to_stream call; it does not touch the display stream
PRINT_PLACEHOLDER_C16 = PRINT_PLACEHOLDER.replace(
    "use_save_cursor=use_save_cursor, use_line_feeds=use_line_feeds)\n    if self.shellscript_out is not None:",
    "use_save_cursor=use_save_cursor, use_line_feeds=use_line_feeds)\n    self.tracked_cursor_position = None\n    if self.shellscript_out is not None:")
assert PRINT_PLACEHOLDER_C16 != PRINT_PLACEHOLDER
GET_FORMATTING = '''
def get_formatting(self, background: Optional[BackgroundLike]) -> tupimage.AdditionalFormatting:
    if background is None:
        background = self._config.background
    if isinstance(background, str):
        if background.lower() == 'none':
            return None
        else:
            rgb = ImageColor.getrgb(background)
            return L0 % rgb
    if isinstance(background, int):
        return L1 % background
    return background
'''
GET_MODE_PREFIX = '''
def get_image_placeholder_mode(self, id: Union[int, ImageInstance, ImagePlaceholder], *, fewer_diacritics: Optional[bool]=None) -> ImagePlaceholderMode:
    if isinstance(id, ImagePlaceholder):
        id = id.image_id
    if isinstance(id, ImageInstance):
        id = id.id
    if fewer_diacritics is None:
        fewer_diacritics = self._config.fewer_diacritics
    return ImagePlaceholderMode(
'''
# the part of display_only that C14 relies on: how the mode, the formatting and the placeholder call are made
DISPLAY_ONLY_CALLS = [
    "mode = self.get_image_placeholder_mode(id, fewer_diacritics=fewer_diacritics)",
    "formatting = self.get_formatting(background)",
    "self.term.print_placeholder(image_id=id, placement_id=placement_id, start_col=start_col, start_row=start_row, end_col=end_col, end_row=end_row, mode=mode, formatting=formatting, use_line_feeds=use_line_feeds)",
    "self.term.print_placeholder(image_id=id, placement_id=placement_id, start_col=start_col, start_row=start_row, end_col=end_col, end_row=end_row, pos=abs_pos, mode=mode, formatting=formatting)",
]


def _level_value(node, levels, what):
    """tupimage.DiacriticLevel.X or DiacriticLevel.X -> value"""
    expect(isinstance(node, ast.Attribute) and ast.unparse(node.value) in ("tupimage.DiacriticLevel", "DiacriticLevel") and node.attr in levels,
           f"{what}: expected a DiacriticLevel member, got {ast.unparse(node)[:80]}")
    return levels[node.attr]


def read_golden(verif):
    p = os.path.join(verif, "golden", "rowcolumn-diacritics.txt")
    cps = []
    with open(p) as f:
        for line in f:
            line = line.split("#")[0].strip()
            if not line:
                continue
            cps.append(int(line.split(";")[0], 16))
    return cps


def check_golden(verif):
    """The committed protocol table: 297 strictly increasing code points, each a combining mark of
    canonical combining class 230 without decomposition; and the literal table of
    Spec/PlaceholderSpec.v is this table."""
    cps = read_golden(verif)
    expect(len(cps) == 297, f"golden table has {len(cps)} entries, expected 297")
    expect(all(a < b for a, b in zip(cps, cps[1:])), "golden table is not strictly increasing")
    for cp in cps:
        ch = chr(cp)
        expect(unicodedata.combining(ch) == 230, f"golden U+{cp:04X}: combining class {unicodedata.combining(ch)} != 230")
        expect(unicodedata.decomposition(ch) == "", f"golden U+{cp:04X} has a decomposition")
        expect(unicodedata.category(ch) in ("Mn", "Me"), f"golden U+{cp:04X} is not a non-spacing mark")
    spec = os.path.join(verif, "coq", "Spec", "PlaceholderSpec.v")
    with open(spec) as f:
        src = f.read()
    m = re.search(r"Definition\s+protocol_diacritics\s*:\s*list N\s*:=\s*\[([^\]]*)\]", src)
    expect(m is not None, "Spec/PlaceholderSpec.v: protocol_diacritics literal not found")
    lit = [int(x) for x in m.group(1).replace("\n", " ").split(";") if x.strip()]
    expect(lit == cps, "Spec/PlaceholderSpec.v: protocol_diacritics differs from golden/rowcolumn-diacritics.txt")
    return cps


@extractor
def gen_placeholder(repo, out):
    verif = os.path.dirname(os.path.dirname(os.path.abspath(__file__)))
    check_golden(verif)

    ph = parse(repo, "tupimage/placeholder.py")
    gt = parse(repo, "tupimage/graphics_terminal.py")
    tt = parse(repo, "tupimage/tupimage_terminal.py")

    # ---- data
    placeholder_char = const_str(find_assign(ph, "PLACEHOLDER_CHAR"), "PLACEHOLDER_CHAR")
    tbl = find_assign(ph, "ROWCOLUMN_DIACRITICS")
    expect(isinstance(tbl, ast.List), "ROWCOLUMN_DIACRITICS: expected a list literal")
    diacritics = []
    for i, e in enumerate(tbl.elts):
        s = const_str(e, f"ROWCOLUMN_DIACRITICS[{i}]")
        expect(len(s) == 1, f"ROWCOLUMN_DIACRITICS[{i}]: expected one code point")
        diacritics.append(ord(s))
    utf8 = find_assign(ph, "ROWCOLUMN_DIACRITICS_UTF8")
    expect(ast.unparse(utf8) == "[c.encode('utf-8') for c in ROWCOLUMN_DIACRITICS]", "ROWCOLUMN_DIACRITICS_UTF8: shape changed")

    lv = find_class(ph, "DiacriticLevel")
    expect([ast.unparse(b) for b in lv.bases] == ["Enum"], "DiacriticLevel: bases")
    levels = {}
    for n in lv.body:
        expect(isinstance(n, ast.Assign) and len(n.targets) == 1 and isinstance(n.targets[0], ast.Name) and isinstance(n.value, ast.Constant)
               and isinstance(n.value.value, int), "DiacriticLevel: member shape")
        levels[n.targets[0].id] = n.value.value
    expect(list(levels) == ["NONE", "ROW", "ROW_COLUMN", "ROW_COLUMN_ID4THBYTE", "ROW_COLUMN_ID4THBYTE_IF_NONZERO"], f"DiacriticLevel members changed: {list(levels)}")

    mode_cls = find_class(ph, "ImagePlaceholderMode")
    check_shape(find_func(mode_cls, "__post_init__"), [POST_INIT], "ImagePlaceholderMode.__post_init__")
    ph_default = None
    for n in mode_cls.body:
        if isinstance(n, ast.AnnAssign) and n.target.id == "placeholder_char":
            ph_default = ast.unparse(n.value)
    expect(ph_default == "PLACEHOLDER_CHAR", "ImagePlaceholderMode.placeholder_char default changed")

    # ---- control flow + literals
    cls = find_class(ph, "ImagePlaceholder")
    _, v_lits = check_shape(find_func(cls, "validate"), [VALIDATE], "ImagePlaceholder.validate")
    variant, tl_lits = check_shape(find_func(cls, "to_lines"), [TO_LINES_PINNED, TO_LINES_FIXED], "ImagePlaceholder.to_lines")
    tl_names = TL_NAMES_HEAD + (["reset_blank"] if variant == 1 else []) + TL_NAMES_TAIL
    expect(len(tl_names) == len(tl_lits), "to_lines: literal count")
    _, lf_lits = check_shape(find_func(cls, "to_stream_with_linefeeds"), [WITH_LINEFEEDS], "to_stream_with_linefeeds")
    _, abs_lits = check_shape(find_func(cls, "to_stream_abs_position"), [ABS_POSITION], "to_stream_abs_position")
    _, cur_lits = check_shape(find_func(cls, "to_stream_at_cursor"), [AT_CURSOR], "to_stream_at_cursor")
    check_shape(find_func(cls, "to_stream"), [TO_STREAM], "to_stream")
    check_shape(find_func(find_class(gt, "GraphicsTerminal"), "print_placeholder"), [PRINT_PLACEHOLDER, PRINT_PLACEHOLDER_C16], "GraphicsTerminal.print_placeholder")

    ttc = find_class(tt, "TupimageTerminal")
    _, gf_lits = check_shape(find_func(ttc, "get_formatting"), [GET_FORMATTING], "TupimageTerminal.get_formatting", keep_str=True)
    gm = find_func(ttc, "get_image_placeholder_mode")
    text, _ = normalise(gm, keep_str=True)
    expect(text.strip().startswith(GET_MODE_PREFIX.strip()), "get_image_placeholder_mode: prologue changed")
    ret = gm.body[-1]
    expect(isinstance(ret, ast.Return) and isinstance(ret.value, ast.Call) and ast.unparse(ret.value.func) == "ImagePlaceholderMode" and not ret.value.args,
           "get_image_placeholder_mode: return ImagePlaceholderMode(keywords)")
    kw = {k.arg: k.value for k in ret.value.keywords}
    expect(list(kw) == ["allow_256colors_for_image_id", "allow_256colors_for_placement_id", "skip_placement_id_if_zero",
                        "first_column_diacritic_level", "other_columns_diacritic_level", "placeholder_char"], "get_image_placeholder_mode: keywords changed")
    dm = {}
    for k in ("allow_256colors_for_image_id", "allow_256colors_for_placement_id", "skip_placement_id_if_zero"):
        expect(isinstance(kw[k], ast.Constant) and isinstance(kw[k].value, bool), f"get_image_placeholder_mode: {k} is not a bool literal")
        dm[k] = kw[k].value
    dm_first = _level_value(kw["first_column_diacritic_level"], levels, "first_column_diacritic_level")
    oc = kw["other_columns_diacritic_level"]
    expect(isinstance(oc, ast.IfExp) and ast.unparse(oc.test) == "fewer_diacritics", "get_image_placeholder_mode: other level is not `X if fewer_diacritics else Y`")
    dm_other_fewer = _level_value(oc.body, levels, "other level (fewer)")
    dm_other_full = _level_value(oc.orelse, levels, "other level (full)")
    expect(ast.unparse(kw["placeholder_char"]) == "self._config.placeholder_char", "get_image_placeholder_mode: placeholder_char source changed")

    do = find_func(ttc, "display_only")
    do_src = ast.unparse(do)
    for call in DISPLAY_ONLY_CALLS:
        expect(call in do_src, f"display_only: expected statement not found: {call[:70]}…")
    expect(do_src.count("print_placeholder(") == 2, "display_only: number of print_placeholder calls changed")

    # ---- output
    def lit(name, v):
        if isinstance(v, bytes):
            return f"Definition {name} : list N := {coq_bytes(v)}.\n"
        expect(v >= 0, f"{name}: negative literal")
        return f"Definition {name} : N := {v}.\n"

    t = HEADER
    t += f"Definition placeholder_char : list N := {coq_list(str(ord(c)) for c in placeholder_char)}.\n"
    t += "Definition rowcolumn_diacritics : list N :=\n  [" + ";\n   ".join("; ".join(str(c) for c in diacritics[i:i + 12]) for i in range(0, len(diacritics), 12)) + "].\n"
    for name, v in levels.items():
        t += f"Definition lvl_{name.lower()} : N := {v}.\n"
    t += "(* ImagePlaceholder.validate *)\n"
    for name, v in zip(VALIDATE_NAMES, v_lits):
        t += lit(name, v)
    t += "(* ImagePlaceholder.to_lines, literals in source order *)\n"
    for name, v in zip(tl_names, tl_lits):
        t += lit(name, v)
    t += f"Definition blank_row_resets : bool := {coq_bool(variant == 1)}.\n"
    if variant == 0:
        t += "Definition reset_blank : list N := [].\n"
    t += "(* to_stream_with_linefeeds / to_stream_abs_position / to_stream_at_cursor *)\n"
    t += lit("lf_newline", lf_lits[0])
    for name, v in zip(["abs_cup_t", "abs_pos_row_idx", "abs_row_off", "abs_pos_col_idx", "abs_col_off"], abs_lits):
        t += lit(name, v)
    for name, v in zip(["cur_last_off1", "cur_save", "cur_last_off2", "cur_newline", "cur_restore", "cur_left_t", "cur_index"], cur_lits):
        t += lit(name, v)
    t += "(* TupimageTerminal.get_image_placeholder_mode / get_formatting *)\n"
    t += f"Definition dm_allow256_id : bool := {coq_bool(dm['allow_256colors_for_image_id'])}.\n"
    t += f"Definition dm_allow256_pid : bool := {coq_bool(dm['allow_256colors_for_placement_id'])}.\n"
    t += f"Definition dm_skip_pid0 : bool := {coq_bool(dm['skip_placement_id_if_zero'])}.\n"
    t += f"Definition dm_first : N := {dm_first}.\n"
    t += f"Definition dm_other_fewer : N := {dm_other_fewer}.\n"
    t += f"Definition dm_other_full : N := {dm_other_full}.\n"
    t += lit("bg24_t", gf_lits[0])
    t += lit("bg256_t", gf_lits[1])
    out.add("DiacriticsGen.v", t)
