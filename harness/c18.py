"""C18 — the exported shell script reproduces exactly the bytes that were sent.

Correspondence: Model.ShellScript (escape_bytes, split_chunks, try_base64, write_to_shellscript,
script_of) vs ShellScriptBinaryIOHelper / GraphicsTerminal(shellscript_out=...) on generated
byte strings, comments around the 80-column switch and recorded terminal sessions; Lib.Base64
(b64decode_py, b64encode) and Spec.rfc_b64 vs CPython's base64; the integer form of the 1.05
ratio test vs the float test, exhaustively.
Oracle (on every case): Spec.PosixShSpec.eval of the implementation's script text must be
Some data; and the script is run by real /bin/sh (dash) and bash, whose stdout must be the data
(and must agree with the Spec whenever the Spec gives an answer)."""
import base64
import io
import itertools
import os
import re
import shutil
import subprocess

import common
from common import hexs, unhex

GEN_DEPS = ("gen_shellscript",)
ASSUMPTIONS = [
    "a POSIX sh behaves as coq/Spec/PosixShSpec.v on the command shape the exporter emits (validated on every run against dash and bash)",
    "`base64 -w0` (GNU coreutils) writes the RFC 4648 encoding of its input with no line breaks and no trailing newline",
    "CPython's base64.b64decode(validate=True) is Lib.Base64.b64decode_py (compared exhaustively over short strings on every run; CPython 3.12 accepts extra '=' after complete quanta)",
    "comments passed to write_to_shellscript are ASCII without newline/NUL (all comments in graphics_terminal.py are); len() of str = number of bytes",
    "len(escaped) > len(decoded) * 1.05 in floats equals 20*len(escaped) > 21*len(decoded) on the reachable range (checked exhaustively on every run)",
]
TRUSTED = ["/bin/sh (dash), bash and coreutils base64 as the shells the Spec is validated against"]

B64CHARS = b"ABCDEFGHIJKLMNOPQRSTUVWXYZabcdefghijklmnopqrstuvwxyz0123456789+/"
PRINTABLE = bytes(range(32, 127))
SPECIALS = b"\\%'\"\n\t\r\x00\x1b\x7f\xff-#$`!*?;&|<>(){}[]~ ="
COMMENT_CHARS = "abcdefghijklmnopqrstuvwxyz ABCXYZ 0123456789 '\"#$`\\;|&()<>*?!~%-= "


# ------------------------------------------------------------------------------ generators
def printable(rng, n, alphabet=PRINTABLE):
    return bytes(rng.choice(alphabet) for _ in range(n))


def mild_text(rng, n):
    """text whose escaped form is (almost) as long as itself: passes the 1.05 ratio test"""
    return bytes(rng.choice(b"abcdefghijklmnopqrstuvwxyz /_.-,:;=0123456789ABC") for _ in range(n))


def b64_of_len(rng, enc_len, mild=True):
    """canonical base64 text of encoded length enc_len (a multiple of 4) or the nearest below"""
    raw = (enc_len // 4) * 3 - rng.choice([0, 0, 1, 2]) if enc_len >= 4 else 0
    raw = max(raw, 0)
    data = mild_text(rng, raw) if mild else rng.randbytes(raw)
    return base64.b64encode(data)


def mutate_b64(rng, s):
    s = bytearray(s)
    if not s:
        return bytes(rng.choice(B64CHARS + b"=") for _ in range(rng.randrange(1, 6)))
    kind = rng.randrange(9)
    if kind == 0 and s.endswith(b"="):  # non-zero pad bits
        i = len(s) - 1
        while s[i] == 0x3D:
            i -= 1
        s[i] = rng.choice(B64CHARS)
    elif kind == 1:  # inner '='
        s[rng.randrange(len(s))] = 0x3D
    elif kind == 2:  # extra trailing '='
        s += b"=" * rng.randrange(1, 5)
    elif kind == 3:  # truncated
        del s[len(s) - rng.randrange(1, min(4, len(s)) + 1):]
    elif kind == 4:  # one character replaced by another alphabet character
        s[rng.randrange(len(s))] = rng.choice(B64CHARS)
    elif kind == 5:  # one character inserted
        s.insert(rng.randrange(len(s) + 1), rng.choice(B64CHARS + b"="))
    elif kind == 6:  # leading '='
        s[:0] = b"=" * rng.randrange(1, 3)
    elif kind == 7:  # padded although complete
        while s.endswith(b"="):
            s.pop()
        s = s[: len(s) // 4 * 4] + b"=" * rng.randrange(1, 4)
    else:  # pad characters stripped
        while s.endswith(b"="):
            s.pop()
    return bytes(s)


def gen_data(ctx, n):
    """Yield (class, data)."""
    rng = ctx.rng
    for b in range(256):
        yield "single-byte", bytes([b])
    for b in range(256):
        yield "dash-then-byte", bytes([0x2D, b])
    for a in SPECIALS:
        for b in SPECIALS:
            yield "special-pair", bytes([a, b])
    yield "empty", b""
    for hand in (b"QR==", b"QQ==", b"QUJD=", b"QUJD====", b"-foo\n", b"LWZvbw==", b"--", b"-", b"-%s", b"%s", b"%%", b"\\055", b"\\n", b"'\\''", b"QUJD-QUJD",
                 b"\x1b_Ga=T,f=100,i=5;QUJDREVG\x1b\\", b"\x1b[5B", b"\x1b[0m", b"AAAA\n\n", b"Cgo=", b"CgoK", b"JSVzJXM=", b"JycnJw==", b"AAAA", b"////", b"++++"):
        yield "hand", hand
    # lengths around the 2 and 172 limits
    for enc_len in list(range(0, 13)) + list(range(160, 181)):
        for _ in range(ctx.pick(2, 12)):
            s = b64_of_len(rng, enc_len)
            yield "b64-length-boundary", s
            yield "b64-length-boundary", (s + printable(rng, 8, B64CHARS))[:enc_len] if enc_len else b""
    # ratio boundary: n mild characters of which k need escaping
    for nn in (1, 10, 19, 20, 21, 39, 40, 41, 59, 60, 61, 100, 119, 120, 121, 129):
        for k in (0, 1, 2, 3, 6, 7):
            for ch in (b"%", b"\n", b"\x01"):
                if k > nn:
                    continue
                raw = bytearray(mild_text(rng, nn))
                for i in rng.sample(range(nn), k):
                    raw[i] = ch[0]
                yield "ratio-boundary", base64.b64encode(bytes(raw))
    kinds = ["random-binary", "printable", "b64-printable", "b64-binary", "b64-mutated", "leading-dash", "mixed", "escape-sequence"]
    for i in range(n):
        kind = kinds[i % len(kinds)]
        if kind == "random-binary":
            d = rng.randbytes(rng.choice([1, 2, 3, 5, 8, 20, 60, 200]))
        elif kind == "printable":
            d = printable(rng, rng.choice([1, 2, 4, 10, 40, 100]), PRINTABLE + SPECIALS)
        elif kind == "b64-printable":
            d = base64.b64encode(mild_text(rng, rng.randrange(0, 133)))
        elif kind == "b64-binary":
            d = base64.b64encode(rng.randbytes(rng.randrange(0, 133)))
        elif kind == "b64-mutated":
            d = mutate_b64(rng, b64_of_len(rng, rng.choice([4, 4, 8, 8, 12, 16, 40, 168, 172, 176]), mild=rng.random() < 0.9))
        elif kind == "leading-dash":
            t = rng.randrange(4)
            if t == 0:
                d = b"-" + printable(rng, rng.randrange(0, 12), PRINTABLE + SPECIALS)
            elif t == 1:
                d = base64.b64encode(b"-" + mild_text(rng, rng.randrange(0, 30)))
            elif t == 2:
                d = b"-" + base64.b64encode(b"-" + mild_text(rng, rng.randrange(1, 30))) + b"-"
            else:
                d = b"-" * rng.randrange(1, 5) + rng.randbytes(rng.randrange(0, 4))
        elif kind == "mixed":
            parts = []
            for _ in range(rng.randrange(2, 7)):
                t = rng.randrange(5)
                if t == 0:
                    parts.append(base64.b64encode(mild_text(rng, rng.randrange(1, 40))))
                elif t == 1:
                    parts.append(mutate_b64(rng, base64.b64encode(mild_text(rng, rng.randrange(1, 20)))))
                elif t == 2:
                    parts.append(printable(rng, rng.randrange(1, 6), SPECIALS))
                elif t == 3:
                    parts.append(rng.randbytes(rng.randrange(1, 5)))
                else:
                    parts.append(rng.choice([b";", b",", b"\x1b\\", b"\x1b_G", b" ", b"\n", b"-"]))
            d = b"".join(parts)
        else:
            d = rng.choice([b"\x1b[%dB", b"\x1b[%dA", b"\x1b[%dC", b"\x1b[%d;1H", b"\x1b[38;5;%dm", b"\x1b_Ga=p,i=%d,q=2\x1b\\", b"\x1b_Ga=T,i=%d;QUJD\x1b\\"]) % rng.randrange(1, 500)
        yield kind, d


def gen_comment(rng, command_len):
    """Returns (comment, mode label).  Comments are ASCII without newline."""
    r = rng.random()
    if r < 0.45:
        return "", "no-comment"
    if r < 0.75:
        # around the switch: len(comment) + len(command) + 3 in 77..83
        n = 80 - 3 - command_len + rng.randrange(-3, 4)
        if n >= 1:
            return "".join(rng.choice(COMMENT_CHARS) for _ in range(n)), "boundary"
    if r < 0.9:
        return "".join(rng.choice(COMMENT_CHARS) for _ in range(rng.randrange(70, 91))), "long"
    return rng.choice(["Reset brush", "Move cursor down by 3", "x", "#", "'", "it's", "a # b", "$(reboot)", "`id`", "\\"]), "library-like"


# ------------------------------------------------------------------------------ implementation side
def impl_script(H, data, comment=""):
    s = io.StringIO()
    H.write_to_shellscript(s, data, comment)
    return s.getvalue().encode("utf-8")


def formats_in(script: bytes):
    """the printf format operands appearing in a script text (outer and inner)"""
    return re.findall(rb"printf '([^']*)'", script)


def classify(H, data, script, spec_out):
    if any(f.startswith(b"-") for f in formats_in(script)):
        return "printf-format-starts-with-dash"
    if spec_out is not None and spec_out != data:
        for ch in H._split_data_into_chunks(data):
            try:
                dec = base64.b64decode(ch, validate=True)
            except Exception:  # noqa
                continue
            if base64.b64encode(dec) != ch:
                return "noncanonical-base64-run-reencoded"
        return "script-output-differs"
    if spec_out is None:
        return "script-outside-posix-subset"
    return "ok"


# ------------------------------------------------------------------------------ real shells
def shells():
    res = [("dash", "/bin/sh")]
    b = shutil.which("bash")
    if b:
        res.append(("bash", b))
    return res


def run_in_shells(ctx, scripts, tag):
    """scripts: list of bytes.  Returns {shell name: [(stdout, stderr head)]}.  Each script is run by its own
    shell process with cwd in the scratch directory, a minimal PATH and stdin from /dev/null."""
    out = {}
    d = os.path.join(ctx.work, f"sh-{tag}")
    os.makedirs(d, exist_ok=True)
    for i, s in enumerate(scripts):
        with open(os.path.join(d, f"c_{i}.sh"), "wb") as f:
            f.write(s)
    master = 'i=0\nwhile [ $i -lt $N ]; do "$SH" ./c_$i.sh > o_$i 2> e_$i < /dev/null; i=$((i+1)); done\n'
    with open(os.path.join(d, "master.sh"), "w") as f:
        f.write(master)
    for name, path in shells():
        env = {"PATH": "/usr/bin:/bin", "SH": path, "N": str(len(scripts)), "LC_ALL": "C", "HOME": d}
        subprocess.run(["/bin/sh", "./master.sh"], cwd=d, env=env, timeout=60 + len(scripts) // 5, stdin=subprocess.DEVNULL,
                       stdout=subprocess.DEVNULL, stderr=subprocess.DEVNULL)
        res = []
        for i in range(len(scripts)):
            try:
                with open(os.path.join(d, f"o_{i}"), "rb") as f:
                    o = f.read()
                with open(os.path.join(d, f"e_{i}"), "rb") as f:
                    e = f.read(200)
                os.unlink(os.path.join(d, f"o_{i}"))
                os.unlink(os.path.join(d, f"e_{i}"))
            except OSError:
                o, e = None, b"(not run)"
            res.append((o, e))
        out[name] = res
    shutil.rmtree(d, ignore_errors=True)
    return out


# ------------------------------------------------------------------------------ checks
def check_base64_library(ctx, model, cov):
    """CPython vs Lib.Base64.b64decode_py (exhaustive over short strings of a small alphabet + random), b64encode, Spec.rfc_b64."""
    rng = ctx.rng
    alpha = b"AQR/=-" if ctx.quick() else b"AQRz9+/=-\n"
    maxlen = 6 if ctx.quick() else 6
    cases = [bytes(t) for n in range(0, maxlen + 1) for t in itertools.product(alpha, repeat=n)]
    for _ in range(ctx.pick(5000, 100000)):
        cases.append(bytes(rng.choice(b"ABCDwxyz0189+/==") for _ in range(rng.randrange(0, 14))))
    for _ in range(ctx.pick(500, 5000)):
        cases.append(mutate_b64(rng, base64.b64encode(rng.randbytes(rng.randrange(0, 40)))))
    reps = model.batch([f"c18.b64decode_py {hexs(c)}" for c in cases])
    for c, r in zip(cases, reps):
        try:
            py = base64.b64decode(c, validate=True)
        except Exception:  # noqa
            py = None
        cov.add({"b64decode": hexs(c)}, nontrivial=py is not None, klass="lib/b64decode-" + ("accepts" if py is not None else "rejects"), sample_every=100003)
        if py != unhex(r):
            ctx.corr_breaks.append({"what": "base64.b64decode(validate=True) differs from Lib.Base64.b64decode_py", "case": hexs(c),
                                    "impl": None if py is None else hexs(py), "model": r})
    raws = [rng.randbytes(rng.randrange(0, 60)) for _ in range(ctx.pick(500, 5000))] + [bytes([b]) for b in range(256)]
    reps = model.batch([x for r in raws for x in (f"c18.b64encode {hexs(r)}", f"c18.spec_b64 {hexs(r)}")])
    for i, r in enumerate(raws):
        py = base64.b64encode(r)
        cov.add({"b64encode": hexs(r)}, nontrivial=len(r) > 0, klass="lib/b64encode", sample_every=100003)
        if unhex(reps[2 * i]) != py or unhex(reps[2 * i + 1]) != py:
            ctx.corr_breaks.append({"what": "base64.b64encode differs from Lib.Base64.b64encode / Spec.rfc_b64", "case": hexs(r),
                                    "impl": hexs(py), "model": [reps[2 * i], reps[2 * i + 1]]})


def gen_constants():
    with open(os.path.join(common.COQ, "Gen", "ShellScriptGen.v")) as f:
        src = f.read()
    return {k: int(v) for k, v in re.findall(r"Definition (\w+) : N := (\d+)\.", src)}


def check_ratio(ctx, cov):
    """float test of the source vs the integer test of the model, on every reachable pair of lengths"""
    c = gen_constants()
    num, den, maxlen = c["ratio_num"], c["ratio_den"], c["b64_max_len"]
    ratio = num / den  # correctly rounded: the float the literal in the source denotes
    bad = 0
    for d in range(0, 3 * (maxlen // 4) + 4):
        for e in range(0, 4 * d + 5):
            if (e > d * ratio) != (den * e > num * d):
                bad += 1
                if bad <= 3:
                    ctx.corr_breaks.append({"what": "float ratio test differs from the model's integer test", "case": {"decoded": d, "escaped": e}})
    cov.bump("ratio/float-vs-integer-pairs", sum(4 * d + 5 for d in range(0, 3 * (maxlen // 4) + 4)))


def check_parts(ctx, model, H, cov, datas):
    """_escape_bytes, _split_data_into_chunks, _try_base64 one by one"""
    reqs = []
    for d in datas:
        reqs += [f"c18.escape {hexs(d)}", f"c18.split {hexs(d)}", f"c18.try_base64 {hexs(d)}"]
    reps = model.batch(reqs)
    for i, d in enumerate(datas):
        esc = H._escape_bytes(d).encode("utf-8")
        chunks = H._split_data_into_chunks(d)
        tb = H._try_base64(d)
        m_esc, m_split, m_tb = reps[3 * i], reps[3 * i + 1], reps[3 * i + 2]
        cov.add({"parts": hexs(d)}, nontrivial=len(d) > 0, klass="parts/" + ("try_base64-some" if tb is not None else "try_base64-none"), sample_every=100003)
        if unhex(m_esc) != esc:
            ctx.corr_breaks.append({"what": "_escape_bytes differs from Model.escape_bytes", "case": hexs(d), "impl": hexs(esc), "model": m_esc})
        ms = [] if m_split == "." else [unhex(x) for x in m_split.split(",")]
        if ms != chunks:
            ctx.corr_breaks.append({"what": "_split_data_into_chunks differs from Model.split_chunks", "case": hexs(d), "impl": [hexs(x) for x in chunks], "model": m_split})
        if unhex(m_tb) != (None if tb is None else tb.encode("utf-8")):
            ctx.corr_breaks.append({"what": "_try_base64 differs from Model.try_base64", "case": hexs(d), "impl": tb, "model": m_tb})


def check_scripts(ctx, model, H, cov):
    rng = ctx.rng
    cases, cmd_lens = [], []
    for klass, d in gen_data(ctx, ctx.pick(5000, 200000)):
        cmd_len = len(impl_script(H, d, "")) - 1
        comment, cmode = gen_comment(rng, cmd_len)
        cases.append((klass, d, comment, cmode))
        cmd_lens.append(cmd_len)
    check_parts(ctx, model, H, cov, [d for _, d, _, _ in cases[:: ctx.pick(3, 10)]])
    scripts = [impl_script(H, d, c) for _, d, c, _ in cases]
    reqs = []
    for (klass, d, c, cmode), s in zip(cases, scripts):
        reqs.append(f"c18.write {hexs(d)} {hexs(c.encode())}")
        reqs.append(f"c18.spec_eval {hexs(s)}")
    reps = model.batch(reqs)
    failing = []
    for i, ((klass, d, c, cmode), s) in enumerate(zip(cases, scripts)):
        m_script, spec_out = unhex(reps[2 * i]), unhex(reps[2 * i + 1])
        layout = "no-comment" if not c else ("separate-line" if s.startswith(b"# ") else "inline")
        case = {"kind": "write", "data": hexs(d), "comment": c}
        cov.add(case, nontrivial=len(d) > 0, klass=f"{klass}/{'base64-arg' if b'base64 -w0' in s else 'plain'}/{layout}")
        if c:
            total = len(c) + cmd_lens[i] + 3
            cov.bump(f"comment/{cmode}/len+3={total}" if 76 <= total <= 84 else f"comment/{cmode}")
        if m_script != s:
            ctx.corr_breaks.append({"what": "write_to_shellscript text differs from Model.write_to_shellscript", "case": case,
                                    "impl": s.decode("latin-1")[:400], "model": (m_script or b"").decode("latin-1")[:400]})
        if spec_out != d:
            cls = classify(H, d, s, spec_out)
            failing.append(i)
            ctx.violations.append({
                "signature": {"class": cls},
                "what": f"POSIX sh running the exported script does not print the data ({cls}): data={d[:60]!r} script={s.decode('latin-1')[:160]!r} "
                        f"prints={'<unspecified>' if spec_out is None else repr(spec_out[:60])}",
                "case": case, "script": s.decode("latin-1"), "spec_eval": None if spec_out is None else hexs(spec_out)})
    # real shells on a sample (always including the cases the Spec flagged)
    n_shell = ctx.pick(1500, 20000)
    idx = sorted(set(failing[:50]) | set(range(0, 256 + 256, 7)) | set(rng.sample(range(len(cases)), min(n_shell, len(cases)))))
    check_in_shells(ctx, H, cov, [(cases[i], scripts[i], unhex(reps[2 * i + 1])) for i in idx])


def check_in_shells(ctx, H, cov, items, batch=2000):
    for b0 in range(0, len(items), batch):
        part = items[b0:b0 + batch]
        res = run_in_shells(ctx, [s for _, s, _ in part], f"w{b0}")
        for name, outs in res.items():
            for ((klass, d, c, cmode), s, spec_out), (o, e) in zip(part, outs):
                cov.bump(f"shell/{name}")
                case = {"kind": "write", "data": hexs(d), "comment": c}
                if o is None:
                    ctx.corr_breaks.append({"what": f"{name} did not run the script (harness)", "case": case})
                    continue
                if spec_out is not None and o != spec_out:
                    ctx.corr_breaks.append({"what": f"Spec.PosixShSpec.eval disagrees with {name}", "case": case, "script": s.decode("latin-1")[:300],
                                            "impl": hexs(o)[:300], "model": hexs(spec_out)[:300]})
                if o != d:
                    cls = classify(H, d, s, spec_out)
                    if cls == "ok":
                        cls = "shell-output-differs"
                    ctx.violations.append({
                        "signature": {"class": cls},
                        "what": f"{name} running the exported script does not print the data ({cls}): data={d[:60]!r} script={s.decode('latin-1')[:160]!r} "
                                f"stdout={o[:60]!r} stderr={e[:80]!r}",
                        "case": case, "script": s.decode("latin-1"), "shell": name, "stdout": hexs(o), "stderr": e.decode("latin-1"),
                        "spec_eval": None if spec_out is None else hexs(spec_out)})



# ------------------------------------------------------------------------------ the Spec itself against the shells
HAND_SPEC_SCRIPTS = [
    b"printf 'a\\1b'\n", b"printf '\\18'\n", b"printf '\\101\\1012'\n", b"printf '\\7\\07\\007\\0007'\n", b"printf '\\a\\b\\f\\n\\r\\t\\v\\\\'\n",
    b"printf '%s-%s' a\n", b"printf '%s%%%s' 'x y' z # c\n", b"printf ''\n", b"printf 'a'#b\n", b"printf a#b\n", b"printf '%s' a'b c'd\n",
    b"printf '%s' ''\n", b"\n\n# only a comment\n\t \nprintf 'x'\n", b"printf\t'%s,%s'\t1  2\t#c\n", b"#printf 'x'\n", b" # c\nprintf 'y' #'\n",
    b"printf '%s' \"$(printf 'hello world' | base64 -w0)\"\n", b"printf '%s' x\"$(printf '\\000\\377' | base64 -w0)\"y\n",
    b"printf '%s' \"$( printf  'a'|base64 -w0 )\"\n", b"printf '%s' \"$(printf '%s%%' | base64 -w0)\"\n", b"printf 'no newline at end'",
    b"printf '\\055x'\n", b"printf '%s' -x\n", b"printf '\\400'\n", b"printf 'a' 'b'\n", b"printf '%s' a b\n", b"printf '%d' 1\n", b"printf '-x'\n",
]


def gen_spec_script(rng):
    lines = []
    for _ in range(rng.randrange(1, 4)):
        r = rng.random()
        if r < 0.1:
            lines.append(rng.choice(["", "  ", "\t", "# a 'comment' \"$(x)\"", "   #c"]))
            continue
        pieces, nargs = [], 0
        for _ in range(rng.randrange(0, 9)):
            k = rng.randrange(7)
            if k == 0:
                pieces.append(rng.choice("abcXYZ019 .,:;-_=+/#\"$`(){}[]|&<>*?!~"))
            elif k == 1:
                pieces.append("\\" + rng.choice("\\abfnrtv"))
            elif k == 2:
                pieces.append("\\" + "".join(rng.choice("01234567") for _ in range(rng.randrange(1, 4))))
            elif k == 3:
                pieces.append("%%")
            elif k == 4:
                pieces.append("%s")
                nargs += 1
            elif k == 5:
                pieces.append(rng.choice("0189"))
            else:
                pieces.append(rng.choice(["\\x", "%d", "\\", "%"]) if rng.random() < 0.1 else "z")
        args = []
        for _ in range(nargs - (1 if nargs and rng.random() < 0.2 else 0)):
            t = rng.randrange(5)
            if t == 0:
                args.append("'" + "".join(rng.choice("ab \\%$\"#") for _ in range(rng.randrange(0, 5))) + "'")
            elif t == 1:
                args.append("".join(rng.choice("abcXYZ09%+,-./:=@_") for _ in range(rng.randrange(1, 6))))
            elif t == 2:
                inner = "".join(rng.choice(["a", "b ", "\\n", "\\000", "\\101", "%%", "\\\\"]) for _ in range(rng.randrange(0, 6)))
                args.append("\"$(printf '" + inner + "' | base64 -w0)\"")
            elif t == 3:
                args.append("x'y z'w#v")
            else:
                args.append("''")
        sep = rng.choice([" ", "  ", "\t"])
        line = "printf" + sep + "'" + "".join(pieces) + "'" + "".join(sep + a for a in args)
        if rng.random() < 0.3:
            line += rng.choice([" # c", "\t#c 'x", " #", " # \"$(y)\""])
        lines.append(line)
    return ("\n".join(lines) + ("\n" if rng.random() < 0.8 else "")).encode()


def check_spec_vs_shells(ctx, model, cov):
    """Scripts beyond what the exporter emits (1-2 digit octal, \\a..\\v, missing arguments, adjacent quoting, '#' inside a
    word, tabs, blank and comment lines): wherever the Spec gives an answer, dash and bash must print exactly that."""
    scripts = list(HAND_SPEC_SCRIPTS) + [gen_spec_script(ctx.rng) for _ in range(ctx.pick(400, 6000))]
    reps = model.batch([f"c18.spec_eval {hexs(s)}" for s in scripts])
    keep = [(s, unhex(r)) for s, r in zip(scripts, reps)]
    cov.bump("spec-vs-shell/spec-none", sum(1 for _, o in keep if o is None))
    keep = [(s, o) for s, o in keep if o is not None]
    res = run_in_shells(ctx, [s for s, _ in keep], "spec")
    for name, outs in res.items():
        for (s, o), (got, e) in zip(keep, outs):
            cov.add({"spec_script": hexs(s)}, nontrivial=len(o) > 0, klass=f"spec-vs-shell/{name}", sample_every=100003)
            if got != o:
                ctx.corr_breaks.append({"what": f"Spec.PosixShSpec.eval disagrees with {name} on a hand/grammar-generated script", "case": s.decode("latin-1"),
                                        "impl": None if got is None else hexs(got), "model": hexs(o), "stderr": e.decode("latin-1")})

# ------------------------------------------------------------------------------ sessions through GraphicsTerminal
def gen_session(ctx):
    rng = ctx.rng
    ops = []
    for _ in range(rng.randrange(3, 14)):
        k = rng.randrange(14)
        if k == 0:
            ops.append(["write_bytes", hexs(rng.choice([rng.randbytes(rng.randrange(0, 30)), printable(rng, rng.randrange(0, 30), PRINTABLE + SPECIALS),
                                                         b"-" + mild_text(rng, 5), base64.b64encode(mild_text(rng, rng.randrange(1, 60)))]))])
        elif k == 1:
            ops.append(["write_str", rng.choice(["hello\n", "-dash first", "caf\u00e9 \u2603 \U0010eeee\u0305", "100% 'quoted' \\ back", "QUJD", "QR=="])])
        elif k == 2:
            ops.append(["writecmd", hexs(rng.choice([b"\x1b_Ga=d\x1b\\", b"\x1b[6n", rng.randbytes(10), b"-x"]))])
        elif k == 3:
            ops.append(["move", rng.choice([{"right": rng.randrange(0, 500)}, {"left": rng.randrange(0, 50)}, {"up": rng.randrange(0, 50)},
                                            {"down": rng.randrange(0, 500), "right": rng.randrange(0, 9)}, {"down": 12345678901234567890}])])
        elif k == 4:
            ops.append(["move_abs", rng.choice([{"col": rng.randrange(0, 300)}, {"row": rng.randrange(0, 300)}, {"col": rng.randrange(0, 80), "row": rng.randrange(0, 24)},
                                                {"pos": [rng.randrange(0, 80), rng.randrange(0, 24)]}])])
        elif k == 5:
            ops.append([rng.choice(["reset", "clear_line", "clear_screen"])])
        elif k == 6:
            ops.append(["margins", rng.randrange(0, 10), rng.randrange(10, 1000)])
        elif k == 7:
            ops.append([rng.choice(["scroll_up", "scroll_down"]), rng.randrange(1, 2000)])
        elif k in (8, 9):
            ops.append(["transmit", rng.choice([0, 1, 2, 3, 50, 129, 130, 500, 3000]), rng.choice([1, 255, 2**24 + 5, 2**32 - 1]), rng.random() < 0.5,
                        rng.choice(["random", "text", "zeros"])])
        elif k == 10:
            ops.append(["transmit_file", rng.choice(["/tmp/some file.png", "/tmp/-dash.png", "/tmp/100%'q'.png", "/a"])])
        elif k == 11:
            ops.append(["put", rng.randrange(1, 2**32), rng.choice([None, 1, 77]), rng.randrange(1, 30), rng.randrange(1, 30)])
        elif k == 12:
            ops.append(["delete", rng.randrange(1, 2**32)])
        else:
            ops.append(["placeholder", {"image_id": rng.choice([1, 255, 256, 0x123456, 0xFF000001, 2**32 - 1]), "placement_id": rng.choice([0, 1, 0xABCDEF]),
                                        "end_col": rng.randrange(1, 12), "end_row": rng.randrange(1, 6)},
                        rng.choice([None, [rng.randrange(0, 70), rng.randrange(0, 20)]]), rng.choice(["default", "complete", "minimal"]),
                        rng.random() < 0.5, rng.random() < 0.3])
    return {"layers": rng.choice([0, 0, 1, 2]), "max_command_size": rng.choice([None, 256, 700, 4096]), "reset_by_scrolling": rng.random() < 0.3, "ops": ops}


def run_sessions_child(sessions):
    """Runs in the pty child.  Returns per session: script text, ordered terminal writes, exporter events."""
    import tupimage
    from tupimage import graphics_terminal as gtm
    from tupimage import graphics_command as gc
    from tupimage.placeholder import ImagePlaceholder, ImagePlaceholderMode

    H = gtm.ShellScriptBinaryIOHelper
    orig = H.write_to_shellscript
    results = []
    for sess in sessions:
        events = []
        state = {"inside": False}

        class Script(io.StringIO):
            def write(self, text):
                if not state["inside"]:
                    events.append(["R", text])
                return super().write(text)

        def wrapped(out, data, comment=""):
            events.append(["W", bytes(data).hex(), comment])
            state["inside"] = True
            try:
                return orig(out, data, comment)
            finally:
                state["inside"] = False

        H.write_to_shellscript = staticmethod(wrapped)
        try:
            rec = common.RecStream()
            script = Script()
            tty_r = open("/dev/tty", "rb", buffering=0)
            t = gtm.GraphicsTerminal(out_command=rec, out_display=rec, in_response=tty_r, in_userinput=tty_r, num_tmux_layers=sess["layers"],
                                     max_command_size=sess["max_command_size"], shellscript_out=script, reset_by_scrolling=sess["reset_by_scrolling"])
            errors = []
            for op in sess["ops"]:
                try:
                    k = op[0]
                    if k == "write_bytes":
                        t.write(bytes.fromhex(op[1]) if op[1] != "-" else b"")
                    elif k == "write_str":
                        t.write(op[1])
                    elif k == "writecmd":
                        t.writecmd(bytes.fromhex(op[1]))
                    elif k == "move":
                        t.move_cursor(**op[1])
                    elif k == "move_abs":
                        kw = dict(op[1])
                        if "pos" in kw:
                            kw["pos"] = tuple(kw["pos"])
                        t.move_cursor_abs(**kw)
                    elif k in ("reset", "clear_line", "clear_screen"):
                        getattr(t, k)()
                    elif k == "margins":
                        t.set_margins(op[1], op[2])
                    elif k in ("scroll_up", "scroll_down"):
                        getattr(t, k)(op[1])
                    elif k == "transmit":
                        size, iid, with_placement, content = op[1], op[2], op[3], op[4]
                        import random as _r
                        rr = _r.Random(size * 7 + iid)
                        data = {"random": rr.randbytes(size), "text": bytes(rr.choice(b"abcdefghij klmnop") for _ in range(size)), "zeros": bytes(size)}[content]
                        pl = gc.PlacementData(placement_id=3, virtual=True, rows=2, cols=3) if with_placement else None
                        t.send_command(gc.TransmitCommand(image_id=iid, medium=gc.TransmissionMedium.DIRECT, data=data, format=gc.Format.PNG, quiet=gc.Quietness.QUIET_ALWAYS, placement=pl))
                    elif k == "transmit_file":
                        t.send_command(gc.TransmitCommand(image_id=9, medium=gc.TransmissionMedium.FILE, data=op[1].encode(), format=gc.Format.PNG))
                    elif k == "put":
                        t.send_command(gc.PutCommand(image_id=op[1], placement_id=op[2], rows=op[3], cols=op[4], virtual=True, quiet=gc.Quietness.QUIET_ALWAYS))
                    elif k == "delete":
                        t.send_command(gc.DeleteCommand(image_id=op[1], what=gc.WhatToDelete.IMAGE_OR_PLACEMENT_BY_ID, delete_data=True))
                    elif k == "placeholder":
                        mode = getattr(ImagePlaceholderMode, op[3])()
                        pos = tuple(op[2]) if op[2] is not None else None
                        use_lf = op[5] and pos is None
                        t.print_placeholder(ImagePlaceholder(**op[1]), pos=pos, mode=mode, use_save_cursor=op[4], use_line_feeds=use_lf)
                except Exception as e:  # noqa
                    errors.append(f"{op[0]}: {type(e).__name__}: {e}"[:200])
            results.append({"script": script.getvalue().encode("utf-8").hex(), "writes": [w.hex() for w in rec.writes], "events": events, "errors": errors})
        finally:
            H.write_to_shellscript = staticmethod(orig)
    return results


def check_sessions(ctx, model, H, cov):
    sessions = [gen_session(ctx) for _ in range(ctx.pick(150, 1500))]
    r = common.in_pty(lambda: run_sessions_child(sessions), timeout=ctx.pick(120, 1200))
    if "ok" not in r:
        ctx.corr_breaks.append({"what": "GraphicsTerminal sessions failed in the pty sandbox", "error": {k: v for k, v in r.items() if k != "tty"}})
        return
    reqs, metas = [], []
    for sess, res in zip(sessions, r["ok"]):
        evs = []
        ascii_ok = True
        for ev in res["events"]:
            if ev[0] == "W":
                evs.append(f"W:{ev[1] or '-'}:{hexs(ev[2].encode())}")
            else:
                evs.append(f"R:{hexs(ev[1].encode('utf-8'))}")
                ascii_ok = ascii_ok and all(ord(ch) < 128 for ch in ev[1])
                # hypothesis of C18_session_reproduces: a raw text is a blank line or one "# ..." comment line
                t = ev[1]
                if not (t == "\n" or (t.startswith("# ") and t.endswith("\n") and "\n" not in t[:-1] and "\0" not in t)):
                    ctx.corr_breaks.append({"what": "text written to the script outside write_to_shellscript is neither a blank line nor a comment line "
                                                    "(hypothesis of C18_session_reproduces not met)", "case": t[:200]})
            if ev[0] == "W" and ("\n" in ev[2] or "\0" in ev[2] or not all(ord(ch) < 128 for ch in ev[2])):
                ctx.corr_breaks.append({"what": "comment passed to write_to_shellscript is not ASCII text without newline/NUL (hypothesis of C18_script_reproduces not met)",
                                        "case": ev[2][:200]})
        script = bytes.fromhex(res["script"])
        sent = b"".join(bytes.fromhex(w) for w in res["writes"])
        reqs.append("c18.session " + " ".join(evs) if evs else "c18.session")
        reqs.append(f"c18.spec_eval {hexs(script)}")
        metas.append((sess, res, script, sent, ascii_ok))
    reps = model.batch(reqs)
    shell_items = []
    for i, (sess, res, script, sent, ascii_ok) in enumerate(metas):
        m = reps[2 * i].split(" ")
        m_script, m_term = unhex(m[0]), unhex(m[1])
        spec_out = unhex(reps[2 * i + 1])
        opkinds = sorted({op[0] for op in sess["ops"]})
        case = {"kind": "session", "session": sess}
        cov.add(case, nontrivial=len(sent) > 0, klass=f"session/layers={sess['layers']}/max={sess['max_command_size']}")
        for k in opkinds:
            cov.bump(f"session-op/{k}")
        cov.bump("session/exporter-writes", sum(1 for e in res["events"] if e[0] == "W"))
        for err in res["errors"]:
            cov.bump("session/op-raised/" + err.split(":")[1].strip())
        if not ascii_ok:
            ctx.corr_breaks.append({"what": "non-ASCII text written to the script outside write_to_shellscript", "case": case})
        if m_script != script:
            ctx.corr_breaks.append({"what": "session script differs from Model.script_of", "case": case, "impl": script.decode("latin-1")[:600], "model": (m_script or b"").decode("latin-1")[:600]})
        if m_term != sent:
            ctx.violations.append({"signature": {"class": "exported-data-differs-from-terminal-bytes"},
                                   "what": "the byte strings handed to the exporter are not the bytes written to the terminal streams",
                                   "case": case, "sent": hexs(sent)[:400], "exported": hexs(m_term)[:400]})
        if spec_out != sent:
            cls = "session-" + classify_session(script, spec_out)
            ctx.violations.append({"signature": {"class": cls},
                                   "what": f"POSIX sh running the recorded script does not print what was written to the terminal ({cls})",
                                   "case": case, "script": script.decode("latin-1")[:2000], "spec_eval": None if spec_out is None else hexs(spec_out)[:400], "sent": hexs(sent)[:400]})
        shell_items.append((case, script, sent, spec_out))
    # real shells on the sessions
    sample = shell_items[: ctx.pick(60, 400)]
    res = run_in_shells(ctx, [s for _, s, _, _ in sample], "sess")
    for name, outs in res.items():
        for (case, script, sent, spec_out), (o, e) in zip(sample, outs):
            cov.bump(f"shell/{name}/session")
            if o is None:
                ctx.corr_breaks.append({"what": f"{name} did not run the session script (harness)", "case": case})
                continue
            if spec_out is not None and o != spec_out:
                ctx.corr_breaks.append({"what": f"Spec.PosixShSpec.eval disagrees with {name} on a session script", "case": case, "impl": hexs(o)[:300], "model": hexs(spec_out)[:300]})
            if o != sent:
                ctx.violations.append({"signature": {"class": "session-" + classify_session(script, spec_out)},
                                       "what": f"{name} running the recorded script does not print what was written to the terminal: stderr={e[:80]!r}",
                                       "case": case, "script": script.decode("latin-1")[:2000], "shell": name, "stdout": hexs(o)[:400], "sent": hexs(sent)[:400]})


def check_highlevel_sessions(ctx, model, cov):
    """The exporter switched on under a TupimageTerminal (tupiterm.term.shellscript_out = ...): upload_and_display /
    display_only with every final cursor position, with and without line feeds, at absolute positions, with 0 or 1 tmux
    layers.  Whatever reaches the two output streams (recorded in order on one stream) is what `sh script` prints."""
    rng = ctx.rng
    work = ctx.work
    sessions = []
    for _ in range(ctx.pick(40, 400)):
        ops = []
        for _ in range(rng.randrange(1, 4)):
            ops.append({"call": rng.choice(["upload_and_display", "display_only"]), "cols": rng.choice([1, 2, 5]), "rows": rng.choice([1, 2, 3]),
                        "ulf": rng.random() < 0.5, "final": rng.choice([None, "top-left", "top-right", "bottom-left", "bottom-right"]),
                        "abs": rng.choice([None, None, [3, 2]]), "img": rng.randrange(2)})
        sessions.append({"layers": rng.choice([0, 0, 1]), "ops": ops})

    def child():
        common.scrub_process_env()
        os.environ["HOME"] = work
        os.environ["XDG_STATE_HOME"] = os.path.join(work, "state")
        os.environ["XDG_CONFIG_HOME"] = os.path.join(work, "config")
        bindir = os.path.join(work, "bin-c18")
        os.makedirs(bindir, exist_ok=True)
        with open(os.path.join(bindir, "tmux"), "w") as f:
            f.write("#!/bin/sh\necho 'fake-term||||77||||88_sess'\n")
        os.chmod(os.path.join(bindir, "tmux"), 0o755)
        os.environ["PATH"] = bindir + ":" + os.environ.get("PATH", "")
        import tupimage
        from PIL import Image
        imgs = []
        for i in range(2):
            p = os.path.join(work, f"c18-hl-{i}.png")
            Image.new("RGB", (6 + i, 5), (40 * i, 9, 9)).save(p)
            imgs.append(p)
        tty_in = open("/dev/tty", "rb", buffering=0)
        out = []
        for si, sess in enumerate(sessions):
            rec = common.RecStream()
            db = os.path.join(work, f"c18-hl-{os.getpid()}-{si}.db")
            t = tupimage.TupimageTerminal(out_command=rec, out_display=rec, in_response=tty_in, id_database=db, config="DEFAULT", upload_method="direct",
                                          num_tmux_layers=sess["layers"], redetect_terminal=False, id_space="8bit")
            script = io.StringIO()
            t.term.shellscript_out = script
            errors = []
            for op in sess["ops"]:
                kw = {}
                if op["final"]:
                    kw["final_cursor_pos"] = op["final"]
                if op["abs"] is not None:
                    kw["abs_pos"] = tuple(op["abs"])
                elif op["ulf"]:
                    kw["use_line_feeds"] = True
                try:
                    if op["call"] == "upload_and_display":
                        t.upload_and_display(imgs[op["img"]], cols=op["cols"], rows=op["rows"], **kw)
                    else:
                        t.display_only(17 + op["img"], start_col=0, start_row=0, end_col=op["cols"], end_row=op["rows"], **kw)
                except Exception as e:  # noqa
                    errors.append(f"{op['call']}: {type(e).__name__}: {e}"[:160])
            out.append({"script": script.getvalue().encode("utf-8").hex(), "sent": b"".join(bytes(w) for w in rec.writes).hex(), "errors": errors})
            t.id_manager.close()
            os.remove(db)
        return out

    r = common.in_pty(child, timeout=600)
    if "ok" not in r:
        ctx.corr_breaks.append({"what": "TupimageTerminal sessions with the exporter failed in the pty sandbox", "error": {k: v for k, v in r.items() if k != "tty"}})
        return
    reps = model.batch([f"c18.spec_eval {res['script']}" for res in r["ok"]])
    items = []
    for sess, res, rep in zip(sessions, r["ok"], reps):
        script, sent = bytes.fromhex(res["script"]), bytes.fromhex(res["sent"])
        spec_out = unhex(rep)
        case = {"kind": "highlevel-session", "session": sess}
        cov.add(case, nontrivial=len(sent) > 0, klass=f"highlevel-session/layers={sess['layers']}")
        for e in res["errors"]:
            cov.bump("highlevel-session/op-raised/" + e.split(":")[1].strip())
        if spec_out != sent:
            ctx.violations.append({"signature": {"class": "session-" + classify_session(script, spec_out), "path": "TupimageTerminal"},
                                   "what": "TupimageTerminal with the exporter switched on: POSIX sh running the recorded script does not print what was written to the terminal "
                                           f"({len(sent)} bytes sent, the script prints {None if spec_out is None else len(spec_out)})",
                                   "case": case, "script": script.decode("latin-1")[:2000], "sent": hexs(sent)[:400]})
            break
        items.append((case, script, sent))
    sample = items[: ctx.pick(15, 100)]
    for name, outs in run_in_shells(ctx, [s_ for _, s_, _ in sample], "hlsess").items():
        for (case, script, sent), (o, e) in zip(sample, outs):
            if o is not None and o != sent:
                ctx.violations.append({"signature": {"class": "session-script-output-differs", "path": "TupimageTerminal"},
                                       "what": f"{name} running the script recorded under a TupimageTerminal does not print what was written to the terminal", "case": case,
                                       "script": script.decode("latin-1")[:2000], "shell": name})
                break


def classify_session(script, spec_out):
    if any(f.startswith(b"-") for f in formats_in(script)):
        return "printf-format-starts-with-dash"
    return "script-outside-posix-subset" if spec_out is None else "script-output-differs"


# ------------------------------------------------------------------------------ entry points
def run(ctx, model):
    cov = common.Coverage("case = (data bytes, comment) given to write_to_shellscript, a base64 text given to the decoders, or a GraphicsTerminal "
                          "session (operation list); non-trivial = non-empty data / accepted base64 / session that wrote bytes; distinct by hash of the case")
    if model is None:
        return cov
    common.scrub_process_env()
    tup = common.import_impl()
    H = tup.graphics_terminal.ShellScriptBinaryIOHelper
    check_base64_library(ctx, model, cov)
    check_ratio(ctx, cov)
    check_spec_vs_shells(ctx, model, cov)
    check_scripts(ctx, model, H, cov)
    check_sessions(ctx, model, H, cov)
    check_highlevel_sessions(ctx, model, cov)
    # of several violations of one class report one that a real shell confirmed, the shortest first
    ctx.violations.sort(key=lambda v: (0 if "shell" in v else 1, len(v.get("script", ""))))
    return cov


def replay(ctx, model, rec):
    case = rec["case"]
    tup = common.import_impl()
    H = tup.graphics_terminal.ShellScriptBinaryIOHelper
    if case.get("kind") == "write":
        d = unhex(case["data"])
        s = impl_script(H, d, case.get("comment", ""))
        spec_out = unhex(model.one(f"c18.spec_eval {hexs(s)}")) if model is not None else None
        res = run_in_shells(ctx, [s], "replay")
        outs = {name: r[0][0] for name, r in res.items()}
        violates = (model is not None and spec_out != d) or any(o != d for o in outs.values())
        return {"violates": violates, "data": repr(d), "script": s.decode("latin-1"), "spec_eval": None if spec_out is None else repr(spec_out),
                "shell_stdout": {k: repr(v) for k, v in outs.items()}}
    if case.get("kind") == "session":
        sess = case["session"]
        common.scrub_process_env()
        r = common.in_pty(lambda: run_sessions_child([sess]))
        if "ok" not in r:
            return {"violates": False, "error": str(r)[:500]}
        res = r["ok"][0]
        script = bytes.fromhex(res["script"])
        sent = b"".join(bytes.fromhex(w) for w in res["writes"])
        spec_out = unhex(model.one(f"c18.spec_eval {hexs(script)}")) if model is not None else None
        sh = run_in_shells(ctx, [script], "replay")
        outs = {name: rr[0][0] for name, rr in sh.items()}
        return {"violates": (model is not None and spec_out != sent) or any(o != sent for o in outs.values()),
                "script": script.decode("latin-1")[:3000], "sent": repr(sent[:300]), "shell_stdout": {k: repr(v[:300]) if v is not None else None for k, v in outs.items()}}
    if case.get("kind") == "highlevel-session":
        n0 = len(ctx.violations)
        check_highlevel_sessions(ctx, model, common.Coverage("replay"))
        mine = ctx.violations[n0:]
        del ctx.violations[n0:]
        return {"violates": bool(mine), "violations": [v["what"] for v in mine][:3], "note": "the generated sessions of this seed are re-run"}
    return {"violates": False, "note": "unknown case kind"}
