"""Shared by harness/c07.py, c13.py, c14.py: case encoding, implementation runner, model requests,
the Spec oracle (extracted Spec terminal + placeholder decoder run on implementation bytes)."""
import io

import common
from common import hexs, unhex

PH = 0x10EEEE
ALL_MODES = [(a, b, c, l1, l2) for a in (1, 0) for b in (0, 1) for c in (1, 0) for l1 in (1, 2, 3, 4) for l2 in (0, 1, 2, 3, 4)]
assert len(ALL_MODES) == 160
STYLES = ("sr", "rel", "lf", "abs")          # save/restore, relative moves, line feeds, absolute position
TABLE_LEN = 297


# ------------------------------------------------------------------------------ encoding
def fmt_arg(f):
    k = f["kind"]
    if k == "N":
        return "N"
    if k == "B":
        return "B:" + f["bytes"]
    if k == "R":
        return "R:" + ",".join(f["table"])
    if k == "C":
        return f"C:{f['a']}:{f['b']}:" + ",".join(f["table"])
    raise ValueError(k)


def fmt_obj(tup, f):
    k = f["kind"]
    if k == "N":
        return None
    if k == "B":
        return unhex(f["bytes"])
    tbl = [unhex(x) for x in f["table"]]
    if k == "R":
        return tup.RowFormatting(lambda row: tbl[row % len(tbl)])
    a, b = f["a"], f["b"]
    return tup.CellFormatting(lambda col, row: tbl[(a * col + b * row) % len(tbl)])


def fmt_is_bg_only(f):
    """formatting restricted to SGR background sequences (what get_formatting produces): the domain of the theorems"""
    import re

    pat = re.compile(rb"(\x1b\[48;5;\d+m|\x1b\[48;2;\d+;\d+;\d+m)*\Z")
    if f["kind"] == "N":
        return True
    items = [f["bytes"]] if f["kind"] == "B" else f["table"]
    return all(pat.match(unhex(x)) for x in items)


def bg_seq(rng):
    if rng.random() < 0.5:
        return b"\033[48;5;%dm" % rng.choice([0, 1, 7, 255, rng.randrange(256)])
    return b"\033[48;2;%d;%d;%dm" % (rng.randrange(256), rng.choice([0, 255, rng.randrange(256)]), rng.randrange(256))


def gen_fmt(rng, bg_only=True, allow_none=True):
    k = rng.choice(["N", "B", "R", "C"] if allow_none else ["B", "R", "C"])
    if k == "N":
        return {"kind": "N"}

    def item():
        if bg_only:
            return bg_seq(rng)
        return rng.choice([b"", b"X", b"\033[1m", b"\033[48;5;3m", b"%d", bg_seq(rng)])

    if k == "B":
        return {"kind": "B", "bytes": hexs(item())}
    tbl = [hexs(item()) for _ in range(rng.choice([1, 2, 3, 5]))]
    if k == "R":
        return {"kind": "R", "table": tbl}
    return {"kind": "C", "a": rng.randrange(1, 7), "b": rng.randrange(0, 7), "table": tbl}


def p_args(c):
    return f"{c['id']} {c['pid']} {c['c0']} {c['r0']} {c['c1']} {c['r1']}"


def m_args(m):
    a, b, c, l1, l2 = m[:5]
    ph = m[5] if len(m) > 5 else [PH]
    return f"{a} {b} {c} {l1} {l2} " + ",".join(str(x) for x in ph)


def model_request(c):
    api = c["api"]
    base = f"{p_args(c)} {m_args(c['mode'])} {fmt_arg(c['fmt'])}"
    if api == "to_lines":
        return f"c07.to_lines {base} {int(c.get('no_escape', False))}"
    if api == "with_linefeeds":
        return f"c07.with_linefeeds {base} {int(c.get('no_escape', False))}"
    pos = "-" if c.get("pos") is None else f"{c['pos'][0]},{c['pos'][1]}"
    us, ul = c["use_save"], c["use_lf"]
    if api == "to_stream":
        return f"c07.to_stream {base} {pos} {int(us)} {int(ul)}"
    if api == "print_placeholder":
        # base placeholder = the case's rectangle with every field perturbed, then overridden field by field
        b = c.get("base")
        bs = "- - - - - -" if b is None else " ".join(str(x) for x in b)
        ov = c.get("override", [True] * 6)
        vals = [c["id"], c["pid"], c["c0"], c["r0"], c["c1"], c["r1"]]
        os_ = " ".join(str(v) if o else "-" for v, o in zip(vals, ov))
        return f"c07.print_placeholder {bs} {os_} {m_args(c['mode'])} {fmt_arg(c['fmt'])} {pos} {int(us)} {int(ul)}"
    raise ValueError(api)


# ------------------------------------------------------------------------------ implementation
def make_mode(tup, m):
    a, b, c, l1, l2 = m[:5]
    ph = m[5] if len(m) > 5 else [PH]
    return tup.ImagePlaceholderMode(
        allow_256colors_for_image_id=bool(a), allow_256colors_for_placement_id=bool(b), skip_placement_id_if_zero=bool(c),
        first_column_diacritic_level=tup.DiacriticLevel(l1), other_columns_diacritic_level=tup.DiacriticLevel(l2),
        placeholder_char="".join(chr(x) for x in ph))


def run_impl(tup, c):
    """-> ("OK", [bytes per line / per write]) or (exception type name, None)"""
    try:
        mode = make_mode(tup, c["mode"])
        fmt = fmt_obj(tup, c["fmt"])
        api = c["api"]
        pos = tuple(c["pos"]) if c.get("pos") is not None else None
        if api == "print_placeholder":
            GT = tup.graphics_terminal.GraphicsTerminal
            disp, cmd = common.RecStream(), common.RecStream()
            t = GT(out_command=cmd, out_display=disp, in_response=io.BytesIO(), in_userinput=io.BytesIO())
            b = c.get("base")
            basep = None if b is None else tup.ImagePlaceholder(*b)
            ov = c.get("override", [True] * 6)
            vals = [c["id"], c["pid"], c["c0"], c["r0"], c["c1"], c["r1"]]
            names = ["image_id", "placement_id", "start_col", "start_row", "end_col", "end_row"]
            kw = {n: v for n, v, o in zip(names, vals, ov) if o}
            t.print_placeholder(basep, pos=pos, mode=mode, formatting=fmt, use_save_cursor=c["use_save"], use_line_feeds=c["use_lf"], **kw)
            if cmd.writes:
                return ("WroteToCommandStream", None)
            return ("OK", disp.writes)
        p = tup.ImagePlaceholder(image_id=c["id"], placement_id=c["pid"], start_col=c["c0"], start_row=c["r0"], end_col=c["c1"], end_row=c["r1"])
        if api == "to_lines":
            return ("OK", p.to_lines(mode, fmt, no_escape=c.get("no_escape", False)))
        s = common.RecStream()
        if api == "with_linefeeds":
            p.to_stream_with_linefeeds(s, mode, fmt, no_escape=c.get("no_escape", False))
        else:
            p.to_stream(s, pos=pos, mode=mode, formatting=fmt, use_save_cursor=c["use_save"], use_line_feeds=c["use_lf"])
        return ("OK", s.writes)
    except (ValueError, IndexError, TypeError) as e:
        return (type(e).__name__, None)


def parse_model_reply(rep):
    if rep.startswith("OK"):
        rest = rep[2:].strip()
        return ("OK", [unhex(x) for x in rest.split(",")] if rest else [])
    return (rep, None)


# ------------------------------------------------------------------------------ Spec oracle
def parse_render(rep):
    """reply of c07.render -> dict(cur, sgr, cells{(y,x):(id,pid,row,col)}, bg{(y,x):color}, other{(y,x):cp})"""
    out = {}
    for part in rep.split(" "):
        k, _, v = part.partition("=")
        out[k] = v
    cur = out["cur"].split(",")
    cells = {}
    for it in filter(None, out["cells"].split(";")):
        y, x, i, p, r, c = (int(z) for z in it.split(","))
        cells[(y, x)] = (i, p, r, c)
    bg = {}
    for it in filter(None, out["bg"].split(";")):
        y, x, col = it.split(",")
        bg[(int(y), int(x))] = col
    other = {}
    for it in filter(None, out["other"].split(";")):
        y, x, cp = (int(z) for z in it.split(","))
        other[(y, x)] = cp
    return {"cur": (int(cur[0]), int(cur[1]), cur[2] == "1"), "sgr": tuple(out["sgr"].split(",")), "cells": cells, "bg": bg, "other": other}


def render_request(W, H, x0, y0, onlcr, data):
    return f"c07.render {W} {H} {x0} {y0} {int(onlcr)} {hexs(data)}"


def expected_cells(c, W, H, x0, y0, scrolls=True):
    """the statement of C07: where each (row, col) of the rectangle must be decoded, after s lines scrolled"""
    h = c["r1"] - c["r0"]
    s = max(0, y0 + h - H) if scrolls else 0
    exp = {}
    for r in range(c["r0"], min(c["r1"], TABLE_LEN)):
        y = y0 - s + (r - c["r0"])
        if y < 0:
            continue
        for col in range(c["c0"], c["c1"]):
            exp[(y, x0 + col - c["c0"])] = (c["id"], c["pid"], r, col)
    return exp


def screen_fits(style, W, H, x0, y0, w, h):
    """horizontal (and, for abs, vertical) fit conditions of the theorem"""
    if style == "sr":
        return x0 + w <= W
    if style == "rel":
        return x0 + w < W
    if style == "lf":
        return x0 == 0 and w <= W
    if style == "abs":
        return x0 + w <= W and y0 + h <= H
    raise ValueError(style)


def first_diff(exp, got):
    for k in sorted(set(exp) | set(got)):
        if exp.get(k) != got.get(k):
            return {"cell_yx": list(k), "expected": exp.get(k), "decoded": got.get(k)}
    return None
