"""C16 — the tracked cursor position always matches the terminal's cursor.

Correspondence: Model.CursorTrack.step (extracted, run against the extracted Spec terminal
Spec.VtCursorSpec) vs the real GraphicsTerminal on a pty pair: all four streams are the pty slave
(raw mode, window size set per case), a helper thread drains the master, feeds every byte to a Python
transcription of the Spec terminal (PyVt) and answers cursor-position queries from it.  After every
call: bytes written, tracked_cursor_position and the result/exception are compared with the model, and
the Spec terminal state reported by the model (extracted Coq) is compared with PyVt (cross-check of the
transcription).
Oracle (the statement itself, on the implementation): after every call,
tracked_cursor_position is None or equals the Spec terminal's cursor."""
import fcntl
import os
import pty
import struct
import termios
import threading
import time
import tty
import unicodedata

import common
from common import hexs

GEN_DEPS = ("gen_cursor",)
EXTRA_PROPS = ()
ASSUMPTIONS = [
    "the terminal is the cursor-only VT/xterm reading in coq/Spec/VtCursorSpec.v: UTF-8, deferred wrap, CUU/CUD stop at "
    "the scroll margins only when started inside them, DECSTBM homes the cursor, LF keeps the column (raw tty, no ONLCR), "
    "no origin mode / autowrap-off / LNM / left-right margins, no East-Asian wide characters, zero width = Mn/Me/Cf per Unicode 15",
    "display and command stream reach the same terminal in the order written (the harness uses unbuffered streams)",
    "bytes the caller writes itself (write, writecmd) are complete sequences, set no scroll margins and make the terminal "
    "answer nothing (Spec.vt_plain, checked on every generated case); graphics commands are APC/DCS strings without "
    "cursor effect in a terminal that does not place classic images (Spec.vt_null, checked on every command sent)",
    "get_size() returns the same W x H during a history (no resize); arguments of move_cursor_abs, scroll_*, set_margins, "
    "placeholder positions are non-negative",
    "int() on the two fields of a cursor position report is modelled for ASCII digits only",
]
TRUSTED = [
    "harness/c16.py PyVt: Python transcription of Spec/VtCursorSpec.v used to answer ESC[6n live; compared with the extracted "
    "Spec after every call of every case",
    "pty pair in raw mode as the transport between the library and the terminal model",
]

FIX_NAMES = ["abs_zero", "clamp_low", "ph_forgets", "margins", "pending_wrap"]


# --------------------------------------------------------------------------- PyVt: the Spec, transcribed
def _zero_width(cp):
    if cp == 0xAD:
        return False
    if 0x1160 <= cp <= 0x11FF or cp == 0x200B:
        return True
    return unicodedata.category(chr(cp)) in ("Mn", "Me", "Cf")


_ZW_CACHE = {}


def zero_width(cp):
    r = _ZW_CACHE.get(cp)
    if r is None:
        r = _ZW_CACHE[cp] = _zero_width(cp) if cp < 0x110000 else False
    return r


class PyVt:
    """Cursor-only VT terminal: same rules as coq/Spec/VtCursorSpec.v, written independently of the extraction."""

    def __init__(self, W, H):
        self.W, self.H = W, H
        self.x = self.y = 0
        self.pend = False
        self.sx = self.sy = 0
        self.spend = False
        self.top, self.bot = 0, H - 1
        self.ps = "G"  # G, E, EI, C, U, S
        self.ok = True
        self.done = []
        self.cur = None
        self.need = 0
        self.acc = 0
        self.osc = False

    # --- cursor semantics
    def goto(self, x, y):
        self.x = max(0, min(x, self.W - 1))
        self.y = max(0, min(y, self.H - 1))
        self.pend = False

    def index(self):
        if self.y == self.bot:
            self.goto(self.x, self.y)
        else:
            self.goto(self.x, self.y + 1)

    def rindex(self):
        if self.y == self.top:
            self.goto(self.x, self.y)
        else:
            self.goto(self.x, self.y - 1)

    def up(self, n):
        lim = self.top if self.top <= self.y else 0
        self.goto(self.x, max(lim, self.y - n))

    def down(self, n):
        lim = self.bot if self.y <= self.bot else self.H - 1
        self.goto(self.x, min(lim, self.y + n))

    def print1(self):
        if self.pend:
            self.index()
            self.goto(0, self.y)
        if self.x == self.W - 1:
            self.pend = True
        else:
            self.goto(self.x + 1, self.y)

    def save(self):
        self.sx, self.sy, self.spend = self.x, self.y, self.pend

    def restore(self):
        self.x, self.y, self.pend = self.sx, self.sy, self.spend

    def c0(self, b):
        if b == 8:
            self.goto(self.x - 1, self.y)
        elif b == 9:
            if not self.pend:
                self.goto((self.x // 8 + 1) * 8, self.y)
        elif b in (10, 11, 12):
            self.index()
        elif b == 13:
            self.goto(0, self.y)

    def esc(self, b):
        if b == 0x44:
            self.index()
        elif b == 0x45:
            self.index()
            self.goto(0, self.y)
        elif b == 0x4D:
            self.rindex()
        elif b == 0x63:
            self.x = self.y = self.sx = self.sy = 0
            self.pend = self.spend = False
            self.top, self.bot = 0, self.H - 1
        elif b == 0x37:
            self.save()
        elif b == 0x38:
            self.restore()

    def csi(self, ps, f):
        def par(i):
            return ps[i] if i < len(ps) else 0

        def par1(i):
            return par(i) or 1

        c = chr(f)
        if c == "A":
            self.up(par1(0))
        elif c == "B":
            self.down(par1(0))
        elif c == "C":
            self.goto(self.x + par1(0), self.y)
        elif c == "D":
            self.goto(self.x - par1(0), self.y)
        elif c == "E":
            self.down(par1(0))
            self.goto(0, self.y)
        elif c == "F":
            self.up(par1(0))
            self.goto(0, self.y)
        elif c in "G`":
            self.goto(par1(0) - 1, self.y)
        elif c == "d":
            self.goto(self.x, par1(0) - 1)
        elif c in "Hf":
            self.goto(par1(1) - 1, par1(0) - 1)
        elif c == "s":
            self.save()
        elif c == "u":
            self.restore()
        elif c == "r":
            top = par(0) or 1
            bot = par(1)
            if bot == 0 or bot > self.H:
                bot = self.H
            if top < bot:
                self.top, self.bot = top - 1, bot - 1
                self.x = self.y = 0
                self.pend = False
        elif c == "n":
            if par(0) == 6:
                return b"\033[%d;%dR" % (self.y + 1, self.x + 1)
        return b""

    # --- parser
    def ground(self, b):
        if b == 27:
            self.ps = "E"
        elif b < 32:
            self.c0(b)
        elif b < 127:
            self.print1()
        elif b == 127:
            pass
        elif b < 194:
            self.print1()  # U+FFFD
        elif b < 224:
            self.ps, self.need, self.acc = "U", 0, b - 192
        elif b < 240:
            self.ps, self.need, self.acc = "U", 1, b - 224
        elif b < 245:
            self.ps, self.need, self.acc = "U", 2, b - 240
        else:
            self.print1()

    def feed_byte(self, b):
        """returns the bytes the terminal answers"""
        ps = self.ps
        if ps == "G":
            self.ground(b)
        elif ps == "U":
            if 128 <= b < 192:
                self.acc = self.acc * 64 + (b - 128)
                if self.need == 0:
                    self.ps = "G"
                    if not zero_width(self.acc):
                        self.print1()
                else:
                    self.need -= 1
            else:
                self.print1()  # U+FFFD, width 1
                self.ps = "G"
                self.ground(b)
        elif ps == "E":
            if b == 27:
                pass
            elif b in (24, 26):
                self.ps = "G"
            elif b < 32:
                self.c0(b)
            elif b == 0x5B:
                self.ps, self.ok, self.done, self.cur = "C", True, [], None
            elif b in (0x5F, 0x50, 0x5E, 0x58):
                self.ps, self.osc = "S", False
            elif b == 0x5D:
                self.ps, self.osc = "S", True
            elif b < 48:
                self.ps = "EI"
            elif b < 127:
                self.ps = "G"
                self.esc(b)
            else:
                self.ps = "G"
        elif ps == "EI":
            if b == 27:
                self.ps = "E"
            elif b in (24, 26):
                self.ps = "G"
            elif b < 32:
                self.c0(b)
            elif b < 48:
                pass
            else:
                self.ps = "G"
        elif ps == "C":
            if 48 <= b <= 57:
                self.cur = (self.cur or 0) * 10 + (b - 48)
            elif b == 59:
                self.done.append(self.cur or 0)
                self.cur = None
            elif b == 27:
                self.ps = "E"
            elif b in (24, 26):
                self.ps = "G"
            elif b < 32:
                self.c0(b)
            elif b < 64:
                self.ok = False
            elif b < 127:
                self.ps = "G"
                if self.ok:
                    return self.csi(self.done + [self.cur or 0], b)
            elif b == 127:
                pass
            else:
                self.ps = "G"
        elif ps == "S":
            if b == 27:
                self.ps = "E"
            elif b in (24, 26):
                self.ps = "G"
            elif self.osc and b == 7:
                self.ps = "G"
        return b""

    def feed(self, data):
        rep = b""
        for b in data:
            rep += self.feed_byte(b)
        return rep

    def snap(self):
        return f"{self.x},{self.y},{int(self.pend)},{self.top},{self.bot},{int(self.ps == 'G')}"


# --------------------------------------------------------------------------- the rig: pty + terminal thread
class Out:
    """Unbuffered output stream on the pty slave that logs what is written (tagged with the stream)."""

    def __init__(self, fd, tag, rig):
        self.fd, self.tag, self.rig = fd, tag, rig

    def write(self, b):
        b = bytes(b)
        self.rig.chunks.append((self.tag, b))
        self.rig.written += len(b)
        mv = memoryview(b)
        while mv:
            n = os.write(self.fd, mv)
            mv = mv[n:]
        return len(b)

    def flush(self):
        pass

    def fileno(self):
        return self.fd


class BufferedOut(Out):
    """A buffered display stream (the shape of sys.stdout.buffer next to an unbuffered /dev/tty command stream): bytes reach
    the pty only at flush()."""

    def __init__(self, fd, tag, rig):
        super().__init__(fd, tag, rig)
        self.buf = b""

    def write(self, b):
        self.buf += bytes(b)
        return len(b)

    def flush(self):
        if self.buf:
            data, self.buf = self.buf, b""
            Out.write(self, data)


class Rig:
    def __init__(self, W, H, buffered=False):
        self.master, self.slave = pty.openpty()
        tty.setraw(self.slave)
        fcntl.ioctl(self.slave, termios.TIOCSWINSZ, struct.pack("HHHH", H, W, W * 8, H * 16))
        self.vt = PyVt(W, H)
        self.chunks = []
        self.written = 0
        self.consumed = 0
        self.stop = False
        self.cv = threading.Condition()
        self.fds = [os.dup(self.slave) for _ in range(4)]
        self.out_display = (BufferedOut if buffered else Out)(self.fds[0], "d", self)
        self.out_command = Out(self.fds[1], "c", self)
        self.in_response = os.fdopen(self.fds[2], "rb", buffering=0)
        self.in_userinput = os.fdopen(self.fds[3], "rb", buffering=0)
        self.wake_r, self.wake_w = os.pipe()
        self.thread = threading.Thread(target=self._loop, daemon=True)
        self.thread.start()

    def _loop(self):
        import select

        while not self.stop:
            r, _, _ = select.select([self.master, self.wake_r], [], [], 1.0)
            if self.master not in r:
                continue
            try:
                data = os.read(self.master, 65536)
            except OSError:
                break
            if not data:
                break
            rep = self.vt.feed(data)
            if rep:
                os.write(self.master, rep)
            with self.cv:
                self.consumed += len(data)
                self.cv.notify_all()

    def sync(self, timeout=20.0):
        """wait until the terminal has consumed everything written so far"""
        end = time.time() + timeout
        with self.cv:
            while self.consumed < self.written:
                left = end - time.time()
                if left <= 0:
                    return False
                self.cv.wait(left)
        return True

    def close(self):
        self.stop = True
        os.write(self.wake_w, b"x")
        self.thread.join(timeout=2)
        for f in (self.in_response, self.in_userinput):
            try:
                f.close()
            except OSError:
                pass
        for fd in self.fds[:2] + [self.master, self.slave, self.wake_r, self.wake_w]:
            try:
                os.close(fd)
            except OSError:
                pass


# --------------------------------------------------------------------------- case generation
SIZES = [(1, 1), (2, 2), (80, 24), (10, 5), (200, 60), (80, 24), (10, 5), (3, 4)]

WRITES = [b"hello", b"\r", b"\n", b"\r\n", b"a\tb", b"\b", b"\033[5;5H", b"\033[H", b"\033[2J", b"\033[10A", b"\033[3B",
          b"\033[s", b"\033[u", b"\0337", b"\0338", b"\033M", b"\033[3E", b"\033[2F", "é̃x".encode(), "\U0010eeee̅̍".encode(),
          b"\033[0m", b"\033[38;2;1;2;3mZ", b"\033[?25l", b"\033(B", b"\033[999;999H", b"\033[20C", b"\033D", b"\033E", b"\xff", b"\033[7G"]


def gen_case(ctx, idx):
    rng = ctx.rng
    W, H = rng.choice(SIZES)
    if ctx.quick() and (W, H) == (200, 60) and rng.random() < 0.5:
        W, H = 80, 24
    scroll = rng.random() < 0.4
    xs = [0, 1, W - 1, W, 10 * W, 2, W // 2]
    ys = [0, 1, H - 1, H, 10 * H, 2, H // 2]

    def px():
        return rng.choice(xs)

    def py():
        return rng.choice(ys)

    def optv(f, p=0.5):
        return f() if rng.random() < p else None

    ops = []
    n = rng.randint(5, 40)
    big = W * H > 5000
    for _ in range(n):
        k = rng.random()
        if k < 0.26:
            r = d = l = u = None
            if rng.random() < 0.7:
                if rng.random() < 0.5:
                    r = px()
                else:
                    l = px()
            if rng.random() < 0.7:
                if rng.random() < 0.5:
                    d = py()
                else:
                    u = py()
            if rng.random() < 0.04:
                r, l = px(), px()
            if rng.random() < 0.04:
                d, u = py(), py()
            if rng.random() < 0.06 and r is not None:
                r = -r
            if rng.random() < 0.06 and d is not None:
                d = -d
            ops.append({"op": "mv", "r": r, "d": d, "l": l, "u": u})
        elif k < 0.40:
            ops.append({"op": "abs", "c": optv(px, 0.7), "r": optv(py, 0.7), "pos": rng.random() < 0.3})
        elif k < 0.45:
            ops.append({"op": "rst"})
        elif k < 0.49:
            ops.append({"op": rng.choice(["su", "sd"]), "n": py()})
        elif k < 0.56:
            if rng.random() < 0.7 and H >= 2:
                t = rng.randrange(0, H - 1)
                b = rng.randrange(t + 1, H)
            else:
                t, b = py(), py()
            ops.append({"op": "mar", "t": t, "b": b})
        elif k < 0.65:
            w = rng.choice(WRITES + [b"x" * W, b"x" * (W - 1), b"x" * (W + 1), b"y" * (2 * W)])
            ops.append({"op": "wr" if rng.random() < 0.85 else "wc", "b": w.hex(), "str": rng.random() < 0.2})
        elif k < 0.69:
            ops.append({"op": rng.choice(["cl", "cs"])})
        elif k < 0.78:
            sc = rng.choice([0, 0, 0, 1, 5, 296, 297])
            sr = rng.choice([0, 0, 0, 1, 3, 290])
            maxw = 12 if big else W + 2
            ec = sc + rng.choice([0, 1, 2, min(W, maxw), rng.randint(1, max(1, min(W, maxw)))])
            er = sr + rng.choice([0, 1, 2, min(H, 7), H, H + 1] if not big else [1, 2, 5])
            er = min(er, 297)
            image = rng.choice([1, 255, 256, 0x123456, 0x01000000, 0xFFFFFFFF, 0x2A00002A, 0, 2**32, rng.randrange(1, 2**32)])
            pl = rng.choice([0, 0, 1, 255, 256, 0xFFFFFF, 2**24, rng.randrange(1, 2**24)])
            pos = (px(), py()) if rng.random() < 0.25 else None
            ops.append({"op": "ph", "image": image, "pl": pl, "sc": sc, "sr": sr, "ec": ec, "er": er, "pos": pos,
                        "save": rng.random() < 0.7, "lf": rng.random() < 0.2})
        elif k < 0.84:
            ops.append({"op": "q"})
        elif k < 0.88:
            ops.append({"op": "qt"})
        else:
            cols = rng.choice([0, 1, 2, W - 1, W, W + 3, rng.randint(1, max(1, W))])
            rows = rng.choice([0, 1, 2, H - 1, H, H + 2, rng.randint(1, max(1, H))])
            if big:
                cols, rows = min(cols, 30), min(rows, H + 2 if rng.random() < 0.1 else 6)
            rows = min(rows, 297)
            if rng.random() < 0.06:
                rows = rng.choice([297, 298, 300])      # rows beyond the 297 addressable ones are printed as blanks: they still move the cursor
            image = rng.choice([1, 77, 0x123456, 0x05000001, rng.randrange(1, 2**32)])
            if rng.random() < 0.04:
                image = rng.choice([None, 0])
            ops.append({"op": "put", "kind": rng.choice(["put", "transmit"]), "image": image, "pl": rng.choice([1, 300, 0xFFFFFF, rng.randrange(1, 2**24)]),
                        "cols": None if rng.random() < 0.03 else cols, "rows": None if rng.random() < 0.03 else rows,
                        "dnm": rng.choice([None, False, True, True])})
    return {"W": W, "H": H, "scroll": scroll, "ops": ops}


def op_to_model(o, g=None):
    def z(v):
        return "N" if v is None else str(v)

    k = o["op"]
    if k == "mv":
        return f"mv:{z(o['r'])}:{z(o['d'])}:{z(o['l'])}:{z(o['u'])}"
    if k == "abs":
        return f"abs:{z(o['c'])}:{z(o['r'])}"
    if k in ("rst", "cl", "cs", "q", "qt"):
        return k
    if k in ("su", "sd"):
        return f"{k}:{o['n']}"
    if k == "mar":
        return f"mar:{o['t']}:{o['b']}"
    if k in ("wr", "wc"):
        return f"{k}:{o['b'] or '-'}"
    if k == "ph":
        pos = o["pos"]
        return (f"ph:{o['image']}:{o['pl']}:{o['sc']}:{o['sr']}:{o['ec']}:{o['er']}:"
                f"{'N' if pos is None else pos[0]}:{'N' if pos is None else pos[1]}:{int(o['save'])}:{int(o['lf'])}")
    if k == "put":
        return f"put:{hexs(g or b'')}:{z(o['image'])}:{o['pl']}:{z(o['cols'])}:{z(o['rows'])}:{int(bool(o['dnm']))}"
    raise ValueError(k)


# --------------------------------------------------------------------------- running the implementation
def run_impl(tup, case):
    """Runs the op sequence on a real GraphicsTerminal.  Returns per-op records."""
    GT = tup.graphics_terminal.GraphicsTerminal
    gc = tup.graphics_command
    buffered = bool(case.get("buffered"))
    rig = Rig(case["W"], case["H"], buffered=buffered)
    recs = []
    try:
        term = GT(out_command=rig.out_command, out_display=rig.out_display, in_response=rig.in_response,
                  in_userinput=rig.in_userinput, reset_by_scrolling=case["scroll"], force_placeholders=True)
        for o in case["ops"]:
            k = o["op"]
            start = len(rig.chunks)
            res = "ok"
            try:
                if k == "mv":
                    kw = {n: o[s] for n, s in (("right", "r"), ("down", "d"), ("left", "l"), ("up", "u")) if o[s] is not None}
                    term.move_cursor(**kw)
                elif k == "abs":
                    if o["pos"] and o["c"] is not None and o["r"] is not None:
                        term.move_cursor_abs(pos=(o["c"], o["r"]))
                    else:
                        kw = {}
                        if o["c"] is not None:
                            kw["col"] = o["c"]
                        if o["r"] is not None:
                            kw["row"] = o["r"]
                        term.move_cursor_abs(**kw)
                elif k == "rst":
                    term.reset()
                elif k == "su":
                    term.scroll_up(o["n"])
                elif k == "sd":
                    term.scroll_down(o["n"])
                elif k == "mar":
                    term.set_margins(o["t"], o["b"])
                elif k == "wr":
                    b = bytes.fromhex(o["b"])
                    if o.get("str"):
                        try:
                            b = b.decode("utf-8")
                        except UnicodeDecodeError:
                            pass
                    term.write(b)
                elif k == "wc":
                    term.writecmd(bytes.fromhex(o["b"]))
                elif k == "cl":
                    term.clear_line()
                elif k == "cs":
                    term.clear_screen()
                elif k == "ph":
                    term.print_placeholder(image_id=o["image"], placement_id=o["pl"], start_col=o["sc"], start_row=o["sr"],
                                           end_col=o["ec"], end_row=o["er"], pos=tuple(o["pos"]) if o["pos"] else None,
                                           use_save_cursor=o["save"], use_line_feeds=o["lf"])
                elif k == "q":
                    p = term.get_cursor_position(timeout=0.7)
                    res = f"pos,{p[0]},{p[1]}"
                elif k == "qt":
                    p = term.get_cursor_position_tracked(timeout=0.7)
                    res = f"pos,{p[0]},{p[1]}"
                elif k == "put":
                    if o["kind"] == "put":
                        cmd = gc.PutCommand(image_id=o["image"], placement_id=o["pl"], rows=o["rows"], cols=o["cols"],
                                            do_not_move_cursor=o["dnm"], quiet=gc.Quietness.QUIET_ALWAYS)
                    else:
                        cmd = gc.TransmitCommand(image_id=o["image"], medium=gc.TransmissionMedium.DIRECT, data=b"\x00\x01\x02abc",
                                                 format=gc.Format.RGB, pix_width=2, pix_height=1, quiet=gc.Quietness.QUIET_ALWAYS,
                                                 placement=gc.PlacementData(placement_id=o["pl"], rows=o["rows"], cols=o["cols"],
                                                                            do_not_move_cursor=o["dnm"]))
                    term.send_command(cmd)
                else:
                    raise RuntimeError(k)
            except (ValueError, IndexError, TimeoutError) as e:
                res = type(e).__name__
            if buffered:
                # the display stream holds its bytes back: the terminal is looked at only after the calls that may ask it
                # (and at the end); the harness flushes there, never in between
                if k not in ("q", "qt", "put", "ph") and o is not case["ops"][-1]:
                    tr = term.tracked_cursor_position
                    recs.append({"bytes": b"", "g": b"", "tracked": None if tr is None else (tr[0], tr[1]), "res": res, "vt": None, "cursor": None, "synced": True, "mflag": None})
                    continue
                rig.out_display.flush()
            synced = rig.sync()
            chunks = rig.chunks[start:]
            g = b""
            if k == "put":
                # the graphics command: leading writes to the command stream (before any query)
                i = 0
                while i < len(chunks) and chunks[i][0] == "c" and chunks[i][1] != b"\033[6n":
                    g += chunks[i][1]
                    i += 1
            tr = term.tracked_cursor_position
            recs.append({"bytes": b"".join(c for _, c in chunks), "g": g, "tracked": None if tr is None else (tr[0], tr[1]),
                         "res": res, "vt": rig.vt.snap(), "cursor": (rig.vt.x, rig.vt.y), "synced": synced,
                         "mflag": getattr(term, "margins_maybe_set", None)})
    finally:
        rig.close()
    return recs


def classify(o):
    k = o["op"]
    if k == "mv":
        return "move/" + ("both" if (o["r"] is not None or o["l"] is not None) and (o["d"] is not None or o["u"] is not None) else "one-axis")
    if k == "abs":
        z = [n for n in ("c", "r") if o[n] == 0]
        return "abs/" + ("zero-arg" if z else "nonzero")
    if k == "ph":
        return "placeholder/" + ("abs-pos" if o["pos"] else ("linefeeds" if o["lf"] else ("save-restore" if o["save"] else "relative")))
    if k == "put":
        return "put/" + o["kind"] + ("/dnm" if o["dnm"] else "/move")
    return k


def check_case(ctx, model_reply, case, recs, cov, idx):
    """Compare one case; returns the first violation (or None)."""
    reps = model_reply.split(" ")
    first_viol = None
    hist = []
    for i, (o, rec, rep) in enumerate(zip(case["ops"], recs, reps)):
        m_out, m_tr, m_res, m_vt, m_flag, m_in = rep.split("|")
        hist.append(o)
        here = {"W": case["W"], "H": case["H"], "scroll": case["scroll"], "ops": hist[:]}
        tr = rec["tracked"]
        tr_s = "N" if tr is None else f"{tr[0]},{tr[1]}"
        if not rec["synced"]:
            ctx.corr_breaks.append({"what": "terminal thread did not consume the output in time", "case": here})
            return first_viol
        # oracle on the implementation
        if tr is not None and tuple(tr) != tuple(rec["cursor"]) and first_viol is None:
            first_viol = {"signature": {"class": violation_class(case, i, recs)},
                          "what": f"after {o['op']} the terminal object believes the cursor is at {tr}, the terminal's cursor is at {rec['cursor']} "
                                  f"({case['W']}x{case['H']} screen, op #{i})",
                          "case": dict(here, kind="history")}
        # correspondence (the model's placeholder emission covers the 297 addressable rows: a put taller than that — its
        # extra rows are printed as blanks — is judged by the oracle above only, and so is the rest of that history)
        if any(h.get("op") == "put" and (h.get("rows") or 0) > 297 for h in hist):
            cov.bump("beyond-the-model/rows>297")
            continue
        diffs = []
        if hexs(rec["bytes"]) != m_out:
            diffs.append("bytes")
        if tr_s != m_tr:
            diffs.append("tracked")
        if rec["res"] != m_res:
            diffs.append("result")
        if not diffs and rec["vt"] != m_vt:
            diffs.append("spec-transcription (PyVt vs extracted Spec)")
        if m_in != "-":
            diffs.append("model left unread terminal answers")
        if diffs:
            ctx.corr_breaks.append({"what": "GraphicsTerminal differs from Model.CursorTrack.step: " + ", ".join(diffs), "case": here,
                                    "impl": {"bytes": hexs(rec["bytes"])[:300], "tracked": tr_s, "res": rec["res"], "vt": rec["vt"]},
                                    "model": {"bytes": m_out[:300], "tracked": m_tr, "res": m_res, "vt": m_vt}})
            return first_viol
    return first_viol


def violation_class(case, i, recs):
    """Name the defect class by the op at which the belief first went wrong and what preceded it."""
    o = case["ops"][i]
    k = o["op"]
    tr, cur = recs[i]["tracked"], recs[i]["cursor"]
    if tr[0] < 0 or tr[1] < 0:
        return "negative-position"
    if k == "abs" and (o["c"] == 0 or o["r"] == 0):
        return "abs-move-to-zero"
    if k == "ph":
        return "placeholder-keeps-stale-position"
    if any(p["op"] == "mar" for p in case["ops"][:i + 1]) and tr[1] != cur[1]:
        return "scroll-margins"
    if k == "put":
        return "put-after-pending-wrap" if i > 0 and recs[i - 1]["vt"].split(",")[2] == "1" else "put"
    return "other/" + k


def model_requests(cases, all_recs, fixes="src"):
    reqs = []
    for case, recs in zip(cases, all_recs):
        toks = [op_to_model(o, rec["g"]) for o, rec in zip(case["ops"], recs)]
        reqs.append(f"c16.run {case['W']} {case['H']} {int(case['scroll'])} {fixes} " + " ".join(toks))
    return reqs


FIXED_HISTORIES = [
    # the four defects of the pinned tree + pending wrap, as hand-written histories (run first, both tiers)
    {"W": 80, "H": 24, "scroll": False, "ops": [{"op": "rst"}, {"op": "mv", "r": 5, "d": 3, "l": None, "u": None}, {"op": "abs", "c": 0, "r": None, "pos": False}]},
    {"W": 80, "H": 24, "scroll": False, "ops": [{"op": "rst"}, {"op": "mv", "r": 5, "d": 3, "l": None, "u": None}, {"op": "abs", "c": None, "r": 0, "pos": False}]},
    {"W": 80, "H": 24, "scroll": False, "ops": [{"op": "rst"}, {"op": "mv", "r": 5, "d": None, "l": None, "u": None}, {"op": "mv", "r": None, "d": None, "l": 100, "u": None}]},
    {"W": 80, "H": 24, "scroll": False, "ops": [{"op": "rst"}, {"op": "mv", "r": None, "d": 2, "l": None, "u": None}, {"op": "mv", "r": None, "d": None, "l": None, "u": 9}]},
    {"W": 80, "H": 24, "scroll": False, "ops": [{"op": "rst"}, {"op": "ph", "image": 1, "pl": 0, "sc": 0, "sr": 0, "ec": 4, "er": 3, "pos": None, "save": True, "lf": False}]},
    {"W": 80, "H": 24, "scroll": False, "ops": [{"op": "rst"}, {"op": "mar", "t": 2, "b": 9}, {"op": "q"}, {"op": "mv", "r": None, "d": 20, "l": None, "u": None}]},
    {"W": 80, "H": 24, "scroll": False, "ops": [{"op": "rst"}, {"op": "mar", "t": 0, "b": 9}, {"op": "abs", "c": 0, "r": 8, "pos": False},
                                                 {"op": "put", "kind": "put", "image": 7, "pl": 1, "cols": 3, "rows": 4, "dnm": None}]},
    {"W": 10, "H": 5, "scroll": False, "ops": [{"op": "rst"}, {"op": "wr", "b": (b"x" * 10).hex(), "str": False},
                                                {"op": "put", "kind": "put", "image": 7, "pl": 1, "cols": 3, "rows": 1, "dnm": None}]},
]


def run(ctx, model):
    cov = common.Coverage("case = (screen size, reset variant, list of calls with their arguments); one evaluation = one call; "
                          "non-trivial = the call wrote bytes or changed the belief; distinct by hash of the whole history prefix")
    if model is None:
        return cov
    common.scrub_process_env()
    tup = common.import_impl()
    ncases = ctx.pick(500, 20000)
    cases = list(FIXED_HISTORIES) + [gen_case(ctx, i) for i in range(ncases)]
    chunk = 500
    src_flags = None
    for base in range(0, len(cases), chunk):
        part = cases[base:base + chunk]
        all_recs = [run_impl(tup, c) for c in part]
        # hypotheses of the theorem, checked with the Spec's own predicates
        hyp_reqs, hyp_what = [], []
        for case, recs in zip(part, all_recs):
            for o, rec in zip(case["ops"], recs):
                if o["op"] in ("wr", "wc"):
                    hyp_reqs.append(f"c16.plain {o['b'] or '-'}")
                    hyp_what.append(("write argument is not Spec.vt_plain", o))
                elif o["op"] == "put" and rec["g"]:
                    hyp_reqs.append(f"c16.null {hexs(rec['g'])}")
                    hyp_what.append(("graphics command bytes are not Spec.vt_null", {"g": hexs(rec["g"])[:200]}))
        for rep, (what, o) in zip(model.batch(hyp_reqs), hyp_what):
            if rep != "1":
                ctx.corr_breaks.append({"what": "hypothesis of C16_tracked_sound not met by a generated case: " + what, "case": o})
        reps = model.batch(model_requests(part, all_recs))
        for j, (case, recs, rep) in enumerate(zip(part, all_recs, reps)):
            v = check_case(ctx, rep, case, recs, cov, base + j)
            if v is not None:
                ctx.violations.append(v)
            hist = []
            for o, rec in zip(case["ops"], recs):
                hist.append(o)
                cov.add({"W": case["W"], "H": case["H"], "scroll": case["scroll"], "ops": hist if len(hist) < 6 else [len(hist), hist[-3:]]},
                        nontrivial=bool(rec["bytes"]), klass=classify(o))
                if rec["tracked"] is not None:
                    cov.bump("oracle/position-known")
                else:
                    cov.bump("oracle/position-unknown")
            cov.bump(f"size/{case['W']}x{case['H']}")
            cov.bump("reset/by-scrolling" if case["scroll"] else "reset/RIS")
        if len(ctx.violations) >= 400 or len(ctx.corr_breaks) >= 40:
            break
    buffered_display(ctx, tup, cov)
    highlevel_tracking(ctx, cov)
    report_extra_classes(ctx)
    return cov


def buffered_display(ctx, tup, cov):
    """The stream pair of a default terminal: out_display BUFFERED, out_command unbuffered, both on the same pty.  What the
    terminal object believes must hold for the bytes it has written so far, flushed or not: it has to flush the display
    stream itself before it asks the terminal where the cursor is.  Oracle only (no model comparison: the order in which
    the two streams reach the pty is the point here); observed after every call that may ask, and at the end."""
    fixed = [
        {"W": 80, "H": 24, "scroll": False, "ops": [{"op": "abs", "c": 0, "r": 0, "pos": True}, {"op": "wr", "b": b"hello".hex(), "str": False}, {"op": "qt"}]},
        {"W": 80, "H": 24, "scroll": False, "ops": [{"op": "rst"}, {"op": "wr", "b": (b"x" * 78).hex(), "str": False},
                                                     {"op": "put", "kind": "put", "image": 7, "pl": 1, "cols": 10, "rows": 1, "dnm": None}]},
        {"W": 10, "H": 5, "scroll": False, "ops": [{"op": "wr", "b": b"ab\r\ncd".hex(), "str": False}, {"op": "q"}, {"op": "mv", "r": 2, "d": None, "l": None, "u": None}, {"op": "qt"}]},
    ]
    cases = fixed + [gen_case(ctx, 10**6 + i) for i in range(ctx.pick(150, 3000))]
    for case in cases:
        case = dict(case, buffered=True)
        recs = run_impl(tup, case)
        hist = []
        for i, (o, rec) in enumerate(zip(case["ops"], recs)):
            hist.append(o)
            if rec["cursor"] is None:
                continue
            cov.bump("buffered-display/observed-" + ("known" if rec["tracked"] is not None else "unknown"))
            if not rec["synced"]:
                ctx.corr_breaks.append({"what": "terminal thread did not consume the output in time (buffered display stream)", "case": {"ops": hist[-5:]}})
                break
            if rec["tracked"] is not None and tuple(rec["tracked"]) != tuple(rec["cursor"]):
                ctx.violations.append({"signature": {"class": "asks-before-flushing-the-display-stream" if o["op"] in ("q", "qt", "put", "ph") else "other/" + o["op"]},
                                       "what": f"buffered display stream next to an unbuffered command stream: after {o['op']} the terminal object believes the cursor is at "
                                               f"{rec['tracked']}, the terminal's cursor is at {rec['cursor']} ({case['W']}x{case['H']} screen, op #{i})",
                                       "case": {"kind": "history", "W": case["W"], "H": case["H"], "scroll": case["scroll"], "ops": hist[:], "buffered": True}})
                break
        cov.add({"buffered": True, "W": case["W"], "H": case["H"], "ops": len(case["ops"]), "first": case["ops"][:3]}, klass="buffered-display/history")
        if len(ctx.violations) >= 20:
            break


def highlevel_tracking(ctx, cov):
    """TupimageTerminal.display_only (relative, with line feeds, at an absolute position — also one whose rectangle runs past
    the right or the bottom edge — and every final cursor position) mixed with cursor moves and text on the underlying
    GraphicsTerminal: after every call, whenever the terminal object claims to know the cursor position it is the Spec
    terminal's.  Oracle only.  Runs in a pty sandbox (TupimageTerminal opens /dev/tty) around the rig's own pty."""
    work = ctx.work
    rng = ctx.rng
    hists = []
    for _ in range(ctx.pick(60, 1200)):
        W, H = rng.choice([(80, 24), (40, 12), (20, 10)])
        ops = []
        for _ in range(rng.randrange(3, 10)):
            k = rng.random()
            if k < 0.5:
                w, hh = rng.choice([1, 3, 7, 20]), rng.choice([1, 2, 5])
                mode = rng.choice(["rel", "rel", "lf", "abs", "abs", "abs"])
                ops.append({"op": "display", "w": w, "h": hh, "mode": mode,
                            "abs": [rng.choice([0, 1, W - w, W - w + 3, W - 1, W // 2]), rng.choice([0, 1, H - hh, H - 1, H // 2])] if mode == "abs" else None,
                            "final": rng.choice([None, "top-left", "top-right", "bottom-left", "bottom-right"]), "id": rng.choice([5, 0x1234, 0x01000007])})
            elif k < 0.65:
                ops.append({"op": "abs", "c": rng.choice([0, 3, W - 1]), "r": rng.choice([0, 2, H - 1])})
            elif k < 0.8:
                ops.append({"op": "mv", "r": rng.choice([None, 2, W]), "d": rng.choice([None, 1, H])})
            elif k < 0.9:
                ops.append({"op": "wr", "b": rng.choice([b"hello", b"x" * (W - 2), b"\r\n"]).hex()})
            else:
                ops.append({"op": "qt"})
        hists.append({"W": W, "H": H, "ops": ops})

    def child():
        common.scrub_process_env()
        os.environ["HOME"] = work
        os.environ["XDG_STATE_HOME"] = os.path.join(work, "state")
        os.environ["XDG_CONFIG_HOME"] = os.path.join(work, "config")
        import tupimage
        out = []
        for hi, h in enumerate(hists):
            rig = Rig(h["W"], h["H"])
            recs = []
            try:
                t = tupimage.TupimageTerminal(out_command=rig.out_command, out_display=rig.out_display, in_response=rig.in_response,
                                              id_database=os.path.join(work, "c16-hl.db"), config="DEFAULT", num_tmux_layers=0, redetect_terminal=False)
                for o in h["ops"]:
                    res = "ok"
                    try:
                        if o["op"] == "display":
                            kw = {}
                            if o["final"]:
                                kw["final_cursor_pos"] = o["final"]
                            if o["mode"] == "abs":
                                kw["abs_pos"] = tuple(o["abs"])
                            if o["mode"] == "lf":
                                kw["use_line_feeds"] = True
                            t.display_only(o["id"], start_col=0, start_row=0, end_col=o["w"], end_row=o["h"], **kw)
                        elif o["op"] == "abs":
                            t.term.move_cursor_abs(col=o["c"], row=o["r"])
                        elif o["op"] == "mv":
                            kw = {k2: v for k2, v in (("right", o["r"]), ("down", o["d"])) if v is not None}
                            t.term.move_cursor(**kw)
                        elif o["op"] == "wr":
                            t.term.write(bytes.fromhex(o["b"]))
                        else:
                            t.term.get_cursor_position_tracked(timeout=0.7)
                    except (ValueError, IndexError, TimeoutError) as e:
                        res = type(e).__name__
                    rig.out_display.flush()
                    synced = rig.sync()
                    tr = t.term.tracked_cursor_position
                    recs.append({"tracked": None if tr is None else [tr[0], tr[1]], "cursor": [rig.vt.x, rig.vt.y], "synced": synced, "res": res})
                t.id_manager.close()
            finally:
                rig.close()
            out.append(recs)
        return out

    r = common.in_pty(child, timeout=900)
    if "ok" not in r:
        ctx.corr_breaks.append({"what": "high-level tracking histories failed in the pty sandbox", "error": {k: v for k, v in r.items() if k != "tty"}})
        return
    for h, recs in zip(hists, r["ok"]):
        cov.add({"highlevel": [h["W"], h["H"]], "ops": h["ops"][:4]}, klass="highlevel/display_only-history")
        for i, (o, rec) in enumerate(zip(h["ops"], recs)):
            cov.bump("highlevel/observed-" + ("known" if rec["tracked"] is not None else "unknown"))
            if not rec["synced"]:
                ctx.corr_breaks.append({"what": "terminal thread did not consume the output in time (high-level histories)", "case": {"ops": h["ops"][:i + 1]}})
                break
            if rec["tracked"] is not None and rec["tracked"] != rec["cursor"]:
                ctx.violations.append({"signature": {"class": "highlevel/" + o["op"] + ("/" + o["mode"] if o["op"] == "display" else "")},
                                       "what": f"TupimageTerminal on a {h['W']}x{h['H']} screen, after {o} (call #{i}) the terminal object believes the cursor is at {rec['tracked']}, "
                                               f"the terminal's cursor is at {rec['cursor']}",
                                       "case": {"kind": "highlevel-history", "W": h["W"], "H": h["H"], "ops": h["ops"][:i + 1]}})
                break


def report_extra_classes(ctx):
    """./check writes a replay for the first three distinct violation signatures only; every further defect class gets
    its replay file and VIOLATION line here, so that each class is reported with a concrete history."""
    seen, order = set(), []
    for v in ctx.violations:
        c = v["signature"]["class"]
        if c not in seen and not common.known_for(ctx.prop, v["signature"]):
            seen.add(c)
            order.append(v)
    for i, v in enumerate(order[3:], 3):
        path = os.path.join(common.VERIF, "replays", f"{ctx.prop}-{ctx.seed}-{i}.json")
        common.write_json(path, {"property": ctx.prop, "kind": "counterexample", "tier": ctx.tier, "seed": ctx.seed, **v,
                                 "how_to_replay": f"./check {ctx.prop} --replay {path}"})
        print(f"VIOLATION property={ctx.prop} replay={path}")


def replay(ctx, model, rec):
    case = rec["case"]
    if case.get("kind") == "highlevel-history":
        n0 = len(ctx.violations)
        highlevel_tracking(ctx, common.Coverage("replay"))
        mine = ctx.violations[n0:]
        del ctx.violations[n0:]
        return {"violates": bool(mine), "violations": [v["what"] for v in mine][:3], "note": "the generated histories of this seed are re-run"}
    common.scrub_process_env()
    tup = common.import_impl()
    c = {"W": case["W"], "H": case["H"], "scroll": case["scroll"], "ops": case["ops"], "buffered": case.get("buffered", False)}
    recs = run_impl(tup, c)
    trace = []
    bad = None
    for i, (o, r) in enumerate(zip(c["ops"], recs)):
        trace.append({"op": o, "tracked": r["tracked"], "terminal_cursor": r["cursor"], "result": r["res"]})
        if r["tracked"] is not None and r["cursor"] is not None and tuple(r["tracked"]) != tuple(r["cursor"]) and bad is None:
            bad = i
    # the extracted Spec on the same bytes (the Python terminal above is only a transcription)
    spec = None
    if model is not None:
        allb = b"".join(r["bytes"] for r in recs)
        spec = model.one(f"c16.spec {c['W']} {c['H']} {hexs(allb)}")
    return {"violates": bad is not None, "first_bad_op": bad, "trace": trace, "extracted_spec_final": spec,
            "python_spec_final": recs[-1]["vt"] if recs else None}
