"""Extractor for C18: ShellScriptBinaryIOHelper (graphics_terminal.py) -> coq/Gen/ShellScriptGen.v.

The whole helper class is compared, statement by statement, with a template of the code the
model (coq/Model/ShellScript.v) transcribes; the literals (character classes, escape table,
length window, ratio, the text pieces of the printf command, the 80-column rule) are holes
HOLE_x in the template and are read from the current source.  Anything else that differs is
an ExtractError (fail-closed)."""
import ast
from fractions import Fraction

from gen_tables import extractor, parse, find_class, find_func, body_nodoc, expect, coq_bytes, coq_list, HEADER, ExtractError


def match_template(node, tmpl, holes, what):
    """Structural comparison of `node` with `tmpl`; a Name HOLE_x in the template matches any
    Constant (or JoinedStr) and records it in holes[x]."""
    if isinstance(tmpl, ast.Name) and tmpl.id.startswith("HOLE_"):
        expect(isinstance(node, (ast.Constant, ast.JoinedStr)), f"{what}: expected a literal for {tmpl.id}, got {ast.unparse(node)[:80]}")
        key = tmpl.id[5:]
        if key in holes:
            expect(ast.dump(holes[key]) == ast.dump(node), f"{what}: two different literals for {tmpl.id}")
        holes[key] = node
        return
    expect(type(node) is type(tmpl), f"{what}: shape changed: now `{_short(node)}`, was `{_short(tmpl)}`")
    for field in tmpl._fields:
        if field in ("ctx", "type_comment", "kind"):
            continue
        a, b = getattr(node, field, None), getattr(tmpl, field, None)
        if isinstance(b, list):
            expect(isinstance(a, list) and len(a) == len(b), f"{what}: shape changed in `{_short(node)}` ({field}: {len(a) if isinstance(a, list) else '?'} items, was {len(b)})")
            for x, y in zip(a, b):
                if isinstance(y, ast.AST):
                    match_template(x, y, holes, what)
                else:
                    expect(x == y, f"{what}: {field} changed")
        elif isinstance(b, ast.AST):
            expect(isinstance(a, ast.AST), f"{what}: shape changed in `{_short(node)}`")
            match_template(a, b, holes, what)
        else:
            expect(a == b, f"{what}: `{_short(node)}` differs from `{_short(tmpl)}` in {field}")


def _short(n):
    try:
        return ast.unparse(n).split("\n")[0][:100]
    except Exception:  # noqa
        return type(n).__name__


def match_func(cls, name, template_src, holes):
    fn = find_func(cls, name)
    tfn = ast.parse(template_src).body[0]
    expect([ast.unparse(d) for d in fn.decorator_list] == [ast.unparse(d) for d in tfn.decorator_list], f"{name}: decorators changed")
    expect(ast.dump(fn.args) == ast.dump(tfn.args), f"{name}: signature changed")
    b, tb = body_nodoc(fn), body_nodoc(tfn)
    expect(len(b) == len(tb), f"{name}: {len(b)} statements, expected {len(tb)}")
    for i, (x, y) in enumerate(zip(b, tb)):
        match_template(x, y, holes, f"{name} statement {i + 1}")


T_ESCAPE = '''
@staticmethod
def _escape_bytes(data: bytes) -> str:
    escaped = []
    for byte in data:
        c = chr(byte)
        if HOLE_lo <= byte <= HOLE_hi and c not in HOLE_excluded:
            escaped.append(chr(byte))
        elif c == HOLE_k1:
            escaped.append(HOLE_v1)
        elif c == HOLE_k2:
            escaped.append(HOLE_v2)
        elif c == HOLE_k3:
            escaped.append(HOLE_v3)
        else:
            escaped.append(HOLE_octfmt.format(byte))
    return "".join(escaped)
'''

T_SPLIT = '''
@staticmethod
def _split_data_into_chunks(data: bytes):
    ORD_0 = ord(HOLE_c0)
    ORD_9 = ord(HOLE_c9)
    ORD_A = ord(HOLE_cA)
    ORD_Z = ord(HOLE_cZ)
    ORD_a = ord(HOLE_ca)
    ORD_z = ord(HOLE_cz)
    ORD_PLUS = ord(HOLE_cplus)
    ORD_SLASH = ord(HOLE_cslash)
    ORD_EQUAL = ord(HOLE_cequal)

    chunks = []
    current_chunk = bytearray()
    is_base64_chunk = None

    for byte in data:
        is_base64 = (
            (ORD_0 <= byte <= ORD_9)
            or (ORD_A <= byte <= ORD_Z)
            or (ORD_a <= byte <= ORD_z)
            or byte in (ORD_PLUS, ORD_SLASH, ORD_EQUAL)
        )

        if is_base64_chunk is None:
            is_base64_chunk = is_base64

        if is_base64 != is_base64_chunk:
            if current_chunk:
                chunks.append(bytes(current_chunk))
                current_chunk = bytearray()
            is_base64_chunk = is_base64

        current_chunk.append(byte)

    if current_chunk:
        chunks.append(bytes(current_chunk))

    return chunks
'''

# the repaired code (fixes/C18a-canonical-base64.patch)
T_TRY = '''
@staticmethod
def _try_base64(data: bytes) -> Optional[str]:
    if len(data) > HOLE_maxlen or len(data) < HOLE_minlen:
        return None
    try:
        decoded = base64.b64decode(data, validate=True)
        if base64.b64encode(decoded) != data:
            return None
        escaped = ShellScriptBinaryIOHelper._escape_bytes(decoded)
        if len(escaped) > len(decoded) * HOLE_ratio:
            return None
        return escaped
    except:
        return None
'''

# the repaired code (fixes/C18b-leading-dash.patch)
T_DASH = '''
@staticmethod
def _protect_leading_dash(formatstring: str) -> str:
    if formatstring.startswith(HOLE_dash):
        return HOLE_dashrepl + formatstring[1:]
    return formatstring
'''

T_WRITE = '''
@staticmethod
def write_to_shellscript(shellscript_out: TextIO, data: bytes, comment: str = ""):
    chunks = ShellScriptBinaryIOHelper._split_data_into_chunks(data)
    formatstring = ""
    params = []
    for chunk in chunks:
        base64 = ShellScriptBinaryIOHelper._try_base64(chunk)
        if base64 is not None:
            formatstring += HOLE_pct_s
            base64 = ShellScriptBinaryIOHelper._protect_leading_dash(base64)
            params.append(HOLE_param)
        else:
            formatstring += ShellScriptBinaryIOHelper._escape_bytes(chunk)
    formatstring = ShellScriptBinaryIOHelper._protect_leading_dash(formatstring)
    command = HOLE_command
    if params:
        command += HOLE_args
    if not comment:
        shellscript_out.write(HOLE_plain)
        shellscript_out.flush()
        return
    if len(comment) + len(command) + HOLE_extra <= HOLE_columns:
        shellscript_out.write(HOLE_inline)
        shellscript_out.flush()
        return
    shellscript_out.write(HOLE_separate)
    shellscript_out.flush()
'''

T_HELPER_WRITE = '''
def write(self, data: Union[bytes, bytearray]) -> int:
    data = bytes(data)
    ShellScriptBinaryIOHelper.write_to_shellscript(self.shellscript_out, data)
    return len(data)
'''


def fstring_parts(node, what):
    """JoinedStr -> list of ('lit', text) / ('var', expression source); conversions and format specs rejected."""
    if isinstance(node, ast.Constant):
        expect(isinstance(node.value, str), f"{what}: str expected")
        return [("lit", node.value)]
    expect(isinstance(node, ast.JoinedStr), f"{what}: f-string expected")
    parts = []
    for v in node.values:
        if isinstance(v, ast.Constant):
            parts.append(("lit", v.value))
        else:
            expect(isinstance(v, ast.FormattedValue) and v.conversion == -1 and v.format_spec is None, f"{what}: plain {{name}} expected")
            parts.append(("var", ast.unparse(v.value)))
    return parts


def expect_parts(parts, shape, what):
    """shape: list of 'lit' or ('var', name); a missing literal between two variables is ''. Returns the literal texts."""
    norm, i = [], 0
    for s in shape:
        if s == "lit":
            if i < len(parts) and parts[i][0] == "lit":
                norm.append(parts[i][1])
                i += 1
            else:
                norm.append("")
        else:
            expect(i < len(parts) and parts[i] == ("var", s[1]), f"{what}: expected {{{s[1]}}} at position {i}, got {parts[i:i + 1]}")
            i += 1
    expect(i == len(parts), f"{what}: trailing parts {parts[i:]}")
    return norm


def ascii_str(node, what, length=None):
    expect(isinstance(node, ast.Constant) and isinstance(node.value, str), f"{what}: str literal expected")
    s = node.value
    expect(all(ord(ch) < 128 for ch in s), f"{what}: non-ASCII literal")
    if length is not None:
        expect(len(s) == length, f"{what}: expected {length} character(s), got {s!r}")
    return s


def int_lit(node, what):
    expect(isinstance(node, ast.Constant) and type(node.value) is int, f"{what}: int literal expected")
    return node.value


@extractor
def gen_shellscript(repo, out):
    gt = parse(repo, "tupimage/graphics_terminal.py")
    cls = find_class(gt, "ShellScriptBinaryIOHelper")
    names = [n.name for n in cls.body if isinstance(n, ast.FunctionDef)]
    expect(names == ["__init__", "_escape_bytes", "_split_data_into_chunks", "_try_base64", "_protect_leading_dash", "write_to_shellscript", "write"],
           f"ShellScriptBinaryIOHelper: methods changed: {names}")
    h = {}
    match_func(cls, "_escape_bytes", T_ESCAPE, h)
    match_func(cls, "_split_data_into_chunks", T_SPLIT, h)
    match_func(cls, "_try_base64", T_TRY, h)
    match_func(cls, "_protect_leading_dash", T_DASH, h)
    match_func(cls, "write_to_shellscript", T_WRITE, h)
    match_func(cls, "write", T_HELPER_WRITE, h)

    lo, hi = int_lit(h["lo"], "printable lower bound"), int_lit(h["hi"], "printable upper bound")
    excluded = ascii_str(h["excluded"], "excluded characters")
    table = []
    for i in (1, 2, 3):
        k = ascii_str(h[f"k{i}"], f"escape key {i}", 1)
        v = ascii_str(h[f"v{i}"], f"escape value {i}")
        table.append((ord(k), v))
    octfmt = ascii_str(h["octfmt"], "octal format")
    expect(octfmt.endswith("{:03o}") and "{" not in octfmt[:-6] and "}" not in octfmt[:-6], f"octal escape format changed: {octfmt!r}")
    oct_prefix = octfmt[:-6]

    ords = {k: ord(ascii_str(h[k], f"ord({k})", 1)) for k in ("c0", "c9", "cA", "cZ", "ca", "cz", "cplus", "cslash", "cequal")}
    maxlen, minlen = int_lit(h["maxlen"], "max base64 length"), int_lit(h["minlen"], "min base64 length")
    rn = h["ratio"]
    expect(isinstance(rn, ast.Constant) and type(rn.value) in (float, int), "ratio: numeric literal expected")
    ratio = Fraction(repr(rn.value))
    expect(0 < ratio.denominator <= 1000 and 0 < ratio.numerator <= 100000, f"ratio {rn.value!r} is not a small decimal fraction")

    dash = ascii_str(h["dash"], "leading-dash test", 1)
    dashrepl = ascii_str(h["dashrepl"], "leading-dash replacement")
    pct_s = ascii_str(h["pct_s"], "format directive")
    param = expect_parts(fstring_parts(h["param"], "param"), ["lit", ("var", "base64"), "lit"], "param f-string")
    command = expect_parts(fstring_parts(h["command"], "command"), ["lit", ("var", "formatstring"), "lit"], "command f-string")
    # f" {' '.join(params)}"
    an = h["args"]
    expect(isinstance(an, ast.JoinedStr) and len(an.values) == 2 and isinstance(an.values[0], ast.Constant)
           and isinstance(an.values[1], ast.FormattedValue) and an.values[1].conversion == -1 and an.values[1].format_spec is None, "args f-string shape")
    args_lead = an.values[0].value
    call = an.values[1].value
    expect(isinstance(call, ast.Call) and isinstance(call.func, ast.Attribute) and call.func.attr == "join" and isinstance(call.func.value, ast.Constant)
           and len(call.args) == 1 and ast.unparse(call.args[0]) == "params" and not call.keywords, "args: '<sep>'.join(params) expected")
    args_sep = call.func.value.value
    plain = expect_parts(fstring_parts(h["plain"], "plain"), ["lit", ("var", "command"), "lit"], "plain line f-string")
    inline = expect_parts(fstring_parts(h["inline"], "inline"), ["lit", ("var", "command"), "lit", ("var", "comment"), "lit"], "inline comment f-string")
    separate = expect_parts(fstring_parts(h["separate"], "separate"), ["lit", ("var", "comment"), "lit", ("var", "command"), "lit"], "separate comment f-string")
    extra, columns = int_lit(h["extra"], "inline comment extra length"), int_lit(h["columns"], "column limit")
    for s in param + command + [args_lead, args_sep] + plain + inline + separate:
        expect(isinstance(s, str) and all(ord(ch) < 128 for ch in s), "non-ASCII text piece")

    # GraphicsTerminal side: what goes to the script is what goes to the streams
    gtc = find_class(gt, "GraphicsTerminal")
    holes = {}
    match_func(gtc, "_write_to_shellscript", '''
def _write_to_shellscript(self, data: bytes, comment: str = ""):
    if self.shellscript_out is not None:
        ShellScriptBinaryIOHelper.write_to_shellscript(self.shellscript_out, data, comment)
''', holes)
    match_func(gtc, "_write", '''
def _write(self, data: bytes, comment: str = "", flush: bool = False):
    self.out_display.write(data)
    self._write_to_shellscript(data, comment)
    if flush:
        self.out_display.flush()
''', holes)
    match_func(gtc, "writecmd", '''
def writecmd(self, string: Union[str, bytes]):
    self.out_display.flush()
    self.out_command.flush()
    if isinstance(string, str):
        string = string.encode("utf-8")
    self.out_command.write(string)
    self.out_command.flush()
    self._write_to_shellscript(string, comment="")
    self.tracked_cursor_position = None
''', holes)

    B = coq_bytes
    t = HEADER
    t += "(* ShellScriptBinaryIOHelper._escape_bytes *)\n"
    t += f"Definition esc_printable_lo : N := {lo}.\nDefinition esc_printable_hi : N := {hi}.\n"
    t += f"Definition esc_excluded : list N := {B(excluded)}.\n"
    t += "Definition esc_table : list (N * list N) := " + coq_list(f"({k}, {B(v)})" for k, v in table) + ".\n"
    t += f"Definition esc_octal_prefix : list N := {B(oct_prefix)}.\n"
    t += "(* _split_data_into_chunks: the character classes *)\n"
    t += f"Definition b64_ranges : list (N * N) := [({ords['c0']}, {ords['c9']}); ({ords['cA']}, {ords['cZ']}); ({ords['ca']}, {ords['cz']})].\n"
    t += f"Definition b64_singles : list N := [{ords['cplus']}; {ords['cslash']}; {ords['cequal']}].\n"
    t += "(* _try_base64 *)\n"
    t += f"Definition b64_max_len : N := {maxlen}.\nDefinition b64_min_len : N := {minlen}.\n"
    t += f"(* len(escaped) > len(decoded) * {rn.value!r}  as  ratio_den * len(escaped) > ratio_num * len(decoded) *)\n"
    t += f"Definition ratio_num : N := {ratio.numerator}.\nDefinition ratio_den : N := {ratio.denominator}.\n"
    t += "(* _protect_leading_dash *)\n"
    t += f"Definition dash_char : N := {ord(dash)}.\nDefinition dash_replacement : list N := {B(dashrepl)}.\n"
    t += "(* write_to_shellscript: text pieces *)\n"
    t += f"Definition fmt_directive : list N := {B(pct_s)}.\n"
    t += f"Definition param_pre : list N := {B(param[0])}.\nDefinition param_post : list N := {B(param[1])}.\n"
    t += f"Definition cmd_pre : list N := {B(command[0])}.\nDefinition cmd_post : list N := {B(command[1])}.\n"
    t += f"Definition args_lead : list N := {B(args_lead)}.\nDefinition args_sep : list N := {B(args_sep)}.\n"
    for nm, parts in (("plain", plain), ("inline", inline), ("separate", separate)):
        for i, s in enumerate(parts):
            t += f"Definition {nm}_{i} : list N := {B(s)}.\n"
    t += f"Definition inline_extra : N := {extra}.\nDefinition columns : N := {columns}.\n"
    out.add("ShellScriptGen.v", t)
