"""Shared machinery of C03 (interleavings) and C12 (kills): several real IDManagers, each on its own sqlite connection
to ONE database file, driven statement by statement.

* `install(idm)` replaces, inside tupimage.id_manager only, `sqlite3` by a shim whose connections report every
  statement (and every commit) to the Agent of the calling thread before executing it, `datetime` by a per-thread
  clock, `secrets` by a per-thread PRNG, and wraps IDSpace.gen_random_id so that samples are recorded per thread
  (and collisions can be forced).  Nothing in /repo is edited.
* An Agent turns the statement stream of its thread into scheduling points and MODEL EVENTS:
      BEGIN IMMEDIATE -> event (Begin)        first statement inside it -> event (Body)     COMMIT -> event (Commit)
      further statements of the transaction   -> scheduling point without event (they work on the private view)
      BEGIN (deferred snapshot) / its COMMIT  -> scheduling point without event; its first SELECT -> event
      autocommit statement                    -> event
      the count() for get_id's RuntimeError message (after the transaction) -> neither
* Scheduler: releases one thread at a time; a released thread that does not reach its next point within a short
  time is BLOCKED inside sqlite (busy handler); it completes when the holder commits.  The sequence of attempts
  (blocked or completed) is the event list given to the model, whose `enabled` flags must agree.
* `to_model` builds the txn.run / txn.serial requests (description and terminal strings become tokens)."""
import datetime as _dt
import os
import random as _random
import re
import sqlite3 as _real_sqlite3
import threading
import time

from c04 import BASE, Tokens, from_us, to_us  # noqa: F401
from idm_common import in_filter, sp_name

WRITE_RE = re.compile(r"^\s*(INSERT|UPDATE|DELETE|CREATE|DROP|ALTER|REPLACE)\b", re.I)
T_BLOCK = 0.04      # a released thread expected to block: how long we watch it not arriving
T_STALL = 120.0     # a released thread NOT expected to block must arrive within this time
T_WAKE = 60.0       # a blocked thread must acquire the lock this long after it was released by the holder

_tls = threading.local()


def agent():
    return getattr(_tls, "agent", None)


# ------------------------------------------------------------------------------ shims installed into tupimage.id_manager
class _Cursor:
    def __init__(self, cur, conn):
        self._c, self._conn = cur, conn

    def execute(self, sql, *a):
        self._conn._point(sql)
        return self._c.execute(sql, *a)

    def executemany(self, sql, seq):
        # on an autocommit connection every parameter set is a statement (and a transaction) of its own: a scheduling /
        # kill point before each of them
        for params in seq:
            self._conn._point(sql)
            self._c.execute(sql, params)
        return self

    def executescript(self, script):
        for stmt in [x.strip() for x in script.split(";") if x.strip()]:
            self._conn._point(stmt)
            self._c.execute(stmt)
        return self

    def __getattr__(self, n):
        return getattr(self._c, n)

    def __iter__(self):
        return iter(self._c)


class _Conn:
    def __init__(self, real):
        self._r = real
        self._agent = agent()
        if self._agent is not None:
            self._agent.real_conn = real

    def _point(self, sql):
        a = self._agent
        if a is not None:
            a.point(" ".join(sql.split()), self._r)

    def cursor(self):
        return _Cursor(self._r.cursor(), self)

    def execute(self, sql, *a):
        self._point(sql)
        return self._r.execute(sql, *a)

    def executemany(self, sql, seq):
        return self.cursor().executemany(sql, seq)

    def executescript(self, script):
        return self.cursor().executescript(script)

    def commit(self):
        if self._r.in_transaction:
            self._point("COMMIT")
        return self._r.commit()

    def rollback(self):
        if self._r.in_transaction:
            self._point("ROLLBACK")
        return self._r.rollback()

    def __enter__(self):
        return self

    def __exit__(self, et, ev, tb):
        if self._r.in_transaction:
            self._point("COMMIT" if et is None else "ROLLBACK")
        return self._r.__exit__(et, ev, tb)

    def close(self):
        return self._r.close()

    def __getattr__(self, n):
        return getattr(self._r, n)


class _SqliteShim:
    def connect(self, *a, **k):
        return _Conn(_real_sqlite3.connect(*a, **k))

    def __getattr__(self, n):
        return getattr(_real_sqlite3, n)


_fallback_rng = _random.Random(12345)


class _Secrets:
    @staticmethod
    def _rng():
        a = agent()
        return a.rng if a is not None else _fallback_rng

    def randbelow(self, n):
        return self._rng().randrange(n)

    def choice(self, seq):
        return seq[self._rng().randrange(len(seq))]


def install(idm):
    """returns a function that undoes everything"""
    saved = (idm.sqlite3, idm.datetime, idm.secrets, idm.IDSpace.gen_random_id)

    class FakeDT(_dt.datetime):
        @classmethod
        def now(cls, tz=None):
            a = agent()
            local = from_us(a.now_us if a is not None else 0)
            if tz is None:
                return local
            # a local clock 9 hours east of UTC (see c04.install_clock): mixing local and UTC time stamps shows
            return (local - _dt.timedelta(hours=9)).replace(tzinfo=_dt.timezone.utc).astimezone(tz)

        @classmethod
        def utcnow(cls):
            a = agent()
            return from_us(a.now_us if a is not None else 0) - _dt.timedelta(hours=9)

    orig = saved[3]

    def gen_random_id(self_sp, subspace=idm.IDSubspace()):
        a = agent()
        val = None
        if a is not None and a.real_conn is not None and (len(a.samples) < a.collide_first or (a.collide > 0 and a.rng.random() < a.collide)):
            rows = a.real_conn.execute(f"SELECT id FROM {self_sp.namespace_name()}").fetchall()
            rows = [r[0] for r in rows if in_filter(idm, self_sp, subspace, r[0])]
            if rows:
                val = a.rng.choice(rows)
        if val is None and a is not None and a.then and len(a.samples) >= a.collide_first:
            val = a.then.pop(0)          # scripted samples (after the forced collisions): two calls can be made to draw the same id
        if val is None:
            val = orig(self_sp, subspace)
        if a is not None:
            a.samples.append(val)
        return val

    idm.sqlite3 = _SqliteShim()
    idm.datetime = FakeDT
    idm.secrets = _Secrets()
    idm.IDSpace.gen_random_id = gen_random_id

    def undo():
        idm.sqlite3, idm.datetime, idm.secrets, idm.IDSpace.gen_random_id = saved

    return undo


# ------------------------------------------------------------------------------ agents
class Killed(BaseException):
    pass


class Agent:
    """One per connection/thread.  `on_point(agent, info)` is called at every scheduling point BEFORE the statement
    runs (the scheduler blocks there; the kill harness exits there)."""

    def __init__(self, tid, seed, on_point=None):
        self.tid = tid
        self.rng = _random.Random(seed)
        self.on_point = on_point
        self.real_conn = None
        self.now_us = 0
        self.collide = 0.0
        self.collide_first = 0      # the first n samples of the call are forced to collide with existing rows
        self.then = []              # ids returned by the following samples, in order (then random again)
        self.samples = []
        self.op_index = -1
        self.op_kind = "open"
        self.free_run = False       # no scheduling points (unscheduled constructor)
        self.mode = None            # None | "imm" | "snap"
        self.body_done = False
        self.txn_done_in_op = False
        self.trace = []             # every statement: dict(op, sql, kind, event)

    def begin_op(self, i, kind, now_us=0, collide=0.0, collide_first=0, then=()):
        self.op_index, self.op_kind = i, kind
        self.now_us, self.collide, self.collide_first = now_us, collide, collide_first
        self.then = list(then)
        self.samples = []
        self.body_done = False
        self.txn_done_in_op = False

    def classify(self, sql):
        """-> (kind, event, needs_lock, is_point)"""
        s = sql.upper()
        if self.op_kind == "open":
            if s.startswith("PRAGMA"):
                # `PRAGMA journal_mode=WAL` returns a row.  The pinned tree never fetched it: the statement's implicit
                # transaction (the header rewrite) stayed open until the NEXT execute() on the same cursor (the
                # busy_timeout PRAGMA), which is why that PRAGMA is not a scheduling point — parking there would park
                # the thread inside a write transaction.  Since 7241d92 the busy_timeout comes first and the switch
                # fetches its answer (IDManager._enable_wal), so nothing is open at any scheduling point.
                return ("pragma", False, False, not s.startswith("PRAGMA BUSY_TIMEOUT"))
            return ("create", True, False, True)
        if s.startswith("BEGIN IMMEDIATE"):
            return ("begin", True, True, True)
        if s == "BEGIN" or s.startswith("BEGIN DEFERRED"):
            return ("snapbegin", False, False, True)
        if s in ("COMMIT", "ROLLBACK"):
            if self.mode == "imm":
                return ("commit", True, False, True)
            return ("snapend", False, False, True)
        if self.mode == "imm":
            if not self.body_done:
                return ("body", True, False, True)
            return ("in-txn", False, False, True)
        if self.mode == "snap":
            if not self.body_done:
                return ("snapread", True, False, True)
            return ("in-snap", False, False, True)
        if self.op_kind == "get" and self.txn_done_in_op and s.startswith("SELECT"):
            return ("diagnostic", False, False, False)
        w = bool(WRITE_RE.match(sql))
        return ("auto-w" if w else "auto-r", True, w, True)

    def point(self, sql, real):
        kind, event, needs_lock, is_point = self.classify(sql)
        info = {"tid": self.tid, "op": self.op_index, "sql": sql, "kind": kind, "event": event, "needs_lock": needs_lock, "extra_body": False}
        if kind == "commit" and not self.body_done:
            info["extra_body"] = True          # a transaction without statements: the model's Body step happens here
        self.trace.append(info)
        if is_point and not self.free_run and self.on_point is not None:
            self.on_point(self, info)
        # state after the statement (it is executed by the caller right after we return)
        if kind == "begin":
            self.mode, self.body_done = "imm", False
        elif kind == "snapbegin":
            self.mode, self.body_done = "snap", False
        elif kind in ("body", "snapread"):
            self.body_done = True
        elif kind == "commit":
            self.mode = None
            self.txn_done_in_op = True
        elif kind == "snapend":
            self.mode = None


# ------------------------------------------------------------------------------ operations
def run_op(idm, mgr, op, toks):
    """executes one operation on the real IDManager; returns the result in the model's notation"""
    k = op["k"]
    _t0 = time.time()
    try:
        if k == "get":
            try:
                return f"ID:{mgr.get_id(op['desc'], op['sp'], subspace=op['sub'])}"
            except RuntimeError:
                return "FAILED"
        if k == "set":
            mgr.set_id(op["id"], op["desc"], atime=from_us(op["t"]))
            return "OK"
        if k == "del":
            mgr.del_id(op["id"])
            return "OK"
        if k == "cleanup":
            mgr.cleanup(op["sp"], op["sub"], op["mx"])
            return "OK"
        if k == "info":
            r = mgr.get_info(op["id"])
            return "INFO:-" if r is None else f"INFO:{toks.tok(r.description)},{to_us(r.atime)}"
        if k == "count":
            return f"NUM:{mgr.count(op['sp'], op['sub'])}"
        if k == "countall":
            return f"NUM:{mgr.count(None, op['sub'])}"
        if k == "mark":
            mgr.mark_uploaded(op["id"], op["term"], size=op["size"], upload_time=from_us(op["time"]), description=op.get("desc"))
            return "OK"
        if k == "unmark":
            mgr.unmark_uploaded(op["id"], op["term"])
            return "OK"
        if k == "cleanuploads":
            mgr.cleanup_uploads(op["n"])
            return "OK"
        if k == "upinfo":
            r = mgr.get_upload_info(op["id"], op["term"])
            if r is None:
                return "UP:-"
            return f"UP:{toks.tok(r.description)},{to_us(r.upload_time)},{r.size},{r.bytes_ago},{r.uploads_ago}"
        if k == "needs":
            r = mgr.needs_uploading(op["id"], op["term"], max_uploads_ago=op["nmax"], max_bytes_ago=op["bmax"],
                                    max_time_ago=_dt.timedelta(microseconds=op["tmax"]))
            return "B:1" if r else "B:0"
        raise AssertionError(k)
    except ValueError:
        return "ERR"
    except Killed:
        raise
    except Exception as e:  # noqa: BLE001 — locking / constraint errors are what C03 forbids
        import traceback
        fr = [f for f in traceback.extract_tb(e.__traceback__) if "tupimage" in f.filename]
        where = f"@id_manager.py:{fr[-1].lineno}:{(fr[-1].line or '')[:40].replace(' ', '_')}" if fr else ""
        return f"EXC:{type(e).__name__}:{str(e)[:80].replace(' ', '_')}{where}@{time.time() - _t0:.2f}s"


def op_now(op):
    return op.get("now", 0)


def call_string(op, result, samples, toks):
    """the model's notation of the call, with the environment's choice inferred from the observed result"""
    k = op["k"]
    sub = op.get("sub")
    if k == "get":
        rid = result[3:] if result.startswith("ID:") else "0"
        smp = ",".join(str(s) for s in samples) or "-"
        return f"G:{toks.tok(op['desc'])}:{sp_name(op['sp'])}:{sub.begin}:{sub.end}:{op['now']}:{op['mx']}:{smp}:{rid}:{rid}:-"
    if k == "set":
        return f"S:{op['id']}:{toks.tok(op['desc'])}:{op['t']}"
    if k == "del":
        return f"D:{op['id']}"
    if k == "cleanup":
        return f"C:{sp_name(op['sp'])}:{sub.begin}:{sub.end}:{op['mx']}:-"
    if k == "info":
        return f"I:{op['id']}"
    if k == "count":
        return f"N:{sp_name(op['sp'])}:{sub.begin}:{sub.end}"
    if k == "countall":
        return f"A:{sub.begin}:{sub.end}"
    if k == "mark":
        d = "-" if op.get("desc") is None else str(toks.tok(op["desc"]))
        return f"M:{op['id']}:{toks.tok(op['term'])}:{op['size']}:{op['time']}:{d}"
    if k == "unmark":
        return f"U:{op['id']}:{toks.tok(op['term'])}"
    if k == "cleanuploads":
        return f"L:{op['n']}"
    if k == "upinfo":
        return f"P:{op['id']}:{toks.tok(op['term'])}"
    if k == "needs":
        return f"Q:{op['id']}:{toks.tok(op['term'])}:{op['now']}:{op['nmax']}:{op['bmax']}:{op['tmax']}"
    raise AssertionError(k)


def describe_op(op):
    d = {}
    for key, v in op.items():
        if key == "sp":
            d[key] = sp_name(v)
        elif key == "sub":
            d[key] = [v.begin, v.end]
        else:
            d[key] = v
    return d


def revive_op(idm, d):
    op = dict(d)
    if "sp" in op:
        cb, dd = op["sp"].split(".")
        op["sp"] = idm.IDSpace(int(cb), dd == "1")
    if "sub" in op:
        op["sub"] = idm.IDSubspace(op["sub"][0], op["sub"][1])
    return op


# ------------------------------------------------------------------------------ database dumps in the model's notation
def dump_store(path, idm, toks):
    conn = _real_sqlite3.connect(path, isolation_level=None, timeout=30)
    try:
        parts = []
        for sp in idm.IDSpace.all_values():
            try:
                rows = conn.execute(f"SELECT id, description, atime FROM {sp.namespace_name()}").fetchall()
            except _real_sqlite3.OperationalError:
                rows = []
            rows = sorted((r[0], toks.tok(r[1]), to_us(_dt.datetime.fromisoformat(r[2]))) for r in rows)
            if rows:
                parts.append(f"{sp_name(sp)}:" + ";".join(f"{a},{b},{c}" for a, b, c in rows))
        try:
            ups = conn.execute("SELECT id, terminal, description, size, upload_time FROM upload").fetchall()
        except _real_sqlite3.OperationalError:
            ups = []
        ups = sorted((r[0], toks.tok(r[1]), toks.tok(r[2]), r[3], to_us(_dt.datetime.fromisoformat(r[4]))) for r in ups)
        ids = "/".join(sorted(parts)) if parts else "-"
        up = ";".join(",".join(str(x) for x in r) for r in ups) if ups else "-"
        return ids + "|" + up
    finally:
        conn.close()


def schema_objects(path):
    conn = _real_sqlite3.connect(path, isolation_level=None, timeout=30)
    try:
        return sorted(r[0] for r in conn.execute("SELECT name FROM sqlite_master WHERE name NOT LIKE 'sqlite_%'"))
    finally:
        conn.close()


def integrity(path):
    conn = _real_sqlite3.connect(path, isolation_level=None, timeout=30)
    try:
        return conn.execute("PRAGMA integrity_check").fetchone()[0]
    finally:
        conn.close()


# ------------------------------------------------------------------------------ the scheduler (threads)
class Scheduler:
    def __init__(self, idm, path, proc_ops, toks, seed, policy, max_ids=1024, schedule_open=False):
        self.idm, self.path, self.toks = idm, path, toks
        self.proc_ops = proc_ops
        self.policy = policy
        self.max_ids = max_ids
        self.schedule_open = schedule_open
        self.cv = threading.Condition()
        self.agents = [Agent(i, seed * 1000 + i, self._on_point) for i in range(len(proc_ops))]
        self.state = ["new"] * len(proc_ops)       # new | waiting | running | blocked | finished
        self.pending = [None] * len(proc_ops)      # info of the statement a waiting/running/blocked thread is about to run
        self.go = [threading.Event() for _ in proc_ops]
        self.results = [[] for _ in proc_ops]
        self.samples = [[] for _ in proc_ops]
        self.events = []            # (tid, enabled: bool) in model order
        self.open_events = []       # tid per CREATE statement, in order (schedule_open)
        self.holder = None
        self.blocked_info = {}
        self.errors = []
        self.log = []               # human-readable schedule
        self.threads = []

    # ---- worker side
    def _on_point(self, ag, info):
        with self.cv:
            self.pending[ag.tid] = info
            self.state[ag.tid] = "waiting"
            self.cv.notify_all()
        self.go[ag.tid].wait()
        self.go[ag.tid].clear()

    def _worker(self, tid):
        _tls.agent = ag = self.agents[tid]
        try:
            ag.op_kind = "open"
            ag.free_run = not self.schedule_open
            if not self.schedule_open:
                # a first point so that nothing starts before the scheduler says so
                self._on_point(ag, {"tid": tid, "op": -1, "sql": "<start>", "kind": "start", "event": False, "needs_lock": False, "extra_body": False})
            mgr = self.idm.IDManager(self.path, max_ids_per_subspace=self.max_ids)
            ag.free_run = False
            for i, op in enumerate(self.proc_ops[tid]):
                ag.begin_op(i, op["k"], op_now(op), op.get("collide", 0.0), op.get("collide_first", 0), op.get("then", ()))
                res = run_op(self.idm, mgr, op, self.toks)
                self.results[tid].append(res)
                self.samples[tid].append(list(ag.samples))
            mgr.close()
        except BaseException as e:  # noqa: BLE001
            import traceback
            self.errors.append(f"thread {tid}: {type(e).__name__}: {e}\n{traceback.format_exc()[-800:]}")
        finally:
            with self.cv:
                self.state[tid] = "finished"
                self.pending[tid] = None
                self.cv.notify_all()

    # ---- scheduler side
    def _wait_arrival(self, tids, timeout):
        """wait until one of the threads leaves running/blocked; returns its tid or None"""
        deadline = time.time() + timeout
        with self.cv:
            while True:
                for t in tids:
                    if self.state[t] in ("waiting", "finished"):
                        return t
                left = deadline - time.time()
                if left <= 0:
                    return None
                self.cv.wait(left)

    def _completed(self, tid, info):
        """the statement `info` of thread tid has been executed"""
        if info is None:
            return
        if info["kind"] == "create":
            self.open_events.append(tid)
        if info["kind"] in ("start", "pragma", "create"):
            return
        if info["extra_body"]:
            self.events.append((tid, True))
        if info["event"]:
            self.events.append((tid, True))
        if info["kind"] == "begin":
            self.holder = tid
        elif info["kind"] == "commit":
            self.holder = None

    def run(self):
        n = len(self.proc_ops)
        for t in range(n):
            th = threading.Thread(target=self._worker, args=(t,), daemon=True)
            self.threads.append(th)
            th.start()
        if self._wait_all_parked(30.0) is False:
            self.errors.append("threads did not reach their first point")
            return
        while True:
            # a thread we parked as blocked may already have got the lock and reached its next point (the worker
            # itself overwrites state "blocked" with "waiting"): its blocked statement has run — account for it
            # before anything else, otherwise it would sit in its transaction unnoticed while we wait for others
            self._wake_early()
            with self.cv:
                ready = [t for t in range(n) if self.state[t] == "waiting"]
                blocked = [t for t in range(n) if self.state[t] == "blocked"]
                live = [t for t in range(n) if self.state[t] != "finished"]
            if not live:
                break
            if not ready:
                # only blocked threads are left: the lock must be free, so one of them has to wake up
                t = self._wait_arrival(blocked, T_WAKE + 30)
                if t is None:
                    self.errors.append(f"deadlock: threads {blocked} stay blocked although nobody else runs (holder per harness: {self.holder})")
                    break
                self._wake(t)
                continue
            will_block = {t: bool(self.pending[t]["needs_lock"] and self.holder is not None and self.holder != t) for t in ready}
            t = self.policy.choose(ready, will_block, bool(blocked), self)
            info = self.pending[t]
            with self.cv:
                self.state[t] = "running"
            self.go[t].set()
            if will_block[t]:
                arrived = self._wait_arrival([t], T_BLOCK)
                if arrived is None:
                    with self.cv:
                        if self.state[t] == "running":      # (it may have arrived since we stopped watching)
                            self.state[t] = "blocked"
                    self.blocked_info[t] = info
                    self.events.append((t, False))
                    self.log.append(f"{t}:{info['kind']}:BLOCKED")
                    continue
                self.log.append(f"{t}:{info['kind']}:not-blocked!")
                self._completed(t, info)
                continue
            arrived = self._wait_arrival([t], T_STALL)
            if arrived is None:
                with self.cv:
                    if self.state[t] == "running":
                        self.state[t] = "blocked"
                self.blocked_info[t] = info
                self.events.append((t, False))
                self.log.append(f"{t}:{info['kind']}:UNEXPECTED-BLOCK")
                continue
            self.log.append(f"{t}:{info['kind']}")
            self._completed(t, info)
            if info["kind"] == "commit":
                # the write lock was released: a blocked thread (if any) now gets it.  `blocked_info` is owned by the
                # scheduler: a thread stays in it until WE have accounted for its wake-up, however fast it was.
                blocked = sorted(self.blocked_info)
                if blocked:
                    b = self._wait_arrival(blocked, T_WAKE)
                    if b is None:
                        self.errors.append(f"threads {blocked} still blocked {T_WAKE}s after the lock was released")
                    else:
                        self._wake(b)
        for th in self.threads:
            th.join(5)

    def _wake_early(self):
        with self.cv:
            early = [t for t in sorted(self.blocked_info) if self.state[t] in ("waiting", "finished")]
        for t in early:
            self._wake(t)

    def _wake(self, b):
        info = self.blocked_info.pop(b, None)   # the statement the blocked thread was released for has now run
        self.log.append(f"{b}:{info['kind'] if info else '?'}:woke")
        self._completed(b, info)

    def _wait_all_parked(self, timeout):
        deadline = time.time() + timeout
        with self.cv:
            while any(s in ("new", "running") for s in self.state):
                left = deadline - time.time()
                if left <= 0:
                    return False
                self.cv.wait(left)
        return True

    # ---- model requests
    def calls(self):
        out = []
        for t, ops in enumerate(self.proc_ops):
            cs = []
            for i, op in enumerate(ops):
                if i < len(self.results[t]):
                    res, smp = self.results[t][i], self.samples[t][i]
                else:
                    res, smp = "OK", []
                cs.append((call_string(op, res, smp, self.toks), res if i < len(self.results[t]) else None))
            out.append(cs)
        return out


class RandomPolicy:
    """uniform among the ready threads; attempts a statement that must block with probability p_block
    (never while another thread is already blocked)"""

    def __init__(self, rng, p_block=0.5):
        self.rng, self.p_block = rng, p_block

    def choose(self, ready, will_block, someone_blocked, sched):
        free = [t for t in ready if not will_block[t]]
        cand = list(ready)
        if free and (someone_blocked or self.rng.random() >= self.p_block):
            cand = free
        return self.rng.choice(cand)


class PreemptPolicy:
    """thread `first` runs k points, then the others run (attempting even what must block) until they finish or
    block, then whoever can"""

    def __init__(self, first, k, rng):
        self.first, self.k, self.rng = first, k, rng
        self.count = 0

    def choose(self, ready, will_block, someone_blocked, sched):
        if self.count < self.k and self.first in ready:
            self.count += 1
            return self.first
        others = [t for t in ready if t != self.first]
        if others:
            pick = [t for t in others if not (will_block[t] and someone_blocked)] or others
            return pick[0]
        return ready[0]
