"""Translator plug-in: the pure integer methods of IDSubspace / IDSpace (tupimage/id_manager.py)
->  coq/Gen/IdSpaceTr.v, REGENERATED from the current source on every run.

Unlike gen_idspace.py (which pins the shape of every method and extracts literals for the
hand-written Model/IdSpace.v), this is a real translator for a small Python subset:

  statements   x = e | a, b = e | x op= e | if/elif/else | return [e] | raise ... | docstrings |
               for x in range(a, b[, step]): <body that updates local state> | lst.append(e) | lst[k] = e |
               name = lambda: e (a thunk over the parameters) | for x in <iterable>: ... yield e  (generator
               functions: nested loops ending in one yield)
  expressions  int/bool literals, names, field reads of dataclass objects, + - * // << >> & |,
               unary - and not, and/or, chained comparisons (< <= > >= == !=, `in [consts]`),
               e1 if c else e2, tuples, lists, lst[k], range(a, b), generator expressions over ranges,
               calls of other translated methods (on self, on a parameter of dataclass type, or static),
               calls of thunks, dataclass constructors (-> __post_init__), secrets.randbelow(n)

Meaning of the target terms: coq/Lib/PySem.v (monad M over the list of draws; raise = Exc).
Proofs/IdSpaceTrEq.v, IdSpaceTrSplit.v and IdSpaceTrAllIds.v prove that the hand-written model equals the translated functions, so a
rewrite of one of these methods that keeps its meaning keeps the proofs, and one that changes the
meaning breaks `IdSpaceTrEq` (a proof obligation of C10 / C01 / C02 / C14).

Fail-closed: anything outside the subset raises ExtractError.
"""
import ast

from gen_tables import extractor, parse, find_class, expect, ExtractError

# methods translated, per class (the others — the string functions and all_values — stay shape-pinned by gen_idspace.py)
METHODS = {
    "IDSubspace": ["__post_init__", "rand_byte", "rand_nonzero_byte", "all_byte_values", "all_nonzero_byte_values",
                   "num_byte_values", "num_nonzero_byte_values", "contains_byte", "split"],
    "IDSpace": ["__post_init__", "from_id", "num_nonzero_bits", "contains", "contains_and_in_subspace", "gen_random_id",
                "subspace_size", "subspace_byte_offset", "subspace_byte_mask", "subspace_masked_range", "get_subspace_byte", "all_ids"],
}

INT, BOOL, UNIT, RANGE = "int", "bool", "unit", "range"


def cls_t(name):
    return ("obj", name)


def tup_t(ts):
    return ("tuple", tuple(ts))


def list_t(t):
    return ("list", t)


def _pure_range_call(e):
    return (isinstance(e, ast.Call) and isinstance(e.func, ast.Name) and e.func.id == "range" and not e.keywords
            and not any(isinstance(n, ast.Call) for a in e.args for n in ast.walk(a)))


def desugar(body, where):
    """Meaning-preserving rewrites of a statement list into the subset the translator reads:
       * `r = range(a, b, c)` immediately followed by the one statement that uses r, as the thing iterated over (the
         arguments contain no call, so evaluating them one statement later gives the same values)  ->  range inlined;
       * `x = [E for v in IT]` (one generator, no condition; v is not used afterwards)  ->  `x = []` and
         `for v in IT: x.append(E)`."""
    out = list(body)
    changed = True
    while changed:
        changed = False
        for i, s in enumerate(out):
            if (isinstance(s, ast.Assign) and len(s.targets) == 1 and isinstance(s.targets[0], ast.Name) and _pure_range_call(s.value) and i + 1 < len(out)):
                name = s.targets[0].id
                loads = [n for st in out for n in ast.walk(st) if isinstance(n, ast.Name) and n.id == name and isinstance(n.ctx, ast.Load)]
                stores = [n for st in out for n in ast.walk(st) if isinstance(n, ast.Name) and n.id == name and isinstance(n.ctx, ast.Store)]
                nxt = out[i + 1]
                site = None
                if isinstance(nxt, ast.For) and isinstance(nxt.iter, ast.Name) and nxt.iter.id == name:
                    site = ("for", nxt)
                elif (isinstance(nxt, ast.Assign) and isinstance(nxt.value, ast.ListComp) and len(nxt.value.generators) == 1
                      and isinstance(nxt.value.generators[0].iter, ast.Name) and nxt.value.generators[0].iter.id == name):
                    site = ("comp", nxt)
                if site and len(loads) == 1 and len(stores) == 1:
                    import copy
                    nxt2 = copy.deepcopy(nxt)
                    if site[0] == "for":
                        nxt2.iter = s.value
                    else:
                        nxt2.value.generators[0].iter = s.value
                    out[i:i + 2] = [nxt2]
                    changed = True
                    break
            if (isinstance(s, ast.Assign) and len(s.targets) == 1 and isinstance(s.targets[0], ast.Name) and isinstance(s.value, ast.ListComp)
                    and len(s.value.generators) == 1):
                g = s.value.generators[0]
                if not g.ifs and not g.is_async and isinstance(g.target, ast.Name):
                    v = g.target.id
                    later = [n for st in out[i + 1:] for n in ast.walk(st) if isinstance(n, ast.Name) and n.id == v]
                    inside = [n for n in ast.walk(s.value.elt) if isinstance(n, ast.Name) and n.id == s.targets[0].id]
                    if not later and not inside and v != s.targets[0].id:
                        tgt = s.targets[0].id
                        init = ast.Assign(targets=[ast.Name(id=tgt, ctx=ast.Store())], value=ast.List(elts=[], ctx=ast.Load()), lineno=s.lineno)
                        app = ast.Expr(value=ast.Call(func=ast.Attribute(value=ast.Name(id=tgt, ctx=ast.Load()), attr="append", ctx=ast.Load()), args=[s.value.elt], keywords=[]))
                        loop = ast.For(target=ast.Name(id=v, ctx=ast.Store()), iter=g.iter, body=[app], orelse=[], lineno=s.lineno)
                        out[i:i + 1] = [ast.fix_missing_locations(init), ast.fix_missing_locations(loop)]
                        changed = True
                        break
    return out


class Tr:
    def __init__(self, tree):
        self.tree = tree
        self.fields = {}    # class -> [(field, type)]
        self.funcs = {}     # (class, method) -> ast.FunctionDef
        self.static = {}    # (class, method) -> bool
        self.sigs = {}      # (class, method) -> ([(pname, type)], ret type)
        self.calls = {}     # (class, method) -> set of callees
        self.defs = {}      # (class, method) -> Coq text
        self.helpers = []   # private methods reached from the translated ones
        self.fresh = 0
        for cname in METHODS:
            cls = find_class(tree, cname)
            fs = []
            for n in cls.body:
                if isinstance(n, ast.AnnAssign) and isinstance(n.target, ast.Name):
                    fs.append((n.target.id, self.ann_type(n.annotation, f"{cname}.{n.target.id}")))
            expect(len(fs) == 2, f"{cname}: the translator handles dataclasses with exactly two fields, found {len(fs)}")
            self.fields[cname] = fs
            for n in cls.body:
                if isinstance(n, ast.FunctionDef):
                    self.funcs[(cname, n.name)] = n
                    decos = [ast.unparse(d) for d in n.decorator_list]
                    expect(all(d == "staticmethod" for d in decos), f"{cname}.{n.name}: unexpected decorator {decos}")
                    self.static[(cname, n.name)] = "staticmethod" in decos

    # ------------------------------------------------------------------ types
    def ann_type(self, a, where):
        if a is None:
            return UNIT
        s = ast.unparse(a).replace('"', "").replace("'", "")
        if s == "int":
            return INT
        if s == "bool":
            return BOOL
        if s in self.fields or s in METHODS:
            return cls_t(s)
        if s in ("Tuple[int, int]", "tuple[int, int]"):
            return tup_t([INT, INT])
        if s in ("Iterable[int]", "Iterator[int]", "range"):
            return RANGE
        m = __import__("re").fullmatch(r"(?:List|list)\[(\w+)\]", s)
        if m and (m.group(1) in self.fields or m.group(1) in METHODS):
            return list_t(cls_t(m.group(1)))
        if s == "None":
            return UNIT
        raise ExtractError(f"{where}: annotation `{s}` is outside the translated subset")

    def coq_type(self, t):
        if t == INT:
            return "Z"
        if t == BOOL:
            return "bool"
        if t == UNIT:
            return "unit"
        if t == RANGE:
            return "(Z * Z)"
        if t[0] == "obj":
            a, b = self.fields[t[1]]
            return f"({self.coq_type(a[1])} * {self.coq_type(b[1])})"
        if t[0] == "tuple":
            return "(" + " * ".join(self.coq_type(x) for x in t[1]) + ")"
        if t[0] == "list":
            return f"(list {self.coq_type(t[1])})"
        raise ExtractError(f"internal: type {t}")

    def eqb(self, t, a, b):
        if t == INT:
            return f"({a} =? {b})"
        if t == BOOL:
            return f"(Bool.eqb {a} {b})"
        if t[0] == "obj":
            (f1, t1), (f2, t2) = self.fields[t[1]]
            return f"({self.eqb(t1, f'(fst {a})', f'(fst {b})')} && {self.eqb(t2, f'(snd {a})', f'(snd {b})')})"
        raise ExtractError(f"== on values of type {t} is outside the translated subset")

    # ------------------------------------------------------------------ signatures
    def sig(self, key):
        if key in self.sigs:
            return self.sigs[key]
        expect(key in self.funcs, f"{key[0]}.{key[1]}: method not found")
        fn = self.funcs[key]
        a = fn.args
        expect(not a.vararg and not a.kwarg and not a.kwonlyargs and not a.posonlyargs, f"{key}: parameter kinds")
        params = []
        args = list(a.args)
        if not self.static[key]:
            expect(args and args[0].arg == "self", f"{key}: first parameter is not self")
            params.append(("self", cls_t(key[0])))
            args = args[1:]
        for p in args:
            expect(p.annotation is not None, f"{key[0]}.{key[1]}: parameter {p.arg} has no annotation")
            params.append((p.arg, self.ann_type(p.annotation, f"{key[0]}.{key[1]}({p.arg})")))
        ret = self.ann_type(fn.returns, f"{key[0]}.{key[1]} return") if (fn.returns is not None or key[1] == "__post_init__") else None
        expect(ret is not None, f"{key[0]}.{key[1]}: no return annotation")
        if any(isinstance(n, (ast.Yield, ast.YieldFrom)) for n in ast.walk(fn)):
            expect(ret == RANGE, f"{key[0]}.{key[1]}: a generator function must be annotated Iterator[int]")
            ret = list_t(INT)                      # a generator of ints = the list of the values it yields
        self.sigs[key] = (params, ret)
        return self.sigs[key]

    def fname(self, key):
        return f"tr_{key[0]}_{key[1].strip('_')}"

    # ------------------------------------------------------------------ expressions
    def var(self, name):
        return name + "_v"

    def tmp(self):
        self.fresh += 1
        return f"t{self.fresh}_"

    def as_int(self, term, t, where):
        if t == INT:
            return term
        if t == BOOL:
            return f"(py_bool_to_int {term})"
        raise ExtractError(f"{where}: an int was expected, found a value of type {t}")

    def expr(self, e, env, binds, me, allow_calls=True):
        """-> (pure Coq term, type); calls are appended to `binds` as (pattern, monadic term)."""
        where = f"{me[0]}.{me[1]}: `{ast.unparse(e)[:60]}`"
        if isinstance(e, ast.Constant):
            if isinstance(e.value, bool):
                return ("true" if e.value else "false"), BOOL
            if isinstance(e.value, int):
                return (f"{e.value}" if e.value >= 0 else f"({e.value})"), INT
            raise ExtractError(f"{where}: literal outside the subset")
        if isinstance(e, ast.Name):
            expect(e.id in env, f"{where}: unknown name {e.id}")
            return env[e.id]
        if isinstance(e, ast.Attribute):
            base, bt = self.expr(e.value, env, binds, me, allow_calls)
            expect(isinstance(bt, tuple) and bt[0] == "obj", f"{where}: field read on a value of type {bt}")
            fs = self.fields[bt[1]]
            for i, (fname, ft) in enumerate(fs):
                if fname == e.attr:
                    return f"({'fst' if i == 0 else 'snd'} {base})", ft
            raise ExtractError(f"{where}: {bt[1]} has no field {e.attr}")
        if isinstance(e, ast.BinOp):
            a, ta = self.expr(e.left, env, binds, me, allow_calls)
            b, tb = self.expr(e.right, env, binds, me, allow_calls)
            a, b = self.as_int(a, ta, where), self.as_int(b, tb, where)
            ops = {ast.Add: "({} + {})", ast.Sub: "({} - {})", ast.Mult: "({} * {})", ast.FloorDiv: "(py_floordiv {} {})",
                   ast.LShift: "(py_shiftl {} {})", ast.RShift: "(py_shiftr {} {})", ast.BitAnd: "(Z.land {} {})", ast.BitOr: "(Z.lor {} {})"}
            expect(type(e.op) in ops, f"{where}: operator outside the subset")
            return ops[type(e.op)].format(a, b), INT
        if isinstance(e, ast.UnaryOp):
            a, ta = self.expr(e.operand, env, binds, me, allow_calls)
            if isinstance(e.op, ast.Not):
                expect(ta == BOOL, f"{where}: `not` on a non-bool (truthiness is outside the subset)")
                return f"(negb {a})", BOOL
            if isinstance(e.op, ast.USub):
                return f"(- {self.as_int(a, ta, where)})", INT
            raise ExtractError(f"{where}: unary operator outside the subset")
        if isinstance(e, ast.BoolOp):
            is_and = isinstance(e.op, ast.And)
            later_calls = any(isinstance(n, ast.Call) and not (isinstance(n.func, ast.Name) and n.func.id == "range")
                              for v in e.values[1:] for n in ast.walk(v))
            if later_calls:
                # short-circuit: the later operands (which call something) are evaluated only if needed
                expect(allow_calls, f"{where}: a call in a conditionally evaluated position is outside the subset")
                a0, t0 = self.expr(e.values[0], env, binds, me)
                expect(t0 == BOOL, f"{where}: and/or on non-bool operands is outside the subset")

                def chain(vals):
                    b2 = []
                    a, ta = self.expr(vals[0], env, b2, me)
                    expect(ta == BOOL, f"{where}: and/or on non-bool operands is outside the subset")
                    if len(vals) == 1:
                        body = f"ret {a}"
                    elif is_and:
                        body = f"(if {a} then {chain(vals[1:])} else ret false)"
                    else:
                        body = f"(if {a} then ret true else {chain(vals[1:])})"
                    return "(" + "".join(f"{p} <- {m} ;; " for p, m in b2) + body + ")"
                v = self.tmp()
                rest = chain(e.values[1:])
                binds.append((v, f"(if {a0} then {rest} else ret false)" if is_and else f"(if {a0} then ret true else {rest})"))
                return v, BOOL
            terms = []
            for i, v in enumerate(e.values):
                a, ta = self.expr(v, env, binds, me, allow_calls and i == 0)
                expect(ta == BOOL, f"{where}: and/or on non-bool operands is outside the subset")
                terms.append(a)
            op = " && " if is_and else " || "
            return "(" + op.join(terms) + ")", BOOL
        if isinstance(e, ast.Compare):
            left, tl = self.expr(e.left, env, binds, me, allow_calls)
            parts = []
            for op, c in zip(e.ops, e.comparators):
                if isinstance(op, (ast.In, ast.NotIn)):
                    expect(isinstance(c, (ast.List, ast.Tuple)) and all(isinstance(x, ast.Constant) and isinstance(x.value, int) and not isinstance(x.value, bool) for x in c.elts),
                           f"{where}: `in` needs a list of int literals")
                    t = f"(py_in {self.as_int(left, tl, where)} [{'; '.join(str(x.value) for x in c.elts)}])"
                    parts.append(t if isinstance(op, ast.In) else f"(negb {t})")
                    continue
                right, tr_ = self.expr(c, env, binds, me, allow_calls)
                if isinstance(op, (ast.Eq, ast.NotEq)):
                    if {tl, tr_} <= {INT, BOOL} and tl != tr_:
                        t = self.eqb(INT, self.as_int(left, tl, where), self.as_int(right, tr_, where))
                    else:
                        expect(tl == tr_, f"{where}: == between {tl} and {tr_}")
                        t = self.eqb(tl, left, right)
                    parts.append(t if isinstance(op, ast.Eq) else f"(negb {t})")
                else:
                    sym = {ast.Lt: "<?", ast.LtE: "<=?", ast.Gt: ">?", ast.GtE: ">=?"}.get(type(op))
                    expect(sym is not None, f"{where}: comparison outside the subset")
                    parts.append(f"({self.as_int(left, tl, where)} {sym} {self.as_int(right, tr_, where)})")
                left, tl = right, tr_
            return ("(" + " && ".join(parts) + ")" if len(parts) > 1 else parts[0]), BOOL
        if isinstance(e, ast.IfExp):
            c, tc = self.expr(e.test, env, binds, me, allow_calls)
            expect(tc == BOOL, f"{where}: condition is not a bool")
            a, ta = self.expr(e.body, env, binds, me, False)
            b, tb = self.expr(e.orelse, env, binds, me, False)
            expect(ta == tb, f"{where}: branches of different types")
            return f"(if {c} then {a} else {b})", ta
        if isinstance(e, ast.List):
            parts = [self.expr(x, env, binds, me, allow_calls) for x in e.elts]
            if not parts:
                return "[]", list_t(None)
            expect(all(p[1] == parts[0][1] for p in parts), f"{where}: list of mixed types")
            return "[" + "; ".join(p[0] for p in parts) + "]", list_t(parts[0][1])
        if isinstance(e, ast.Subscript):
            expect(allow_calls, f"{where}: indexing in a conditionally evaluated position is outside the subset")
            base, bt = self.expr(e.value, env, binds, me, allow_calls)
            expect(isinstance(bt, tuple) and bt[0] == "list" and bt[1] is not None, f"{where}: indexing a value of type {bt}")
            expect(isinstance(e.slice, ast.Constant) and isinstance(e.slice.value, int) and e.slice.value >= 0, f"{where}: only constant non-negative indices")
            v = self.tmp()
            binds.append((v, f"py_getitem {base} {e.slice.value}"))       # IndexError = Exc
            return v, bt[1]
        if isinstance(e, ast.Tuple):
            parts = [self.expr(x, env, binds, me, allow_calls) for x in e.elts]
            return "(" + ", ".join(p[0] for p in parts) + ")", tup_t([p[1] for p in parts])
        if isinstance(e, ast.Call) and isinstance(e.func, ast.Name) and e.func.id in env and isinstance(env[e.func.id][1], tuple) and env[e.func.id][1][0] == "thunk":
            # calling a `name = lambda: expr` thunk: the body is evaluated here (its free variables are parameters only)
            expect(not e.args and not e.keywords, f"{where}: thunk called with arguments")
            return self.iterable(env[e.func.id][1][1], env, binds, me)
        if isinstance(e, ast.Call):
            expect(not e.keywords, f"{where}: keyword arguments")
            f = e.func
            if isinstance(f, ast.Name) and f.id == "range":
                expect(len(e.args) == 2, f"{where}: range() with {len(e.args)} arguments")
                a, ta = self.expr(e.args[0], env, binds, me, allow_calls)
                b, tb = self.expr(e.args[1], env, binds, me, allow_calls)
                return f"({self.as_int(a, ta, where)}, {self.as_int(b, tb, where)})", RANGE
            expect(allow_calls, f"{where}: a call in a conditionally evaluated position is outside the subset")
            if isinstance(f, ast.Attribute) and ast.unparse(f) == "secrets.randbelow":
                expect(len(e.args) == 1, f"{where}: randbelow arity")
                a, ta = self.expr(e.args[0], env, binds, me)
                v = self.tmp()
                binds.append((v, f"randbelow {self.as_int(a, ta, where)}"))
                return v, INT
            if isinstance(f, ast.Name) and f.id in METHODS:          # constructor
                cname = f.id
                fs = self.fields[cname]
                expect(len(e.args) == len(fs), f"{where}: constructor arity (defaults are outside the subset)")
                args = []
                for x, (fn_, ft) in zip(e.args, fs):
                    a, ta = self.expr(x, env, binds, me)
                    if ft == INT:
                        a = self.as_int(a, ta, where)
                    else:
                        expect(ta == ft, f"{where}: field {fn_} given a value of type {ta}")
                    args.append(a)
                v = self.tmp()
                binds.append((v, f"{self.fname((cname, 'new'))} {' '.join(args)}"))
                self.calls.setdefault(me, set()).add((cname, "__post_init__"))
                return v, cls_t(cname)
            if isinstance(f, ast.Attribute):
                recv = None
                if isinstance(f.value, ast.Name) and f.value.id in METHODS and f.value.id not in env:
                    key = (f.value.id, f.attr)                   # Class.method(...)
                    expect(key in self.funcs and self.static[key], f"{where}: not a static method")
                else:
                    r, tr_ = self.expr(f.value, env, binds, me)
                    expect(isinstance(tr_, tuple) and tr_[0] == "obj", f"{where}: method call on a value of type {tr_}")
                    key = (tr_[1], f.attr)
                    expect(key in self.funcs, f"{where}: unknown method {key}")
                    if not self.static[key]:
                        recv = r
                if key[1] not in METHODS[key[0]]:
                    # a private helper of the class (a rewrite extracted it): translated like the methods, unfolded by the
                    # equivalence proofs (Hint Unfold ... : tr_helpers)
                    expect(key[1].startswith("_") and not key[1].startswith("__"), f"{where}: calls {key[0]}.{key[1]}, which is not translated")
                    if key not in self.helpers:
                        self.helpers.append(key)
                params, ret = self.sig(key)
                want = params[1:] if recv is not None else params
                expect(len(e.args) == len(want), f"{where}: arity (default arguments are outside the subset)")
                args = [recv] if recv is not None else []
                for x, (pn, pt) in zip(e.args, want):
                    a, ta = self.expr(x, env, binds, me)
                    if pt == INT:
                        a = self.as_int(a, ta, where)
                    else:
                        expect(ta == pt, f"{where}: parameter {pn} given a value of type {ta}")
                    args.append(a)
                v = self.tmp()
                binds.append((v, f"{self.fname(key)} {' '.join(args)}".rstrip()))
                self.calls.setdefault(me, set()).add(key)
                return v, ret
        raise ExtractError(f"{where}: expression outside the translated subset")

    def iterable(self, e, env, binds, me):
        """an expression used as something to iterate over -> (Coq term of type list Z, ('list', INT))"""
        where = f"{me[0]}.{me[1]}: `{ast.unparse(e)[:60]}`"
        if isinstance(e, ast.GeneratorExp):
            # (elt for x in I1 for y in I2 ...)  with pure iterables after the first
            expect(all(not g.ifs and not g.is_async and isinstance(g.target, ast.Name) for g in e.generators), f"{where}: generator shape")
            env2 = dict(env)
            its = []
            for i, g in enumerate(e.generators):
                b2 = binds if i == 0 else []
                t, _ = self.iterable(g.iter, env2, b2, me)
                expect(i == 0 or not b2, f"{where}: a call in an inner iterable of a generator expression is outside the subset")
                its.append((self.var(g.target.id), t))
                env2[g.target.id] = (self.var(g.target.id), INT)
            b3 = []
            elt, et = self.expr(e.elt, env2, b3, me, False)
            expect(not b3, f"{where}: call in the element of a generator expression")
            term = f"[{self.as_int(elt, et, where)}]"
            for i, (v, t) in enumerate(reversed(its)):
                if i == 0:
                    term = f"(map (fun {v} => {self.as_int(elt, et, where)}) {t})"
                else:
                    term = f"(flat_map (fun {v} => {term}) {t})"
            return term, list_t(INT)
        t, tt = self.expr(e, env, binds, me)
        if tt == RANGE:
            return f"(py_range_list (fst {t}) (snd {t}))", list_t(INT)
        expect(tt == list_t(INT), f"{where}: iterating over a value of type {tt}")
        return t, tt

    def loops(self, s, env, me, ind):
        """`for x in I: (nested for | yield e)` of a generator function -> monadic term of type M (list Z)"""
        where = f"{me[0]}.{me[1]}: `{ast.unparse(s)[:60]}`"
        if isinstance(s, ast.Expr) and isinstance(s.value, ast.Yield):
            binds = []
            t, tt = self.expr(s.value.value, env, binds, me)
            return self.wrap(binds, f"{ind}ret [{self.as_int(t, tt, where)}]", ind)
        expect(isinstance(s, ast.For) and not s.orelse and isinstance(s.target, ast.Name) and len(s.body) == 1, f"{where}: only `for x in I:` with a single nested for / yield")
        binds = []
        it, _ = self.iterable(s.iter, env, binds, me)
        env2 = dict(env)
        env2[s.target.id] = (self.var(s.target.id), INT)
        inner = self.loops(s.body[0], env2, me, ind + "  ")
        return self.wrap(binds, f"{ind}py_for_list {it} (fun {self.var(s.target.id)} =>\n{inner})", ind)

    # ------------------------------------------------------------------ statements
    @staticmethod
    def wrap(binds, body, ind):
        out = ""
        for pat, m in binds:
            out += f"{ind}{pat} <- {m} ;;\n"
        return out + body

    def stmts(self, ss, env, me, ret, ind):
        if not ss:
            expect(ret == UNIT, f"{me[0]}.{me[1]}: control reaches the end of a function that returns {ret}")
            return f"{ind}ret tt"
        s, rest = ss[0], ss[1:]
        where = f"{me[0]}.{me[1]}: `{ast.unparse(s)[:60]}`"
        if isinstance(s, ast.Expr) and isinstance(s.value, ast.Constant) and isinstance(s.value.value, str):
            return self.stmts(rest, env, me, ret, ind)
        if isinstance(s, ast.Pass):
            return self.stmts(rest, env, me, ret, ind)
        if isinstance(s, ast.Raise):
            return f"{ind}raise"
        if isinstance(s, ast.Return):
            if s.value is None:
                expect(ret == UNIT, f"{where}: bare return in a function returning {ret}")
                return f"{ind}ret tt"
            binds = []
            t, tt = self.expr(s.value, env, binds, me)
            if ret == INT:
                t = self.as_int(t, tt, where)
            elif ret is not None:
                expect(tt == ret or (isinstance(tt, tuple) and tt[0] == "list" and tt[1] is None and isinstance(ret, tuple) and ret[0] == "list"), f"{where}: returns {tt}, declared {ret}")
            return self.wrap(binds, f"{ind}ret {t}", ind)
        if isinstance(s, ast.Expr) and isinstance(s.value, ast.Call) and isinstance(s.value.func, ast.Attribute) and s.value.func.attr == "append":
            # lst.append(e)  ==  lst = lst + [e]
            tgt = s.value.func.value
            expect(isinstance(tgt, ast.Name) and tgt.id in env and len(s.value.args) == 1 and not s.value.keywords, f"{where}: append")
            lv, lt = env[tgt.id]
            expect(isinstance(lt, tuple) and lt[0] == "list", f"{where}: append on a value of type {lt}")
            binds = []
            t, tt = self.expr(s.value.args[0], env, binds, me)
            expect(lt[1] is None or lt[1] == tt, f"{where}: append of a {tt} to a list of {lt[1]}")
            env2 = dict(env)
            env2[tgt.id] = (self.var(tgt.id), list_t(tt))
            line = f"{ind}let {self.var(tgt.id)} := ({lv} ++ [{t}]) in\n"
            return self.wrap(binds, line + self.stmts(rest, env2, me, ret, ind), ind)
        if isinstance(s, ast.Assign) and len(s.targets) == 1 and isinstance(s.targets[0], ast.Subscript):
            tg = s.targets[0]
            expect(isinstance(tg.value, ast.Name) and tg.value.id in env and isinstance(tg.slice, ast.Constant) and isinstance(tg.slice.value, int) and tg.slice.value >= 0,
                   f"{where}: only `name[const] = e`")
            lv, lt = env[tg.value.id]
            expect(isinstance(lt, tuple) and lt[0] == "list" and lt[1] is not None, f"{where}: item assignment on a value of type {lt}")
            binds = []
            t, tt = self.expr(s.value, env, binds, me)
            expect(tt == lt[1], f"{where}: item of type {tt} into a list of {lt[1]}")
            v = self.var(tg.value.id)
            binds.append((v, f"py_setitem {lv} {tg.slice.value} {t}"))    # IndexError = Exc
            return self.wrap(binds, self.stmts(rest, env, me, ret, ind), ind)
        if isinstance(s, ast.For) and any(isinstance(n, ast.Yield) for n in ast.walk(s)):
            expect(not rest, f"{where}: statements after the generating loop are outside the subset")
            expect(ret == list_t(INT), f"{where}: yield in a function that is not a generator of ints")
            return self.loops(s, env, me, ind)
        if isinstance(s, ast.For):
            # for x in range(a, b[, step]): body   — the variables the body assigns are the loop state
            expect(not s.orelse and isinstance(s.target, ast.Name), f"{where}: for-else / tuple target")
            it = s.iter
            expect(isinstance(it, ast.Call) and isinstance(it.func, ast.Name) and it.func.id == "range" and 2 <= len(it.args) <= 3 and not it.keywords, f"{where}: only `for x in range(a, b[, step])`")
            binds = []
            args = []
            for a in it.args:
                t, tt = self.expr(a, env, binds, me)
                args.append(self.as_int(t, tt, where))
            if len(args) == 2:
                args.append("1")
            assigned = []
            for n in ast.walk(ast.Module(body=s.body, type_ignores=[])):
                if isinstance(n, ast.Assign):
                    for tg in n.targets:
                        for x in ast.walk(tg):
                            if isinstance(x, ast.Name) and x.id not in assigned:
                                assigned.append(x.id)
                elif isinstance(n, ast.AugAssign) and isinstance(n.target, ast.Name) and n.target.id not in assigned:
                    assigned.append(n.target.id)
                elif isinstance(n, ast.Call) and isinstance(n.func, ast.Attribute) and n.func.attr == "append" and isinstance(n.func.value, ast.Name) and n.func.value.id not in assigned:
                    assigned.append(n.func.value.id)
                expect(not isinstance(n, (ast.Return, ast.Break, ast.Continue, ast.For, ast.While)), f"{where}: return/break/continue/nested loop in a loop body is outside the subset")
            expect(s.target.id not in assigned, f"{where}: the loop variable is assigned in the body")
            state = [v for v in assigned if v in env]
            expect(state == assigned, f"{where}: the loop body introduces variables {sorted(set(assigned) - set(state))} (outside the subset)")
            expect(len(state) >= 1, f"{where}: loop without state")
            # element type of an empty list literal becomes known in the body: translate the body once to learn it
            def body_term(env_in):
                env_b = dict(env_in)
                env_b[s.target.id] = (self.var(s.target.id), INT)
                marker = ast.Return(value=ast.Tuple(elts=[ast.Name(id=v, ctx=ast.Load()) for v in state], ctx=ast.Load()) if len(state) > 1 else ast.Name(id=state[0], ctx=ast.Load()))
                holder = {}
                saved_expr = self.expr

                def spy(e, envx, bindsx, mex, allow_calls=True):
                    r = saved_expr(e, envx, bindsx, mex, allow_calls)
                    if e is marker.value:
                        holder["t"] = r[1]
                    return r
                self.expr = spy
                try:
                    txt = self.stmts(list(s.body) + [marker], env_b, me, None, ind + "    ")
                finally:
                    self.expr = saved_expr
                return txt, holder.get("t")
            txt, st_t = body_term(env)
            if len(state) == 1 and isinstance(st_t, tuple) and st_t[0] == "list" and env[state[0]][1] == list_t(None):
                env = dict(env)
                env[state[0]] = (env[state[0]][0], st_t)
                txt, st_t = body_term(env)
            pat = "(" + ", ".join(self.var(v) for v in state) + ")" if len(state) > 1 else self.var(state[0])
            init = "(" + ", ".join(env[v][0] for v in state) + ")" if len(state) > 1 else env[state[0]][0]
            loop = f"py_for_range {args[0]} {args[1]} {args[2]} (fun {self.var(s.target.id)} {'st_' if len(state) > 1 else pat} =>\n"
            if len(state) > 1:
                loop += f"{ind}    let '{pat} := st_ in\n"
            loop += txt + ") " + init
            env2 = dict(env)
            if len(state) == 1:
                env2[state[0]] = (self.var(state[0]), st_t)
                binds.append((self.var(state[0]), loop))
            else:
                for v, vt in zip(state, st_t[1]):
                    env2[v] = (self.var(v), vt)
                binds.append(("'" + pat, loop))
            return self.wrap(binds, self.stmts(rest, env2, me, ret, ind), ind)
        if isinstance(s, ast.Assign) and len(s.targets) == 1 and isinstance(s.targets[0], ast.Name) and isinstance(s.value, ast.Lambda):
            lam = s.value
            a = lam.args
            expect(not (a.args or a.vararg or a.kwarg or a.kwonlyargs or a.posonlyargs), f"{where}: only `lambda: expr`")
            params = {p for p, _ in self.sig(me)[0]}
            free = {n.id for n in ast.walk(lam.body) if isinstance(n, ast.Name) and isinstance(n.ctx, ast.Load)}
            bound = {g.target.id for n in ast.walk(lam.body) if isinstance(n, ast.GeneratorExp) for g in n.generators if isinstance(g.target, ast.Name)}
            expect(free - bound - {"range"} <= params, f"{where}: the lambda refers to local variables {sorted(free - bound - params)} (outside the subset)")
            env2 = dict(env)
            env2[s.targets[0].id] = (None, ("thunk", lam.body))
            return self.stmts(rest, env2, me, ret, ind)
        if isinstance(s, ast.For) and any(isinstance(n, ast.Yield) for n in ast.walk(s)):
            expect(not rest, f"{where}: statements after the generating loop are outside the subset")
            expect(ret == list_t(INT), f"{where}: yield in a function that is not a generator of ints")
            return self.loops(s, env, me, ind)
        if isinstance(s, (ast.Assign, ast.AnnAssign, ast.AugAssign)):
            binds = []
            if isinstance(s, ast.AugAssign):
                expect(isinstance(s.target, ast.Name), f"{where}: target")
                val = ast.BinOp(left=ast.Name(id=s.target.id, ctx=ast.Load()), op=s.op, right=s.value)
                targets = [s.target]
            elif isinstance(s, ast.AnnAssign):
                expect(s.value is not None, f"{where}: annotation without value")
                val, targets = s.value, [s.target]
            else:
                expect(len(s.targets) == 1, f"{where}: chained assignment")
                val, targets = s.value, s.targets
            t, tt = self.expr(val, env, binds, me)
            env2 = dict(env)
            tg = targets[0]
            if isinstance(tg, ast.Name):
                env2[tg.id] = (self.var(tg.id), tt)
                line = f"{ind}let {self.var(tg.id)} := {t} in\n"
            elif isinstance(tg, ast.Tuple) and all(isinstance(x, ast.Name) for x in tg.elts):
                if tt == RANGE:
                    tt = tup_t([INT, INT])
                expect(isinstance(tt, tuple) and tt[0] == "tuple" and len(tt[1]) == len(tg.elts), f"{where}: unpacking a value of type {tt}")
                for x, xt in zip(tg.elts, tt[1]):
                    env2[x.id] = (self.var(x.id), xt)
                line = f"{ind}let '({', '.join(self.var(x.id) for x in tg.elts)}) := {t} in\n"
            else:
                raise ExtractError(f"{where}: assignment target outside the subset")
            return self.wrap(binds, line + self.stmts(rest, env2, me, ret, ind), ind)
        if isinstance(s, ast.If):
            binds = []
            c, tc = self.expr(s.test, env, binds, me)
            expect(tc == BOOL, f"{where}: condition is not a bool (truthiness is outside the subset)")
            a = self.stmts(list(s.body) + rest, env, me, ret, ind + "  ")
            b = self.stmts(list(s.orelse) + rest, env, me, ret, ind + "  ")
            return self.wrap(binds, f"{ind}if {c} then\n{a}\n{ind}else\n{b}", ind)
        raise ExtractError(f"{where}: statement outside the translated subset")

    # ------------------------------------------------------------------ functions
    def function(self, key):
        fn = self.funcs[key]
        params, ret = self.sig(key)
        self.fresh = 0
        env = {p: (self.var(p), t) for p, t in params}
        self.calls.setdefault(key, set())
        body = self.stmts(desugar(list(fn.body), f"{key[0]}.{key[1]}"), env, key, ret, "  ")
        ps = " ".join(f"({self.var(p)} : {self.coq_type(t)})" for p, t in params)
        text = f"(* {key[0]}.{key[1]}, id_manager.py:{fn.lineno}-{fn.end_lineno} *)\n"
        text += f"Definition {self.fname(key)} {ps} : M {self.coq_type(ret)} :=\n{body}.\n"
        if key[1] == "__post_init__":
            (f1, t1), (f2, t2) = self.fields[key[0]]
            text += f"Definition {self.fname((key[0], 'new'))} (a : {self.coq_type(t1)}) (b : {self.coq_type(t2)}) : M {self.coq_type(cls_t(key[0]))} :=\n"
            text += f"  _ <- {self.fname(key)} (a, b) ;; ret (a, b).\n"
        self.defs[key] = text

    def run(self):
        keys = [(c, m) for c, ms in METHODS.items() for m in ms]
        for k in keys:
            expect(k in self.funcs, f"{k[0]}.{k[1]}: method not found")
            self.function(k)
        i = 0
        while i < len(self.helpers):
            expect(len(self.helpers) <= 12, "more than 12 helper methods: outside what the translator follows")
            self.function(self.helpers[i])
            i += 1
        keys = keys + list(self.helpers)
        # emit in dependency order (callees first); recursion is outside the subset
        done, order = set(), []

        def visit(k, stack):
            if k in done:
                return
            expect(k not in stack, f"recursion through {k[0]}.{k[1]} is outside the translated subset")
            for c in sorted(self.calls.get(k, ())):
                visit(c, stack + [k])
            done.add(k)
            order.append(k)
        for k in keys:
            visit(k, [])
        return order


HEADER_TR = """(* GENERATED by harness/gen_pytrans.py from the current /repo working tree. Do not edit.
   Translation of the pure integer methods of IDSubspace / IDSpace; semantics: Lib/PySem.v. *)
From Coq Require Import ZArith List Bool.
From Tup Require Import Lib.PySem.
Import ListNotations.
Open Scope Z_scope.
Open Scope py_scope.

"""


@extractor
def gen_pytrans(repo, out):
    tree = parse(repo, "tupimage/id_manager.py")
    tr = Tr(tree)
    order = tr.run()
    t = HEADER_TR
    t += "Create HintDb tr_helpers.\n\n"
    for k in order:
        t += tr.defs[k]
        if k in tr.helpers:
            t += f"#[global] Hint Unfold {tr.fname(k)} : tr_helpers.\n"
        t += "\n"
    out.add("IdSpaceTr.v", t)
