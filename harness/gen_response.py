"""Extractor plug-in for C19: the byte literals of GraphicsTerminal.receive_response /
receive_multiple_responses / get_cursor_position and the defaults of GraphicsResponse
-> coq/Gen/ResponseGen.v.

Fail-closed: each function must have *exactly* the statement structure the model
(coq/Model/ResponseModel.v) transcribes.  The comparison is structural (ast.dump) after every
bytes literal has been replaced by a numbered placeholder; the literals themselves are what is
extracted.  Any other edit of these functions (a changed slice bound, `split(b";", 1)` ->
`split(b";")`, a reordered branch ...) makes the extraction fail and the check report the tie
between model and source as broken.
"""
import ast

from gen_tables import extractor, parse, find_class, find_func, body_nodoc, expect, coq_bytes, HEADER

RECEIVE_RESPONSE = '''
def receive_response(self, timeout: float = 10) -> GraphicsResponse:
    with self.guard_tty_settings(self.in_response):
        self.set_immediate_input_noecho(self.in_response)
        buffer = b""
        is_graphics_response = False
        end_time = time.time() + timeout
        while True:
            ready, _, _ = select.select([self.in_response], [], [], timeout)
            if ready:
                buffer += self.in_response.read(1)
                if is_graphics_response:
                    if buffer.endswith(b"\\033\\\\"):
                        break
                else:
                    if buffer.endswith(b"\\033_G"):
                        is_graphics_response = True
            timeout = end_time - time.time()
            if timeout < 0:
                return GraphicsResponse(is_valid=False, non_response=buffer)
        res = GraphicsResponse(is_valid=True)
        non_response, response = buffer.split(b"\\033_G", 1)
        res.non_response = non_response
        resp_and_message = response[:-2].split(b";", 1)
        if len(resp_and_message) > 1:
            res.message = resp_and_message[1].decode("utf-8")
            res.is_ok = resp_and_message[1] == b"OK"
        for part in resp_and_message[0].split(b","):
            try:
                if part.startswith(b"i="):
                    res.image_id = int(part[2:])
                elif part.startswith(b"I="):
                    res.image_number = int(part[2:])
                elif part.startswith(b"p="):
                    res.placement_id = int(part[2:])
                else:
                    key_and_val = part.split(b"=", 1)
                    res.additional_data[key_and_val[0].decode("utf-8")] = (
                        key_and_val[1].decode("utf-8")
                        if len(key_and_val) > 1
                        else None
                    )
            except ValueError:
                pass
        return res
'''

RECEIVE_MULTIPLE = '''
def receive_multiple_responses(self, timeout: float = 0.01) -> List[GraphicsResponse]:
    res = []
    while True:
        r = self.receive_response(timeout=timeout)
        if not r.is_valid:
            break
        res.append(r)
    return res
'''

GET_CURSOR_POSITION = '''
def get_cursor_position(self, timeout: float = 2.0) -> Tuple[int, int]:
    self.out_display.flush()
    with self.guard_tty_settings(self.in_response):
        self.set_immediate_input_noecho(self.in_response)
        self.out_command.write(b"\\033[6n")
        self.out_command.flush()
        buffer = b""
        end_time = time.time() + timeout
        is_response = False
        while True:
            ready, _, _ = select.select([self.in_response], [], [], timeout)
            if ready:
                buffer += self.in_response.read(1)
                if is_response:
                    if buffer.endswith(b"R"):
                        break
                else:
                    if buffer.endswith(b"\\033["):
                        is_response = True
                        buffer = b""
            timeout = end_time - time.time()
            if timeout < 0:
                raise TimeoutError(
                    "No response to cursor position request: %r" % buffer
                )
        parts = buffer[:-1].split(b";")
        if len(parts) != 2:
            raise ValueError(
                "Invalid response to cursor position request: %r" % buffer
            )
        y, x = parts
        self.tracked_cursor_position = (int(x) - 1, int(y) - 1)
    return self.tracked_cursor_position
'''

RESPONSE_CLASS = '''
@dataclass
class GraphicsResponse:
    image_id: Optional[int] = None
    image_number: Optional[int] = None
    placement_id: Optional[int] = None
    additional_data: Dict[str, Optional[str]] = dataclasses.field(default_factory=dict)
    message: str = ""
    is_ok: bool = False
    is_valid: bool = False
    non_response: bytes = b""
'''


class _Abstract(ast.NodeTransformer):
    """Replace bytes literals by placeholders B0, B1, ... (in traversal order) and collect them;
    drop docstrings; ignore the default value of a `timeout` parameter (real-time, not modelled)."""

    def __init__(self):
        self.lits = []

    def visit_Constant(self, node):
        if isinstance(node.value, bytes):
            self.lits.append(node.value)
            return ast.Name(id=f"B{len(self.lits) - 1}", ctx=ast.Load())
        return node

    def visit_FunctionDef(self, node):
        node.body = body_nodoc(node)
        node.args.defaults = [ast.Constant(value=0) for _ in node.args.defaults]
        self.generic_visit(node)
        return node


def _shape(node):
    a = _Abstract()
    node = a.visit(node)
    return ast.dump(node), a.lits


def _match(actual, expected_src, what):
    exp = ast.parse(expected_src).body[0]
    d_act, lits = _shape(actual)
    d_exp, lits_exp = _shape(exp)
    if d_act != d_exp:
        # find the first differing top-level statement to give a usable message
        msg = f"{what}: the code no longer has the structure the model transcribes"
        try:
            for i, (sa, se) in enumerate(zip(actual.body, exp.body)):
                if ast.dump(sa) != ast.dump(se):
                    msg += f"\n   first difference in statement {i}: now `{ast.unparse(sa)[:200]}`"
                    break
        except Exception:  # noqa
            pass
        expect(False, msg)
    expect(len(lits) == len(lits_exp), f"{what}: number of byte literals changed")
    return lits


def _one(b, what):
    expect(len(b) == 1, f"{what}: a one-byte separator is expected, got {b!r}")
    return b[0]


@extractor
def gen_response(repo, out):
    gt = parse(repo, "tupimage/graphics_terminal.py")
    gc = parse(repo, "tupimage/graphics_command.py")
    cls = find_class(gt, "GraphicsTerminal")

    # ---- receive_response
    lits = _match(find_func(cls, "receive_response"), RECEIVE_RESPONSE, "receive_response")
    (buf0, term, intro, intro_split, msg_sep, ok, key_sep, k_i, k_I, k_p, kv_sep) = lits
    expect(buf0 == b"", "receive_response: the buffer must start empty")
    expect(intro == intro_split, "receive_response: the introducer waited for and the one split at differ")
    expect(len(term) == 2, "receive_response: the terminator must have 2 bytes (response[:-2])")
    for k in (k_i, k_I, k_p):
        expect(len(k) == 2, "receive_response: id keys must have 2 bytes (part[2:])")

    # ---- receive_multiple_responses
    lits = _match(find_func(cls, "receive_multiple_responses"), RECEIVE_MULTIPLE, "receive_multiple_responses")
    expect(lits == [], "receive_multiple_responses: unexpected byte literal")

    # ---- get_cursor_position
    lits = _match(find_func(cls, "get_cursor_position"), GET_CURSOR_POSITION, "get_cursor_position")
    (query, cbuf0, final, cintro, cbuf1, csep) = lits
    expect(cbuf0 == b"" and cbuf1 == b"", "get_cursor_position: the buffer must start empty and be reset to empty")
    expect(len(final) == 1, "get_cursor_position: the final byte must be one byte (buffer[:-1])")

    # ---- GraphicsResponse: fields and defaults
    rc = find_class(gc, "GraphicsResponse")
    exp = ast.parse(RESPONSE_CLASS).body[0]
    fields = [n for n in rc.body if isinstance(n, ast.AnnAssign)]
    efields = [n for n in exp.body if isinstance(n, ast.AnnAssign)]
    expect([ast.dump(n) for n in fields] == [ast.dump(n) for n in efields], "GraphicsResponse: fields or defaults changed")
    expect([ast.dump(d) for d in rc.decorator_list] == [ast.dump(d) for d in exp.decorator_list], "GraphicsResponse: no longer a plain @dataclass")
    for n in rc.body:
        if isinstance(n, ast.FunctionDef):
            expect(n.name not in ("__init__", "__post_init__", "__setattr__", "__eq__"), f"GraphicsResponse defines {n.name}")

    t = HEADER
    t += "(* tupimage/graphics_terminal.py: receive_response *)\n"
    t += f"Definition resp_intro : list N := {coq_bytes(intro)}.\n"
    t += f"Definition resp_term : list N := {coq_bytes(term)}.\n"
    t += f"Definition resp_msg_sep : N := {_one(msg_sep, 'message separator')}.\n"
    t += f"Definition resp_key_sep : N := {_one(key_sep, 'key separator')}.\n"
    t += f"Definition resp_kv_sep : N := {_one(kv_sep, 'key/value separator')}.\n"
    t += f"Definition resp_ok : list N := {coq_bytes(ok)}.\n"
    t += f"Definition resp_key_image_id : list N := {coq_bytes(k_i)}.\n"
    t += f"Definition resp_key_image_number : list N := {coq_bytes(k_I)}.\n"
    t += f"Definition resp_key_placement_id : list N := {coq_bytes(k_p)}.\n"
    t += "(* tupimage/graphics_terminal.py: get_cursor_position *)\n"
    t += f"Definition cur_query : list N := {coq_bytes(query)}.\n"
    t += f"Definition cur_intro : list N := {coq_bytes(cintro)}.\n"
    t += f"Definition cur_final : list N := {coq_bytes(final)}.\n"
    t += f"Definition cur_sep : N := {_one(csep, 'cursor report separator')}.\n"
    out.add("ResponseGen.v", t)
