"""C01 — allocated image IDs always lie in the requested ID space and subspace.
Correspondence: shared with C02 (idm_common.py: random histories on real sqlite, model = Model/IdManager.v).
Oracle: the extracted byte-layout Spec (IdLayoutSpec.in_sub_b) on every id get_id returned, plus the high-level path:
TupimageTerminal.assign_id / upload in a pty sandbox over all 5 spaces x boundary subspaces x small
max_ids_per_subspace x pre-populated databases, reading the i= key of the emitted transmit command."""
import os

import c02
import common
import idm_common as ic

GEN_DEPS = ("gen_idmanager", "gen_idspace")
ASSUMPTIONS = c02.ASSUMPTIONS + ["ids sampled by gen_random_id are members (C10_gen_sound); the harness checks every recorded sample with the Spec oracle"]
TRUSTED = c02.TRUSTED


def highlevel(ctx, model, cov):
    work = ctx.work
    rng = ctx.rng
    spaces = ["8bit", "8bit_diacritic", "16bit", "24bit", "32bit"]
    plan = []
    for sp in spaces:
        for sub in ["0:2", "0:256", "255:256", "7:8", "7:9", "100:103", "1:2"]:
            for mx in (1, 2, 1024):
                plan.append((sp, sub, mx))
    rng.shuffle(plan)
    plan = plan[: ctx.pick(40, 105)]

    forms = {"32bit": ["32bit", "32", 32], "24bit": ["24bit", 24, "24"], "8bit": ["8bit", 8, "256", "8", 256],
             "8bit_diacritic": ["8bit_diacritic", "8d"], "16bit": ["16bit", 16, "16d", "16", "16bit_diacritic"]}

    def child():
        common.scrub_process_env()
        os.environ["HOME"] = work
        os.environ["XDG_STATE_HOME"] = os.path.join(work, "state")
        os.environ["XDG_CONFIG_HOME"] = os.path.join(work, "config")
        import tupimage
        from PIL import Image
        res = []
        tty_in = open("/dev/tty", "rb", buffering=0)
        imgs = []
        for i in range(6):
            p = os.path.join(work, f"c01-{i}.png")
            Image.new("RGB", (3 + i, 2), (i * 40, 10, 200)).save(p)
            imgs.append(p)
        for k, (sp, sub, mx) in enumerate(plan):
            db = os.path.join(work, f"c01-{os.getpid()}-{k}.db")
            out = common.RecStream()
            # a third of the terminals are CONFIGURED with the requested space/subspace; a third are configured with another
            # one and get the requested one per call; a third are configured with another one, USED once, and then
            # re-configured on the live object (attribute assignment) — later requests must follow the new setting
            mode = k % 3
            per_call = (mode == 1)
            other_sp = [x for x in ("8bit", "32bit", "16bit") if x != sp][k % 2]
            # the space is requested in one of the spellings the library documents for it (names, short names, bare
            # integers); a layer that refuses a spelling (ValueError) is given the canonical name instead — but a spelling
            # that IS accepted must mean the same space in every layer
            form = forms[sp][(k // 3) % len(forms[sp])]
            spelled = form

            def mk(space_arg):
                return tupimage.TupimageTerminal(out_command=out, out_display=common.RecStream(), in_response=tty_in, id_database=db, config="DEFAULT",
                                                 id_space=space_arg, id_subspace=(sub if mode == 0 else "200:210"),
                                                 max_ids_per_subspace=mx, upload_method="direct", redetect_terminal=False)
            if mode == 0:
                try:
                    t = mk(form)
                except ValueError:
                    spelled = sp
                    t = mk(sp)
            else:
                t = mk(other_sp)
            kw = {"id_space": form, "id_subspace": sub} if per_call else {}
            if mode == 2:
                t.assign_id(imgs[0], cols=1, rows=1)
                t.get_id_space(); t.get_subspace()
                try:
                    t.id_space = form
                except ValueError:
                    spelled = sp
                    t.id_space = sp
                t.id_subspace = sub
            ids = []
            for j in range(9):
                n_before = len(out.writes)
                if j % 3 == 0:
                    inst = t.upload(imgs[j % len(imgs)], force_upload=True, **kw)
                elif j % 3 == 1:
                    inst = t.assign_id(imgs[j % len(imgs)], cols=1 + j % 3, rows=1, **kw)
                else:
                    ph = t.upload_and_display(imgs[j % len(imgs)], force_upload=True, **kw)
                    inst = t.get_image_instance(ph.image_id) or type("I", (), {"id": ph.image_id})()
                    inst.id = ph.image_id
                sent = b"".join(out.writes[n_before:])
                ids.append([inst.id, sent[:120].hex()])
            res.append([sp, sub, mx, ids, repr(spelled), mode])
            # ... and the SAME image (same geometry) once more on this terminal object under other per-call subspaces: each
            # request is served from the subspace it names
            for other in ("3:5", "240:250", "128:129"):
                try:
                    inst = t.assign_id(imgs[1], cols=1, rows=1, id_space=sp, id_subspace=other)
                    res.append([sp, other, mx, [[inst.id, ""]], repr(sp), 1])
                except Exception:  # noqa: BLE001
                    pass
            os.remove(db)
        # the session database is locked by another writer for longer than the busy timeout: the request may fail
        # (OperationalError), but an id that IS handed out lies in the requested space and subspace all the same
        import sqlite3 as _sq
        for k, (sp, sub, mx) in enumerate(plan[:12]):
            db = os.path.join(work, f"c01-{os.getpid()}-locked-{k}.db")
            out = common.RecStream()
            t = tupimage.TupimageTerminal(out_command=out, out_display=common.RecStream(), in_response=tty_in, id_database=db, config="DEFAULT",
                                          id_space=sp, id_subspace=sub, max_ids_per_subspace=mx, upload_method="direct", redetect_terminal=False)
            t.id_manager.conn.execute("PRAGMA busy_timeout=30")
            holder = _sq.connect(db, isolation_level=None)
            holder.execute("BEGIN IMMEDIATE")
            ids = []
            for j in range(3):
                try:
                    inst = t.assign_id(imgs[j], cols=1, rows=1) if j else t.upload(imgs[j], force_upload=True)
                    ids.append([inst.id, ""])
                except Exception as e:  # noqa: BLE001
                    ids.append([None, type(e).__name__])
            holder.execute("ROLLBACK")
            holder.close()
            res.append([sp, sub, mx, ids, repr(sp), 3])
            os.remove(db)
        return res

    r = common.in_pty(child, timeout=600)
    if "ok" not in r:
        ctx.corr_breaks.append({"what": "high-level assign/upload runs failed in the pty sandbox", "error": {k: v for k, v in r.items() if k != "tty"}})
        return
    names = {"8bit": "8 0", "8bit_diacritic": "0 1", "16bit": "8 1", "24bit": "24 0", "32bit": "24 1"}
    reqs, meta = [], []
    for sp, sub, mx, ids, spelled, mode in r["ok"]:
        b, e = sub.split(":")
        refused = [x for x in ids if x[0] is None]
        ids = [x for x in ids if x[0] is not None]
        if mode == 3:
            cov.bump("highlevel/database-locked/refused", len(refused))
            cov.bump("highlevel/database-locked/id-handed-out", len(ids))
        if not ids:
            continue
        idlist = [i for i, _ in ids]
        reqs.append(f"c10.spec_in_sub_many {names[sp]} {b} {e} " + ",".join(str(i) for i in idlist))
        meta.append((sp, sub, mx, ids, spelled, mode))
    for (sp, sub, mx, ids, spelled, mode), bits in zip(meta, model.batch(reqs)):
        how = ["configured", "per call", "assigned on the live object", "configured, while another writer holds the database lock"][mode]
        cov.bump(f"highlevel/spelling/{'int' if spelled.isdigit() else 'short' if spelled.strip(chr(39)) != sp else 'name'}/{how}")
        for (i, sent), bit in zip(ids, bits):
            cov.add({"path": "TupimageTerminal", "space": sp, "subspace": sub, "max_ids": mx, "id": i}, klass=f"highlevel/{sp}")
            if bit != "1":
                ctx.violations.append({"signature": {"class": "id-outside-requested-subspace", "path": "high-level"},
                                       "what": f"TupimageTerminal handed out id {i} for space {sp} (requested as {spelled}, {how}) subspace {sub}",
                                       "case": {"kind": "highlevel", "space": sp, "sub": sub, "max_ids": mx, "id": i, "spelled": spelled, "how": how}})
            if sent:
                key = f"i={i}".encode()
                raw = bytes.fromhex(sent)
                if key + b"," not in raw and key + b";" not in raw:
                    ctx.violations.append({"signature": {"class": "transmitted-id-differs", "path": "high-level"},
                                           "what": f"the transmit command does not carry i={i}", "case": {"kind": "highlevel", "space": sp, "sub": sub, "id": i, "sent": sent}})


def run(ctx, model):
    cov = common.Coverage("case = one allocator history (see C02) or one high-level request (space, subspace, max_ids, image); non-trivial = history with recycling/clean-up, or any high-level request; every id returned is judged by the extracted byte-layout Spec")
    if model is None:
        return cov
    hs = c02.run_histories(ctx, model, cov, {"id-outside-requested-subspace"})
    # Spec oracle (extracted IdLayoutSpec) on every id returned and on every recorded sample
    reqs, meta = [], []
    for h in hs:
        for s in h.steps:
            if s["op"] == "get_id":
                ids = [x for x in ([s["result"][1]] if s["result"][0] == "ID" else []) + s["samples"]]
                if ids:
                    cb, d = s["space"].split(".")
                    reqs.append(f"c10.spec_in_sub_many {cb} {d} {s['sub'][0]} {s['sub'][1]} " + ",".join(str(i) for i in ids))
                    meta.append((s, ids))
    for (s, ids), bits in zip(meta, model.batch(reqs)):
        for i, bit in zip(ids, bits):
            if bit != "1":
                ctx.violations.append({"signature": {"class": "id-outside-requested-subspace", "path": "get_id"},
                                       "what": f"id {i} returned/sampled for space {s['space']} subspace {s['sub']} is not a member by the byte layout",
                                       "case": {"kind": "step", "request": s["req"][:1200], "id": i}})
    cov.bump("ids-judged-by-spec", sum(len(i) for _, i in meta))
    highlevel(ctx, model, cov)
    # a live TupimageTerminal whose id_space / id_subspace is re-assigned behaves like one constructed with the new values
    import c08_cli
    c08_cli.reconfigure_equivalence(ctx, cov, ctx.pick(24, 120), must_change=["id_space", "id_subspace"])
    # the command line hands out ids from the space / subspace the configuration (file, environment) names: CLI ≡ library call
    c08_cli.cli_equivalence(ctx, cov, ctx.pick(24, 80), env_rate=0.8)
    return cov


def replay(ctx, model, rec):
    case = rec["case"]
    if "id" in case and case.get("kind") == "highlevel":
        names = {"8bit": "8 0", "8bit_diacritic": "0 1", "16bit": "8 1", "24bit": "24 0", "32bit": "24 1"}
        b, e = case["sub"].split(":")
        bit = model.one(f"c10.spec_in_sub_many {names[case['space']]} {b} {e} {case['id']}")
        return {"violates": bit != "1", "spec_in_sub": bit}
    return {"violates": False, "note": "re-run the check with the same seed"}
