"""C08, the command-line path: `python -m tupimage.cli display ...` must put on the terminal exactly what the
library call it stands for puts there.

cli.display() is glue: it builds a TupimageTerminal with config_overrides {force_upload, max_cols, max_rows, scale}
(+ --out-display) and calls upload_and_display(image, rows=, cols=, use_line_feeds=) for every image argument (an
argument that is not a file but parses as an id is displayed from the database).  The library call is what the rest of
C08 verifies; here the two are run in identical sandboxes (fresh session database, a one-id subspace so that the
allocated id is the same, same window size, same files) and their terminal traffic is compared byte for byte:
the graphics commands written to the controlling tty and the placeholder bytes written to --out-display.
Trusted: this file's reading of the options (the table in `api_call`)."""
import os
import random as _random
import subprocess

import common


def _sandbox_env(d, extra=None):
    env = common.clean_env({"HOME": d, "XDG_STATE_HOME": os.path.join(d, "state"), "XDG_CONFIG_HOME": os.path.join(d, "config"),
                            "TMPDIR": os.path.join(d, "tmp"), "WINDOWID": "42", "TUPIMAGE_ID_SPACE": "8bit", "TUPIMAGE_ID_SUBSPACE": "10:11",
                            "TUPIMAGE_UPLOAD_METHOD": "direct"})
    if extra:
        env.update(extra)
    return env


# both runs draw ids (and placement ids) from the same fixed sequence, so that subspaces of more than one id and the larger id
# spaces can be compared byte for byte; the command line is still entered through tupimage.cli.main() with its argv
_FIXED_DRAWS = (
    "import random as _r\n"
    "import tupimage.id_manager as _m\n"
    "class _S:\n"
    "    def __init__(s): s.r = _r.Random(4242)\n"
    "    def randbelow(s, n): return s.r.randrange(n)\n"
    "    def choice(s, q): return q[s.r.randrange(len(q))]\n"
    "_m.secrets = _S()\n"
    "_r.seed(4242)\n"
)
_CLI_PROG = _FIXED_DRAWS + "import sys\nimport tupimage.cli\nsys.argv = ['tupimage'] + sys.argv[1:]\ntupimage.cli.main()\n"


def _run_cli(d, argv, env):
    """in a pty child: run the CLI; the tty output (graphics commands) is what in_pty returns as 'tty'"""
    def child():
        os.makedirs(os.path.join(d, "tmp"), exist_ok=True)
        p = subprocess.run([common.PY, "-c", _CLI_PROG] + argv, env=env, cwd=d, stdout=subprocess.PIPE, stderr=subprocess.PIPE, timeout=120)
        return {"rc": p.returncode, "stdout": p.stdout.hex(), "stderr": p.stderr.decode(errors="replace")[-400:]}
    return common.in_pty(child, timeout=300)


def _run_api(d, call, env):
    """in a pty child: the library call the CLI invocation stands for, in a fresh interpreter with the same environment"""
    prog = _FIXED_DRAWS + (
        "import sys, json\n"
        "import tupimage\n"
        "call = json.loads(sys.argv[1])\n"
        "t = tupimage.TupimageTerminal(out_display=call['out_display'], config_overrides=call['overrides'])\n"
        "if call.get('dump'):\n"
        "    print(t._config.to_toml_string(with_provenance=True), end='')\n"
        "ulf = call['use_line_feeds']\n"
        "if ulf == 'auto' and not t.term.out_display.isatty():\n"
        "    ulf = 'yes'\n"
        "rc = 0\n"
        "for image in call['images']:\n"
        "    try:\n"
        "        t.upload_and_display(image, rows=call['rows'], cols=call['cols'], use_line_feeds=(ulf == 'yes'))\n"
        "    except FileNotFoundError:\n"
        "        rc = 1\n"
        "sys.stdout.flush()\n"
        "sys.exit(rc)\n"
    )

    def child():
        import json
        os.makedirs(os.path.join(d, "tmp"), exist_ok=True)
        p = subprocess.run([common.PY, "-c", prog, json.dumps(call)], env=env, cwd=d, stdout=subprocess.PIPE, stderr=subprocess.PIPE, timeout=120)
        return {"rc": p.returncode, "stdout": p.stdout.hex(), "stderr": p.stderr.decode(errors="replace")[-400:]}
    return common.in_pty(child, timeout=300)


def cases(rng, n, env_rate=0.3):
    out = []
    base = [
        {"cols": None, "rows": None}, {"cols": 3, "rows": None}, {"cols": None, "rows": 2}, {"cols": 4, "rows": 3},
        {"cols": None, "rows": None, "max_cols": "2"}, {"cols": None, "rows": None, "max_rows": "1"}, {"cols": None, "rows": None, "scale": 0.5},
        {"cols": None, "rows": None, "scale": 3.0, "max_cols": "5", "max_rows": "2"}, {"cols": 2, "rows": None, "force": True},
        {"cols": None, "rows": 5, "max_cols": "3"}, {"cols": 7, "rows": None, "max_rows": "2"}, {"cols": None, "rows": None, "max_cols": "auto", "max_rows": "auto"},
    ]
    base = base + [{"cols": None, "rows": None, "three": True}, {"cols": 2, "rows": None, "three": True, "force": True},
                   {"cols": None, "rows": None, "three": True, "env": {"TUPIMAGE_REUPLOAD_MAX_UPLOADS_AGO": "1", "TUPIMAGE_ID_SUBSPACE": "100:104"}},
                   # settings from a configuration FILE (no environment variable, nothing on the command line for them)
                   {"cols": None, "rows": None, "file": {"id_space": "24bit", "id_subspace": "16:32"}, "dump": True},
                   {"cols": None, "rows": None, "two": True, "file": {"id_space": "8bit", "id_subspace": "100:120", "max_cols": 2, "fewer_diacritics": True}},
                   {"cols": None, "rows": 2, "file": {"id_space": "16bit", "num_tmux_layers": 1, "scale": 0.5, "background": "#102030"}},
                   # limits above 256 columns on the command line, an image wide enough to need them
                   {"cols": None, "rows": None, "wide": True, "max_cols": "400", "max_rows": "50"}, {"cols": 300, "rows": None, "wide": True, "max_cols": "400", "max_rows": "50"},
                   {"cols": None, "rows": None, "wide": True, "max_cols": "256", "max_rows": "256"},
                   # an explicit 'auto' on the command line above a number from a lower layer
                   {"cols": None, "rows": None, "max_cols": "auto", "env": {"TUPIMAGE_MAX_COLS": "2"}, "dump": True},
                   {"cols": None, "rows": None, "two": True, "max_rows": "auto", "file": {"max_rows": 1}, "dump": True}]
    if env_rate > 0:
        # settings from the environment layer that bite for the two test images (23x11 and 9x30 px on 8x16 cells)
        base = [{"cols": None, "rows": None, "env": {"TUPIMAGE_MAX_COLS": "2"}}, {"cols": None, "rows": None, "two": True, "env": {"TUPIMAGE_MAX_ROWS": "1"}},
                {"cols": None, "rows": None, "env": {"TUPIMAGE_SCALE": "0.5"}}, {"cols": None, "rows": 2, "env": {"TUPIMAGE_MAX_COLS": "2"}}] + base
    for b in base:
        out.append(dict(b))
    while len(out) < n:
        c = {"cols": rng.choice([None, None, 1, 2, 5]), "rows": rng.choice([None, None, 1, 3, 4])}
        if rng.random() < 0.4:
            c["max_cols"] = rng.choice(["1", "3", "6", "auto"])
        if rng.random() < 0.4:
            c["max_rows"] = rng.choice(["1", "2", "4", "auto"])
        if rng.random() < 0.4:
            c["scale"] = rng.choice([0.25, 0.5, 2.0, 1.5])
        if rng.random() < 0.3:
            c["force"] = True
        if rng.random() < 0.3:
            c["two"] = True
        if rng.random() < 0.25:
            c["ulf"] = rng.choice(["yes", "no"])
        # a setting that comes from the ENVIRONMENT layer (both runs see the same variables) and is not given on the command line:
        # the command line must not override it with a default of its own
        if rng.random() < env_rate:
            name, val, key = rng.choice([("TUPIMAGE_MAX_COLS", "2", "max_cols"), ("TUPIMAGE_MAX_ROWS", "1", "max_rows"), ("TUPIMAGE_SCALE", "0.5", "scale"),
                                         ("TUPIMAGE_MAX_COLS", "5", "max_cols"), ("TUPIMAGE_FEWER_DIACRITICS", "true", None), ("TUPIMAGE_BACKGROUND", "3", None),
                                         ("TUPIMAGE_ID_SPACE", rng.choice(["16bit", "24bit", "32bit", "8bit_diacritic"]), None), ("TUPIMAGE_ID_SUBSPACE", rng.choice(["100:104", "0:256", "255:256"]), None),
                                         ("TUPIMAGE_NUM_TMUX_LAYERS", rng.choice(["1", "2"]), None), ("TUPIMAGE_FORCE_UPLOAD", "true", None),
                                         ("TUPIMAGE_REUPLOAD_MAX_UPLOADS_AGO", "1", None)])
            # (not the upload method: with `file` the transmitted payload is the path, which names the run's own sandbox directory)
            if key is None or c.get(key) is None:
                c["env"] = {name: val}
        if rng.random() < 0.25:
            c["dump"] = True       # --dump-config: the effective configuration with the layer each value came from
        if rng.random() < 0.2 and not c.get("three"):
            c["twice"] = True      # the same image named twice in a row
        out.append(c)
    return out


def cli_equivalence(ctx, cov, n, env_rate=0.3):
    from PIL import Image
    rng = _random.Random(ctx.rng.randrange(2**40))
    work = os.path.join(ctx.work, "cli-eq")
    os.makedirs(work, exist_ok=True)
    for idx, c in enumerate(cases(rng, n, env_rate)):
        runs = {}
        for who in ("cli", "api"):
            d = os.path.join(work, f"{idx}-{who}")
            os.makedirs(d, exist_ok=True)
            rnd = _random.Random(1000 + idx)
            for name, size in (("a.png", (23, 11)), ("b.png", (9, 30)), ("wide.png", (2400, 16))):
                im = Image.new("RGB", size)
                im.putdata([(rnd.randrange(256), rnd.randrange(256), rnd.randrange(256)) for _ in range(size[0] * size[1])])
                im.save(os.path.join(d, name))
                os.utime(os.path.join(d, name), ns=(1_700_000_000_000_000_000, 1_700_000_000_000_000_000))
            images = (["wide.png"] if c.get("wide") else ["a.png"]) + (["b.png"] if c.get("two") else []) + (["b.png", "a.png"] if c.get("three") else []) + (["a.png"] if c.get("twice") else [])
            env = _sandbox_env(d, c.get("env"))
            if c.get("file"):
                import toml as _toml
                cfg_path = os.path.join(d, "cfg.toml")
                with open(cfg_path, "w") as f:
                    f.write(_toml.dumps(c["file"]))
                env["TUPIMAGE_CONFIG"] = cfg_path
                for k in c["file"]:
                    env.pop("TUPIMAGE_" + k.upper(), None)      # the file is the highest layer that sets these
            if "TUPIMAGE_NUM_TMUX_LAYERS" in (c.get("env") or {}) or "num_tmux_layers" in (c.get("file") or {}):
                os.makedirs(os.path.join(d, "bin"), exist_ok=True)
                with open(os.path.join(d, "bin", "tmux"), "w") as f:
                    f.write("#!/bin/sh\necho 'fake-term||||77||||88_sess'\n")
                os.chmod(os.path.join(d, "bin", "tmux"), 0o755)
                env["PATH"] = os.path.join(d, "bin") + ":" + env.get("PATH", os.environ.get("PATH", ""))
            if who == "cli":
                argv = ["display", "--out-display", "disp.out"]
                for k, flag in (("cols", "--cols"), ("rows", "--rows"), ("max_cols", "--max-cols"), ("max_rows", "--max-rows"), ("scale", "--scale")):
                    if c.get(k) is not None:
                        argv += [flag, str(c[k])]
                if c.get("force"):
                    argv.append("--force-upload")
                if c.get("ulf"):
                    argv += ["--use-line-feeds", c["ulf"]]
                if c.get("dump"):
                    argv.append("--dump-config")
                r = _run_cli(d, argv + images, env)
            else:
                call = {"out_display": "disp.out", "overrides": {"force_upload": bool(c.get("force")), "max_cols": c.get("max_cols"), "max_rows": c.get("max_rows"),
                                                                  "scale": c.get("scale"), "provenance": "set via command line"},
                        "images": images, "rows": c.get("rows"), "cols": c.get("cols"), "use_line_feeds": c.get("ulf", "auto"), "dump": bool(c.get("dump"))}
                r = _run_api(d, call, env)
            if "ok" not in r:
                ctx.corr_breaks.append({"what": f"CLI equivalence: the {who} run failed in the pty sandbox", "case": c, "error": {k: v for k, v in r.items() if k != "tty"}})
                runs = None
                break
            try:
                with open(os.path.join(d, "disp.out"), "rb") as f:
                    disp = f.read()
            except OSError:
                disp = b""
            # the sandbox directory name differs between the two runs: it appears in nothing that is transmitted (method direct)
            runs[who] = {"rc": r["ok"]["rc"], "tty": bytes(r["tty"]), "disp": disp, "stderr": r["ok"]["stderr"],
                         "stdout": bytes.fromhex(r["ok"]["stdout"]).replace(d.encode(), b"<DIR>")}
        if not runs:
            continue
        case = {"kind": "cli-equivalence", **{k: v for k, v in c.items()}}
        cov.add(case, klass="cli-equivalence/" + ("explicit" if (c.get("cols") or c.get("rows")) else "auto"))
        a, b = runs["cli"], runs["api"]
        if b["rc"] != 0 or not b["tty"] or not b["disp"]:
            ctx.corr_breaks.append({"what": "CLI equivalence: the library call itself failed or wrote nothing", "case": case, "rc": b["rc"], "stderr": b["stderr"]})
            continue
        diffs = [k for k in ("rc", "tty", "disp", "stdout") if a[k] != b[k]]
        if diffs:
            ctx.violations.append({"signature": {"class": "cli-differs-from-library-call", "what": diffs},
                                   "what": f"`tupimage display` with {c} puts something else on the terminal than upload_and_display with the same parameters: {', '.join(diffs)} differ "
                                           f"(commands {len(a['tty'])} vs {len(b['tty'])} bytes, placeholder {len(a['disp'])} vs {len(b['disp'])} bytes, exit {a['rc']} vs {b['rc']}; stderr: {a['stderr'][-150:]!r})",
                                   "case": case})


# ------------------------------------------------------------------------------ live reconfiguration
RECONF_VALUES = {
    "id_space": ["8bit", "16bit", "32bit", "24bit", "8bit_diacritic"],
    "id_subspace": ["10:12", "100:104", "0:256", "7:8"],
    "upload_method": ["file", "direct"],
    "force_upload": [False, True],
    "fewer_diacritics": [False, True],
    "max_cols": [3, 7, 40],
    "max_rows": [2, 5, 20],
    "scale": [0.5, 1.0, 2.0],
    "global_scale": [1.0, 0.5],
    "num_tmux_layers": [0, 1, 2],
    "background": ["none", 3, "#102030"],
    "stream_max_size": [2 * 1024 * 1024, 300],
}
# (only settings that TupimageTerminal exposes as assignable properties: checked in the child)
# (file_max_size and redetect_terminal are assignable but left out: temporary-file names / a keyword the child fixes)
# settings that are NOT assignable properties on the pinned tree; should a tree make one assignable, it is held to the same
# standard (a live assignment must act like construction with the value)
RECONF_OPTIONAL = {
    "max_command_size": [4096, 300, 1024],
    "force_placeholders": [False, True],
}


def _assignable(work, names):
    common.scrub_process_env()
    os.environ["HOME"] = work
    os.environ["XDG_STATE_HOME"] = os.path.join(work, "state")
    os.environ["XDG_CONFIG_HOME"] = os.path.join(work, "config")
    import tupimage
    return [k for k in names if isinstance(getattr(tupimage.TupimageTerminal, k, None), property)]


def _reconf_child(work, cases):
    """For every case: terminal A is built with config c1, every side-effect-free getter is called once (whatever they
    memoise is now warm), then the attributes of c2 are assigned on the live object; terminal B is built with c2 directly.
    Both then serve the same requests, with the same random draws, on fresh databases."""
    common.scrub_process_env()
    os.environ["HOME"] = work
    os.environ["XDG_STATE_HOME"] = os.path.join(work, "state")
    os.environ["XDG_CONFIG_HOME"] = os.path.join(work, "config")
    import tupimage
    import tupimage.id_manager as idm
    from PIL import Image
    tty_in = open("/dev/tty", "rb", buffering=0)
    rnd = _random.Random(7)
    imgs = []
    for i, size in enumerate([(23, 11), (9, 30), (64, 64)]):
        p = os.path.join(work, f"rc-{i}.png")
        im = Image.new("RGB", size)
        im.putdata([(rnd.randrange(256), rnd.randrange(256), rnd.randrange(256)) for _ in range(size[0] * size[1])])
        im.save(p)
        os.utime(p, ns=(1_700_000_000_000_000_000, 1_700_000_000_000_000_000))
        imgs.append(p)

    class FixedSecrets:
        def __init__(self, seed):
            self.r = _random.Random(seed)

        def randbelow(self, n):
            return self.r.randrange(n)

        def choice(self, seq):
            return seq[self.r.randrange(len(seq))]

    saved = idm.secrets
    out = []
    try:
        for ci, case_ in enumerate(cases):
            c1, c2 = case_[0], case_[1]
            how = case_[2] if len(case_) > 2 else "setattr"
            runs = {}
            for who in ("reconfigured", "fresh"):
                db = os.path.join(work, f"rc-{os.getpid()}-{ci}-{who}.db")
                cmd, disp = common.RecStream(), common.RecStream()
                first = c1 if who == "reconfigured" else c2
                if how == "config-object":
                    # the configuration lives in an object of the caller's, handed to the constructor and changed later through
                    # its own interface
                    cfg_obj = tupimage.TupimageConfig()
                    cfg_obj.override_from_dict(dict(first, redetect_terminal=False))
                    t = tupimage.TupimageTerminal(out_command=cmd, out_display=disp, in_response=tty_in, id_database=db, terminal_id="rc", session_id="rc", config=cfg_obj)
                else:
                    t = tupimage.TupimageTerminal(out_command=cmd, out_display=disp, in_response=tty_in, id_database=db, terminal_id="rc", session_id="rc",
                                                  config="DEFAULT", redetect_terminal=False, **first)
                if who == "reconfigured":
                    for g in ("get_id_space", "get_subspace", "get_upload_method", "get_max_cols_and_rows", "get_cell_size", "get_supported_formats"):
                        try:
                            getattr(t, g)()
                        except Exception:  # noqa
                            pass
                    try:
                        t.get_image_placeholder_mode(7)
                        t.get_optimal_cols_and_rows(100, 50)
                        t.get_max_upload_size(t.get_upload_method())
                    except Exception:  # noqa
                        pass
                    # ... and a real request under the OLD settings (whatever the request path memoises is warm as well); the
                    # id it assigned is given back, so that both terminals start from the same database
                    try:
                        w_ = t.assign_id(imgs[2], rows=1)
                        t.id_manager.del_id(w_.id)
                    except Exception:  # noqa
                        pass
                    if how == "config-object":
                        cfg_obj.override_from_dict({k: v for k, v in c2.items() if c1.get(k) != v})
                    else:
                        for k, v in c2.items():
                            if not isinstance(getattr(type(t), k, None), property):
                                raise RuntimeError(f"{k} is not an assignable property of TupimageTerminal")
                            setattr(t, k, v)
                idm.secrets = FixedSecrets(4242 + ci)
                res = []
                for req in range(4):
                    n_c, n_d = len(cmd.writes), len(disp.writes)
                    try:
                        if req == 0:
                            r = t.upload_and_display(imgs[0])
                            val = [r.image_id, r.end_col, r.end_row]
                        elif req == 1:
                            r = t.upload_and_display(imgs[1], cols=3)
                            val = [r.image_id, r.end_col, r.end_row]
                        elif req == 2:
                            r = t.assign_id(imgs[2], rows=2)
                            val = [r.id, r.cols, r.rows]
                        else:
                            r = t.upload(imgs[0])
                            val = [r.id, r.cols, r.rows]
                    except Exception as e:  # noqa
                        val = ["EXC", type(e).__name__, str(e)[:120]]
                    res.append({"val": val, "cmd": b"".join(bytes(w) for w in cmd.writes[n_c:]).hex(), "disp": b"".join(bytes(w) for w in disp.writes[n_d:]).hex()})
                runs[who] = res
                for suffix in ("", "-wal", "-shm"):
                    try:
                        os.remove(db + suffix)
                    except OSError:
                        pass
            out.append(runs)
    finally:
        idm.secrets = saved
    return out


def reconfigure_equivalence(ctx, cov, n, must_change=None):
    """must_change: names of which one is re-assigned in every case (default: every setting in turn)"""
    rng = _random.Random(ctx.rng.randrange(2**40))
    work = ctx.work
    ra = common.in_pty(lambda: _assignable(work, sorted(RECONF_OPTIONAL)), timeout=60)
    extra = ra.get("ok", []) if isinstance(ra, dict) else []
    values = dict(RECONF_VALUES)
    values.update({k: RECONF_OPTIONAL[k] for k in extra})
    names = sorted(values)
    turn = [k for k in (list(must_change) if must_change else names) if k in values]
    if not turn:
        cov.bump("reconfigure/not-an-assignable-setting:" + ",".join(must_change or []))
        return
    cases = []
    for i in range(n):
        c1 = {k: rng.choice(values[k]) for k in names}
        changed = [turn[i % len(turn)]] + rng.sample(names, rng.randrange(0, 4))
        c2 = dict(c1)
        for k in changed:
            others = [v for v in values[k] if v != c1[k]]
            c2[k] = rng.choice(others)
        cases.append((c1, c2))
    r = common.in_pty(lambda: _reconf_child(work, cases), timeout=600)
    if "ok" not in r:
        ctx.corr_breaks.append({"what": "live-reconfiguration runs failed in the pty sandbox", "error": {k: v for k, v in r.items() if k != "tty"}})
        return
    for (c1, c2), runs in zip(cases, r["ok"]):
        changed = sorted(k for k in c2 if c2[k] != c1[k])
        case = {"kind": "reconfigure", "before": c1, "after": c2}
        cov.add({"changed": changed, "after": c2}, klass="reconfigure/" + ",".join(changed[:2]))
        a, b = runs["reconfigured"], runs["fresh"]
        for i, (x, y) in enumerate(zip(a, b)):
            diffs = [k for k in ("val", "cmd", "disp") if x[k] != y[k]]
            if diffs:
                ctx.violations.append({"signature": {"class": "stale-configuration-after-reassignment", "changed": changed[:3], "differs": diffs},
                                       "what": f"a terminal whose settings {changed} were re-assigned on the live object (after every getter had been called once) serves request {i} differently "
                                               f"from a terminal constructed with the new settings: {', '.join(diffs)} differ (result {x['val']} vs {y['val']})", "case": case})
                break


CONFIG_OBJECT_VALUES = {
    "reupload_max_uploads_ago": [1024, 1, 2],
    "reupload_max_bytes_ago": [20 * 2**20, 50, 3000],
    "force_upload": [False, True],
    "fewer_diacritics": [False, True],
    "max_cols": [3, 7, 40],
    "max_rows": [2, 5, 20],
    "scale": [0.5, 1.0, 2.0],
    "id_subspace": ["10:12", "100:104", "0:256"],
    "background": ["none", 3],
}


def config_object_equivalence(ctx, cov, n, must_change=None):
    """Like reconfigure_equivalence, but the settings are changed through the caller's own TupimageConfig object (the one that
    was handed to the constructor): options the terminal reads from its configuration at every request — the re-upload
    thresholds among them — follow the change."""
    rng = _random.Random(ctx.rng.randrange(2**40))
    work = ctx.work
    names = sorted(CONFIG_OBJECT_VALUES)
    turn = list(must_change) if must_change else names
    cases = []
    for i in range(n):
        c1 = {k: rng.choice(CONFIG_OBJECT_VALUES[k]) for k in names}
        c2 = dict(c1)
        for k in [turn[i % len(turn)]] + rng.sample(names, rng.randrange(0, 3)):
            c2[k] = rng.choice([v for v in CONFIG_OBJECT_VALUES[k] if v != c1[k]])
        cases.append((c1, c2, "config-object"))
    r = common.in_pty(lambda: _reconf_child(work, cases), timeout=600)
    if "ok" not in r:
        ctx.corr_breaks.append({"what": "configuration-object runs failed in the pty sandbox", "error": {k: v for k, v in r.items() if k != "tty"}})
        return
    for (c1, c2, _), runs in zip(cases, r["ok"]):
        changed = sorted(k for k in c2 if c2[k] != c1[k])
        cov.add({"changed": changed, "after": c2, "via": "config object"}, klass="config-object/" + ",".join(changed[:2]))
        for i, (x, y) in enumerate(zip(runs["reconfigured"], runs["fresh"])):
            diffs = [k for k in ("val", "cmd", "disp") if x[k] != y[k]]
            if diffs:
                ctx.violations.append({"signature": {"class": "stale-configuration-after-reassignment", "changed": changed[:3], "differs": diffs, "via": "config object"},
                                       "what": f"a terminal whose configuration object had {changed} changed after construction serves request {i} differently from a terminal constructed "
                                               f"with the new settings: {', '.join(diffs)} differ (result {x['val']} vs {y['val']})",
                                       "case": {"kind": "config-object", "before": c1, "after": c2}})
                break


# ------------------------------------------------------------------------------ `display id:N`
def cli_id_scenarios(ctx, cov):
    """`tupimage display id:N` re-displays an image known to the session database: upload_and_display(get_image_instance(N)).
    Two tmux clients of one session (fake `tmux` executable) share the database; the file behind the id may have been
    overwritten or deleted in the meantime — then the terminal that never received the image must not be told to show it:
    the command fails and prints nothing, exactly like the library call."""
    from PIL import Image
    work = os.path.join(ctx.work, "cli-id")
    os.makedirs(work, exist_ok=True)
    prog_api = (
        "import sys, os\n"
        "import tupimage\n"
        "t = tupimage.TupimageTerminal(out_display='disp2.out', config_overrides={'force_upload': False, 'max_cols': None, 'max_rows': None, 'scale': None, 'provenance': 'set via command line'})\n"
        "inst = t.get_image_instance(int(sys.argv[1]))\n"
        "if inst is None:\n"
        "    sys.exit(1)\n"
        "t.upload_and_display(inst, rows=None, cols=None)\n"
    )
    scenarios = [("same-terminal", "101", None), ("other-terminal", "202", None), ("other-terminal-file-overwritten", "202", "overwrite"),
                 ("other-terminal-file-deleted", "202", "delete"), ("same-terminal-file-overwritten", "101", "overwrite"),
                 # the id is re-displayed by an invocation configured for ANOTHER id space / subspace: it stays the id it is
                 ("same-terminal-other-id-space", "101", None, {"TUPIMAGE_ID_SPACE": "32bit", "TUPIMAGE_ID_SUBSPACE": "0:256"}),
                 ("other-terminal-other-id-space", "202", None, {"TUPIMAGE_ID_SPACE": "24bit", "TUPIMAGE_ID_SUBSPACE": "100:104", "TUPIMAGE_FEWER_DIACRITICS": "true"})]
    for sc_ in scenarios:
        name, client2, damage = sc_[:3]
        env2 = sc_[3] if len(sc_) > 3 else {}
        runs = {}
        for who in ("cli", "api"):
            d = os.path.join(work, f"{name}-{who}")
            os.makedirs(os.path.join(d, "bin"), exist_ok=True)
            os.makedirs(os.path.join(d, "tmp"), exist_ok=True)
            with open(os.path.join(d, "bin", "tmux"), "w") as f:
                f.write("#!/bin/sh\necho \"xterm-kitty||||$FAKE_TMUX_CLIENT||||77_sess\"\n")
            os.chmod(os.path.join(d, "bin", "tmux"), 0o755)
            rnd = _random.Random(77)
            im = Image.new("RGB", (17, 9))
            im.putdata([(rnd.randrange(256), rnd.randrange(256), rnd.randrange(256)) for _ in range(17 * 9)])
            im.save(os.path.join(d, "a.png"))
            os.utime(os.path.join(d, "a.png"), ns=(1_700_000_000_000_000_000, 1_700_000_000_000_000_000))
            base = _sandbox_env(d, {"TMUX": "/tmp/tmux-0/default,1,0", "TERM": "screen-256color", "PATH": os.path.join(d, "bin") + ":" + os.environ.get("PATH", "")})

            def step(argv_or_prog, client, api=False, extra=None):
                env = dict(base, FAKE_TMUX_CLIENT=client)
                env.update(extra or {})

                def child():
                    cmd = [common.PY, "-c", argv_or_prog[0]] + argv_or_prog[1:] if api else [common.PY, "-m", "tupimage.cli"] + argv_or_prog
                    p = subprocess.run(cmd, env=env, cwd=d, stdout=subprocess.PIPE, stderr=subprocess.PIPE, timeout=120)
                    return {"rc": p.returncode, "stderr": p.stderr.decode(errors="replace")[-300:]}
                return common.in_pty(child, timeout=300)

            r1 = step(["display", "--out-display", "disp1.out", "a.png"], "101")
            if "ok" not in r1 or r1["ok"]["rc"] != 0:
                ctx.corr_breaks.append({"what": "CLI id scenarios: the first display failed", "scenario": name, "error": {k: v for k, v in r1.items() if k != "tty"}})
                runs = None
                break
            if damage == "overwrite":
                im2 = Image.new("RGB", (5, 21), (200, 10, 10))
                im2.save(os.path.join(d, "a.png"))
                os.utime(os.path.join(d, "a.png"), ns=(1_700_000_100_000_000_000, 1_700_000_100_000_000_000))
            elif damage == "delete":
                os.remove(os.path.join(d, "a.png"))
            r2 = step([prog_api, "10"], client2, api=True, extra=env2) if who == "api" else step(["display", "--out-display", "disp2.out", "id:10"], client2, extra=env2)
            if "ok" not in r2:
                ctx.corr_breaks.append({"what": "CLI id scenarios: the second step failed in the sandbox", "scenario": name, "error": {k: v for k, v in r2.items() if k != "tty"}})
                runs = None
                break
            try:
                with open(os.path.join(d, "disp2.out"), "rb") as f:
                    disp = f.read()
            except OSError:
                disp = b""
            runs[who] = {"failed": r2["ok"]["rc"] != 0, "tty": bytes(r2["tty"]), "disp": disp, "stderr": r2["ok"]["stderr"]}
        if not runs:
            continue
        case = {"kind": "cli-id", "scenario": name}
        cov.add(case, klass="cli-id/" + name)
        a, b = runs["cli"], runs["api"]
        diffs = [k for k in ("failed", "tty", "disp") if a[k] != b[k]]
        if diffs:
            ctx.violations.append({"signature": {"class": "cli-differs-from-library-call", "what": diffs, "scenario": name},
                                   "what": f"`tupimage display id:10` ({name}) puts something else on the terminal than upload_and_display(get_image_instance(10)): {', '.join(diffs)} differ "
                                           f"(failed {a['failed']} vs {b['failed']}, commands {len(a['tty'])} vs {len(b['tty'])} bytes, placeholder {len(a['disp'])} vs {len(b['disp'])} bytes; stderr {a['stderr'][-120:]!r})",
                                   "case": case})
