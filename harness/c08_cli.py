"""C08, the command-line path: `python -m tupimage.cli display ...` must put on the terminal exactly what the
library call it stands for puts there.

cli.display() is glue: it builds a TupimageTerminal with config_overrides {force_upload, max_cols, max_rows, scale}
(+ --out-display) and calls upload_and_display(image, rows=, cols=, use_line_feeds=) for every image argument (an
argument that is not a file but parses as an id is displayed from the database).  The library call is what the rest of
C08 verifies; here the two are run in identical sandboxes (fresh session database, a one-id subspace so that the
allocated id is the same, same window size, same files) and their terminal traffic is compared byte for byte:
the graphics commands written to the controlling tty and the placeholder bytes written to --out-display.
Trusted: this file's reading of the options (the table in `api_call`)."""
import os
import random as _random
import subprocess

import common


def _sandbox_env(d, extra=None):
    env = common.clean_env({"HOME": d, "XDG_STATE_HOME": os.path.join(d, "state"), "XDG_CONFIG_HOME": os.path.join(d, "config"),
                            "TMPDIR": os.path.join(d, "tmp"), "WINDOWID": "42", "TUPIMAGE_ID_SPACE": "8bit", "TUPIMAGE_ID_SUBSPACE": "10:11",
                            "TUPIMAGE_UPLOAD_METHOD": "direct"})
    if extra:
        env.update(extra)
    return env


def _run_cli(d, argv, env):
    """in a pty child: run the CLI; the tty output (graphics commands) is what in_pty returns as 'tty'"""
    def child():
        os.makedirs(os.path.join(d, "tmp"), exist_ok=True)
        p = subprocess.run([common.PY, "-m", "tupimage.cli"] + argv, env=env, cwd=d, stdout=subprocess.PIPE, stderr=subprocess.PIPE, timeout=120)
        return {"rc": p.returncode, "stdout": p.stdout.hex(), "stderr": p.stderr.decode(errors="replace")[-400:]}
    return common.in_pty(child, timeout=300)


def _run_api(d, call, env):
    """in a pty child: the library call the CLI invocation stands for, in a fresh interpreter with the same environment"""
    prog = (
        "import sys, json\n"
        "import tupimage\n"
        "call = json.loads(sys.argv[1])\n"
        "t = tupimage.TupimageTerminal(out_display=call['out_display'], config_overrides=call['overrides'])\n"
        "ulf = call['use_line_feeds']\n"
        "if ulf == 'auto' and not t.term.out_display.isatty():\n"
        "    ulf = 'yes'\n"
        "rc = 0\n"
        "for image in call['images']:\n"
        "    try:\n"
        "        t.upload_and_display(image, rows=call['rows'], cols=call['cols'], use_line_feeds=(ulf == 'yes'))\n"
        "    except FileNotFoundError:\n"
        "        rc = 1\n"
        "sys.stdout.flush()\n"
        "sys.exit(rc)\n"
    )

    def child():
        import json
        os.makedirs(os.path.join(d, "tmp"), exist_ok=True)
        p = subprocess.run([common.PY, "-c", prog, json.dumps(call)], env=env, cwd=d, stdout=subprocess.PIPE, stderr=subprocess.PIPE, timeout=120)
        return {"rc": p.returncode, "stdout": p.stdout.hex(), "stderr": p.stderr.decode(errors="replace")[-400:]}
    return common.in_pty(child, timeout=300)


def cases(rng, n):
    out = []
    base = [
        {"cols": None, "rows": None}, {"cols": 3, "rows": None}, {"cols": None, "rows": 2}, {"cols": 4, "rows": 3},
        {"cols": None, "rows": None, "max_cols": "2"}, {"cols": None, "rows": None, "max_rows": "1"}, {"cols": None, "rows": None, "scale": 0.5},
        {"cols": None, "rows": None, "scale": 3.0, "max_cols": "5", "max_rows": "2"}, {"cols": 2, "rows": None, "force": True},
        {"cols": None, "rows": 5, "max_cols": "3"}, {"cols": 7, "rows": None, "max_rows": "2"}, {"cols": None, "rows": None, "max_cols": "auto", "max_rows": "auto"},
    ]
    for b in base:
        out.append(dict(b))
    while len(out) < n:
        c = {"cols": rng.choice([None, None, 1, 2, 5]), "rows": rng.choice([None, None, 1, 3, 4])}
        if rng.random() < 0.4:
            c["max_cols"] = rng.choice(["1", "3", "6", "auto"])
        if rng.random() < 0.4:
            c["max_rows"] = rng.choice(["1", "2", "4", "auto"])
        if rng.random() < 0.4:
            c["scale"] = rng.choice([0.25, 0.5, 2.0, 1.5])
        if rng.random() < 0.3:
            c["force"] = True
        if rng.random() < 0.3:
            c["two"] = True
        if rng.random() < 0.25:
            c["ulf"] = rng.choice(["yes", "no"])
        out.append(c)
    return out


def cli_equivalence(ctx, cov, n):
    from PIL import Image
    rng = _random.Random(ctx.rng.randrange(2**40))
    work = os.path.join(ctx.work, "cli-eq")
    os.makedirs(work, exist_ok=True)
    for idx, c in enumerate(cases(rng, n)):
        runs = {}
        for who in ("cli", "api"):
            d = os.path.join(work, f"{idx}-{who}")
            os.makedirs(d, exist_ok=True)
            rnd = _random.Random(1000 + idx)
            for name, size in (("a.png", (23, 11)), ("b.png", (9, 30))):
                im = Image.new("RGB", size)
                im.putdata([(rnd.randrange(256), rnd.randrange(256), rnd.randrange(256)) for _ in range(size[0] * size[1])])
                im.save(os.path.join(d, name))
                os.utime(os.path.join(d, name), ns=(1_700_000_000_000_000_000, 1_700_000_000_000_000_000))
            images = ["a.png"] + (["b.png"] if c.get("two") else [])
            env = _sandbox_env(d)
            if who == "cli":
                argv = ["display", "--out-display", "disp.out"]
                for k, flag in (("cols", "--cols"), ("rows", "--rows"), ("max_cols", "--max-cols"), ("max_rows", "--max-rows"), ("scale", "--scale")):
                    if c.get(k) is not None:
                        argv += [flag, str(c[k])]
                if c.get("force"):
                    argv.append("--force-upload")
                if c.get("ulf"):
                    argv += ["--use-line-feeds", c["ulf"]]
                r = _run_cli(d, argv + images, env)
            else:
                call = {"out_display": "disp.out", "overrides": {"force_upload": bool(c.get("force")), "max_cols": c.get("max_cols"), "max_rows": c.get("max_rows"),
                                                                  "scale": c.get("scale"), "provenance": "set via command line"},
                        "images": images, "rows": c.get("rows"), "cols": c.get("cols"), "use_line_feeds": c.get("ulf", "auto")}
                r = _run_api(d, call, env)
            if "ok" not in r:
                ctx.corr_breaks.append({"what": f"CLI equivalence: the {who} run failed in the pty sandbox", "case": c, "error": {k: v for k, v in r.items() if k != "tty"}})
                runs = None
                break
            try:
                with open(os.path.join(d, "disp.out"), "rb") as f:
                    disp = f.read()
            except OSError:
                disp = b""
            # the sandbox directory name differs between the two runs: it appears in nothing that is transmitted (method direct)
            runs[who] = {"rc": r["ok"]["rc"], "tty": bytes(r["tty"]), "disp": disp, "stderr": r["ok"]["stderr"]}
        if not runs:
            continue
        case = {"kind": "cli-equivalence", **{k: v for k, v in c.items()}}
        cov.add(case, klass="cli-equivalence/" + ("explicit" if (c.get("cols") or c.get("rows")) else "auto"))
        a, b = runs["cli"], runs["api"]
        if b["rc"] != 0 or not b["tty"] or not b["disp"]:
            ctx.corr_breaks.append({"what": "CLI equivalence: the library call itself failed or wrote nothing", "case": case, "rc": b["rc"], "stderr": b["stderr"]})
            continue
        diffs = [k for k in ("rc", "tty", "disp") if a[k] != b[k]]
        if diffs:
            ctx.violations.append({"signature": {"class": "cli-differs-from-library-call", "what": diffs},
                                   "what": f"`tupimage display` with {c} puts something else on the terminal than upload_and_display with the same parameters: {', '.join(diffs)} differ "
                                           f"(commands {len(a['tty'])} vs {len(b['tty'])} bytes, placeholder {len(a['disp'])} vs {len(b['disp'])} bytes, exit {a['rc']} vs {b['rc']}; stderr: {a['stderr'][-150:]!r})",
                                   "case": case})
