"""C03 — concurrent processes sharing one session database allocate IDs atomically.

Model: Model/SqlTxn.v (connections, BEGIN IMMEDIATE / autocommit / snapshot segments, the write lock); theorems in
Props/C03.v (every schedule is a one-at-a-time execution of the completed calls, hence C01/C02 apply at every
linearisation point).  Tie: harness/gen_txnshape.py (transaction shape of every IDManager method, constructor
statements) -> Gen/TxnShapeGen.v; the shapes the theorems need are proof obligations.

Correspondence, three layers:
 (a) SCHEDULED THREADS on real sqlite, one database file, one IDManager + connection per thread; the harness stops
     every thread before every SQL statement and every commit and decides who goes next: every single-preemption
     schedule (thread A runs k statements, then the others run until they finish or block, for every k and both
     roles) plus random schedules, over scenario families aimed at each clause of the property.  A released thread
     that does not come back is blocked inside sqlite (must be exactly when the model says the step is not
     enabled; it must complete once the holder commits).  Results of every call, the final tables, the
     blocked/enabled pattern are compared with the extracted model run on the same event sequence.
 (b) ORACLE on the implementation's observations alone: no locking/constraint error, and the extracted
     Spec/SerialSpec.serial_ok searches all merges of the per-thread histories for a one-at-a-time order giving the
     same results and the same final database (the sequential semantics is exec_call, tied by C01/C02/C04); plus two
     direct clause checks (same description -> one id; different descriptions while free ids exist -> different ids).
 (c) REAL OS PROCESSES under contention (fork, barrier, simultaneous first open of a fresh file, mixed requests):
     no error, ids unique and in their own table, one id per description in subspaces only used through get_id."""
import multiprocessing as mp
import os
import random as _random
import shutil
import time

import common
import txn_common as tc
from c04 import Tokens

GEN_DEPS = ("gen_txnshape", "gen_idmanager", "gen_idspace")
EXTRA_PROPS = ()
ASSUMPTIONS = [
    "sqlite: a BEGIN IMMEDIATE transaction and a single autocommit statement are atomic and isolated; other writers wait (busy handler) instead of failing; WAL readers never block and see the last committed state; a deferred BEGIN takes its snapshot at its first SELECT (all exercised by the scheduled runs, none proved)",
    "clock values, sampled ids and secrets.choice results are inputs of a call (a one-at-a-time order may read the same values)",
    "the scheduled runs use threads with one connection each; real OS processes are exercised by layer (c) without schedule control",
]
TRUSTED = [
    "harness/txn_common.py: mapping of the statement stream to model events (BEGIN IMMEDIATE / first statement / COMMIT; snapshot = its first SELECT), blocked-thread detection by time-out (40 ms, only where the lock rule predicts a block; 20 s otherwise)",
    "Spec/SerialSpec.v is generic; instantiated with Model/SqlTxn.exec_call (sequential semantics of the API)",
]


# ------------------------------------------------------------------------------ scenarios
class Clk:
    def __init__(self, rng):
        self.t = 1000
        self.rng = rng

    def next(self):
        self.t += self.rng.choice([1, 2, 7, 1000, 10**6])
        return self.t


def spaces(idm):
    S = idm.IDSpace
    return {"8": S(8, False), "8d": S(0, True), "16": S(8, True), "24": S(24, False), "32": S(24, True)}


def member_ids(idm, sp, sub, n, rng):
    ids = list(sp.all_ids(sub)) if sp.subspace_size(sub) <= 1024 else []
    if not ids:
        seen = set()
        while len(seen) < n:
            seen.add(sp.gen_random_id(sub))
        ids = sorted(seen)
    rng.shuffle(ids)
    return ids[:n]


def scenario(idm, rng, kind):
    """-> dict(kind, init=[ops run one after the other before the threads start], procs=[[op]], max_ids)"""
    sps = spaces(idm)
    Sub = idm.IDSubspace
    clk = Clk(rng)
    sc = {"kind": kind, "init": [], "procs": [], "max_ids": 1024}
    b = rng.randrange(1, 250)
    small = rng.choice([Sub(b, b + 2), Sub(b, b + 3), Sub(b, b + 1), Sub(0, 3), Sub(254, 256)])
    sp_small = rng.choice([sps["8"], sps["8d"], sps["16"]]) if kind != "countall" else sps["8"]
    if sp_small is sps["16"]:
        small = Sub(small.begin, small.begin + 1) if (rng.random() < 0.5 and small.begin > 0) else small   # 16bit: 255 ids per subspace byte
    size = sp_small.subspace_size(small)

    def fill(sp, sub, n, prefix="old"):
        for i, id_ in enumerate(member_ids(idm, sp, sub, n, rng)):
            sc["init"].append({"k": "set", "id": id_, "desc": f"{prefix}{i}", "t": clk.next()})

    def get(desc, sp, sub, collide=0.0):
        return {"k": "get", "desc": desc, "sp": sp, "sub": sub, "now": clk.next(), "mx": sc["max_ids"], "collide": collide}

    nthreads = rng.choice([2, 2, 2, 3])
    if kind == "same-desc-small":
        fill(sp_small, small, rng.choice([0, 0, max(0, size - 1), size]) if size <= 600 else rng.choice([0, 3]))
        for _ in range(nthreads):
            sc["procs"].append([get("X", sp_small, small)] + ([get("X", sp_small, small)] if rng.random() < 0.3 else []))
    elif kind == "same-desc-large":
        big_sp, big_sub = rng.choice([(sps["32"], Sub(0, 256)), (sps["24"], Sub(3, 9)), (sps["8"], Sub(0, 256)), (sps["16"], Sub(7, 9))])
        if big_sp.subspace_size(big_sub) <= 1024:
            sc["max_ids"] = rng.choice([4, 16])
        fill(big_sp, big_sub, rng.choice([0, 5, 30]))
        for _ in range(nthreads):
            sc["procs"].append([get("X", big_sp, big_sub, collide=rng.choice([0.0, 0.0, 0.7]))])
    elif kind == "large-cleanup":
        # the clean-up ladder INSIDE get_id: a subspace too large to enumerate, more rows than max_ids, the first 8
        # samples forced to collide -> cleanup() runs inside the caller's transaction, then a scripted sample Z; the
        # other connection asks for another (or the same) description and is made to draw the same Z
        big_sp, big_sub = sps["8"], Sub(0, 256)
        sc["max_ids"] = 4
        fill(big_sp, big_sub, rng.choice([6, 9]))
        used = {o["id"] for o in sc["init"]}
        z = next(i for i in member_ids(idm, big_sp, big_sub, 40, rng) if i not in used)
        g0 = get("X", big_sp, big_sub)
        g0["collide_first"], g0["then"] = 8, [z]
        g1 = get(rng.choice(["Y", "Y", "X"]), big_sp, big_sub)
        g1["then"] = [z]
        sc["procs"] = [[g0], [g1]]
    elif kind == "diff-desc":
        free = rng.choice([0, 1, 2])
        fill(sp_small, small, max(0, min(size, 600) - free) if size <= 600 else 0)
        for i in range(nthreads):
            sc["procs"].append([get(f"N{i}", sp_small, small)] + ([get(f"N{i}b", sp_small, small)] if rng.random() < 0.3 else []))
    elif kind == "get-vs-admin":
        n0 = rng.choice([1, 2, size]) if size <= 600 else 3
        fill(sp_small, small, min(n0, size))
        present = [o["id"] for o in sc["init"]]
        sc["procs"].append([get(rng.choice(["X", "old0"]), sp_small, small)])
        for _ in range(nthreads - 1):
            k = rng.random()
            if k < 0.35 and present:
                ops = [{"k": "del", "id": rng.choice(present)}]
            elif k < 0.6:
                ops = [{"k": "cleanup", "sp": sp_small, "sub": small, "mx": rng.choice([0, 1, 2])}]
            elif k < 0.85:
                ops = [{"k": "set", "id": rng.choice(present + member_ids(idm, sp_small, small, 1, rng)), "desc": rng.choice(["X", "Z"]), "t": clk.next()}]
            else:
                ops = [{"k": "info", "id": rng.choice(present) if present else 1}, {"k": "count", "sp": sp_small, "sub": small}]
            if rng.random() < 0.3:
                ops.append(get("X", sp_small, small))
            sc["procs"].append(ops)
    elif kind == "upload":
        ids = member_ids(idm, sps["8"], Sub(0, 256), 3, rng)
        for i, id_ in enumerate(ids):
            sc["init"].append({"k": "set", "id": id_, "desc": f"img{i}", "t": clk.next()})
        terms = ["T1", "T2"]
        for id_ in ids[: rng.choice([0, 1, 2, 3])]:
            sc["init"].append({"k": "mark", "id": id_, "term": rng.choice(terms), "size": rng.choice([1, 10, 100]), "time": clk.next(), "desc": None})

        def upop():
            k = rng.random()
            id_ = rng.choice(ids + [ids[0]])
            term = rng.choice(terms + ["T1"])
            if k < 0.3:
                return {"k": "mark", "id": id_, "term": term, "size": rng.choice([1, 10, 100]), "time": clk.next(), "desc": rng.choice([None, None, "img0", "other"])}
            if k < 0.45:
                return {"k": "needs", "id": id_, "term": term, "now": clk.next(), "nmax": rng.choice([1, 2, 1024]), "bmax": rng.choice([5, 50, 10**9]), "tmax": rng.choice([10**3, 3600 * 10**6])}
            if k < 0.6:
                return {"k": "upinfo", "id": id_, "term": term}
            if k < 0.7:
                return {"k": "set", "id": id_, "desc": rng.choice(["img0", "re-bound"]), "t": clk.next()}
            if k < 0.78:
                return {"k": "del", "id": id_}
            if k < 0.86:
                return {"k": "unmark", "id": id_, "term": term}
            if k < 0.93:
                return {"k": "cleanuploads", "n": rng.choice([0, 1, 2])}
            return {"k": "mark", "id": rng.choice([0, 2**32]), "term": term, "size": 1, "time": clk.next(), "desc": None}

        for _ in range(nthreads):
            sc["procs"].append([upop() for _ in range(rng.choice([1, 2, 2, 3]))])
    elif kind == "mark-race":
        # a process records an upload while another re-binds / deletes the id and records its own upload
        ids = member_ids(idm, sps["8"], Sub(0, 256), 2, rng)
        sc["init"].append({"k": "set", "id": ids[0], "desc": "A", "t": clk.next()})
        if rng.random() < 0.5:
            sc["init"].append({"k": "mark", "id": ids[0], "term": "T1", "size": 3, "time": clk.next(), "desc": None})
        d0 = rng.choice([None, None, "A"])
        sc["procs"].append([{"k": "mark", "id": ids[0], "term": "T1", "size": 10, "time": clk.next(), "desc": d0}])
        second = rng.choice(["set-mark", "del-upinfo", "set-needs", "del-set-mark"])
        if second == "set-mark":
            sc["procs"].append([{"k": "set", "id": ids[0], "desc": "B", "t": clk.next()}, {"k": "mark", "id": ids[0], "term": "T1", "size": 10, "time": clk.next(), "desc": None}])
        elif second == "del-upinfo":
            sc["procs"].append([{"k": "del", "id": ids[0]}, {"k": "upinfo", "id": ids[0], "term": "T1"}])
        elif second == "set-needs":
            sc["procs"].append([{"k": "set", "id": ids[0], "desc": "B", "t": clk.next()},
                                {"k": "needs", "id": ids[0], "term": "T1", "now": clk.next(), "nmax": 1024, "bmax": 10**9, "tmax": 3600 * 10**6}])
        else:
            sc["procs"].append([{"k": "del", "id": ids[0]}, {"k": "set", "id": ids[0], "desc": "B", "t": clk.next()},
                                {"k": "mark", "id": ids[0], "term": "T1", "size": 1, "time": clk.next(), "desc": None}])
    elif kind == "reads-race":
        # a process asks about an upload while another records uploads to the same terminal
        ids = member_ids(idm, sps["8"], Sub(0, 256), 2, rng)
        sc["init"].append({"k": "set", "id": ids[0], "desc": "A", "t": clk.next()})
        sc["init"].append({"k": "set", "id": ids[1], "desc": "B", "t": clk.next()})
        sc["init"].append({"k": "mark", "id": ids[0], "term": "T1", "size": 4, "time": clk.next(), "desc": None})
        reader = rng.choice(["upinfo", "needs-count", "needs-bytes", "needs-desc"])
        if reader == "upinfo":
            sc["procs"].append([{"k": "upinfo", "id": ids[0], "term": "T1"}])
        elif reader == "needs-count":
            sc["procs"].append([{"k": "needs", "id": ids[0], "term": "T1", "now": clk.next(), "nmax": 2, "bmax": 10**9, "tmax": 3600 * 10**6}])
        elif reader == "needs-bytes":
            sc["procs"].append([{"k": "needs", "id": ids[0], "term": "T1", "now": clk.next(), "nmax": 1024, "bmax": 10, "tmax": 3600 * 10**6}])
        else:
            sc["procs"].append([{"k": "needs", "id": ids[0], "term": "T1", "now": clk.next(), "nmax": 1024, "bmax": 10**9, "tmax": 3600 * 10**6}])
        if reader == "needs-desc":
            sc["procs"].append([{"k": "set", "id": ids[0], "desc": "C", "t": clk.next()}, {"k": "mark", "id": ids[0], "term": "T1", "size": 4, "time": clk.next(), "desc": None}])
        else:
            sc["procs"].append([{"k": "mark", "id": ids[0], "term": "T1", "size": 4, "time": clk.next(), "desc": None},
                                {"k": "mark", "id": ids[1], "term": "T1", "size": 4, "time": clk.next(), "desc": None}])
    elif kind == "countall":
        a = member_ids(idm, sps["8"], Sub(0, 256), 2, rng)
        c = member_ids(idm, sps["24"], Sub(0, 256), 2, rng)
        sc["init"].append({"k": "set", "id": a[0], "desc": "p", "t": clk.next()})
        sc["procs"].append([{"k": "countall", "sub": Sub(0, 256)}])
        sc["procs"].append([{"k": "del", "id": a[0]}, {"k": "set", "id": c[0], "desc": "q", "t": clk.next()}] if rng.random() < 0.6 else
                           [{"k": "set", "id": c[0], "desc": "q", "t": clk.next()}, {"k": "del", "id": a[0]}, {"k": "countall", "sub": Sub(0, 256)}])
    elif kind == "mix":
        fill(sp_small, small, rng.choice([0, 1, min(size, 3)]))
        present = [o["id"] for o in sc["init"]]
        pool = present + member_ids(idm, sp_small, small, 2, rng)
        for id_ in present[:2]:
            if rng.random() < 0.5:
                sc["init"].append({"k": "mark", "id": id_, "term": "T1", "size": 5, "time": clk.next(), "desc": None})

        def anyop():
            k = rng.random()
            if k < 0.35:
                return get(rng.choice(["X", "Y", "old0"]), sp_small, small)
            if k < 0.45:
                return {"k": "set", "id": rng.choice(pool), "desc": rng.choice(["X", "Z"]), "t": clk.next()}
            if k < 0.55:
                return {"k": "del", "id": rng.choice(pool)}
            if k < 0.62:
                return {"k": "cleanup", "sp": sp_small, "sub": small, "mx": rng.choice([0, 1, 2])}
            if k < 0.75:
                return {"k": "mark", "id": rng.choice(pool), "term": "T1", "size": rng.choice([1, 9]), "time": clk.next(), "desc": rng.choice([None, "X"])}
            if k < 0.85:
                return {"k": "needs", "id": rng.choice(pool), "term": "T1", "now": clk.next(), "nmax": 2, "bmax": 50, "tmax": 3600 * 10**6}
            if k < 0.92:
                return {"k": "upinfo", "id": rng.choice(pool), "term": "T1"}
            if k < 0.96:
                return {"k": "count", "sp": sp_small, "sub": small}
            return {"k": "info", "id": rng.choice(pool)}

        for _ in range(nthreads):
            sc["procs"].append([anyop() for _ in range(rng.choice([1, 2, 3]))])
    elif kind == "set-race":
        # two processes bind the SAME still-unassigned id (force-set against force-set, or against a request whose subspace
        # has this id as its only free one): both calls succeed, the later one wins
        if rng.random() < 0.5 or size > 600:
            x = member_ids(idm, sps["8"], Sub(0, 256), 1, rng)[0]
            sc["procs"] = [[{"k": "set", "id": x, "desc": "A", "t": clk.next()}], [{"k": "set", "id": x, "desc": "B", "t": clk.next()}]]
            if nthreads == 3:
                sc["procs"].append([{"k": "set", "id": x, "desc": "C", "t": clk.next()}, {"k": "info", "id": x}])
        else:
            ids = list(sp_small.all_ids(small))
            rng.shuffle(ids)
            x = ids[0]
            for i, id_ in enumerate(ids[1:]):
                sc["init"].append({"k": "set", "id": id_, "desc": f"old{i}", "t": clk.next()})
            sc["procs"] = [[{"k": "set", "id": x, "desc": "A", "t": clk.next()}], [get("N", sp_small, small)]]
    elif kind == "open":
        sc["procs"] = [[{"k": "set", "id": 10 + i, "desc": f"o{i}", "t": clk.next()}, {"k": "info", "id": 10}] for i in range(nthreads)]
        sc["schedule_open"] = True
    else:
        raise AssertionError(kind)
    return sc


KINDS = ["same-desc-small", "same-desc-large", "large-cleanup", "diff-desc", "get-vs-admin", "upload", "mark-race", "set-race", "reads-race", "countall", "mix", "open"]


def all_strings(sc):
    out = []
    for o in sc["init"] + [o for p in sc["procs"] for o in p]:
        for key in ("desc", "term"):
            if o.get(key) is not None:
                out.append(o[key])
    return out


def describe(sc):
    return {"kind": sc["kind"], "max_ids": sc["max_ids"], "schedule_open": bool(sc.get("schedule_open")),
            "init": [tc.describe_op(o) for o in sc["init"]], "procs": [[tc.describe_op(o) for o in p] for p in sc["procs"]]}


def revive(idm, d):
    return {"kind": d["kind"], "max_ids": d["max_ids"], "schedule_open": d.get("schedule_open", False),
            "init": [tc.revive_op(idm, o) for o in d["init"]], "procs": [[tc.revive_op(idm, o) for o in p] for p in d["procs"]]}


def make_policy(spec):
    if spec["p"] == "preempt":
        return tc.PreemptPolicy(spec["first"], spec["k"], _random.Random(spec["seed"]))
    return tc.RandomPolicy(_random.Random(spec["seed"]), spec.get("p_block", 0.5))


# ------------------------------------------------------------------------------ one schedule
def run_schedule(ctx, idm, sc, pol_spec, idx):
    toks = Tokens()
    for s in ["X", "Y", "Z"] + all_strings(sc):
        toks.tok(s)
    path = os.path.join(ctx.work, f"c03-{idx}.db")
    for ext in ("", "-wal", "-shm"):
        if os.path.exists(path + ext):
            os.remove(path + ext)
    obs = {"policy": pol_spec}
    if not sc.get("schedule_open"):
        mgr = idm.IDManager(path, max_ids_per_subspace=sc["max_ids"])
        for o in sc["init"]:
            r = tc.run_op(idm, mgr, o, toks)
            assert r == "OK", (o, r)
        mgr.close()
    obs["init"] = tc.dump_store(path, idm, toks) if os.path.exists(path) else "-|-"
    policy = make_policy(pol_spec)
    sch = tc.Scheduler(idm, path, sc["procs"], toks, ctx.seed * 7919 + idx, policy, max_ids=sc["max_ids"], schedule_open=bool(sc.get("schedule_open")))
    sch.run()
    obs["final"] = tc.dump_store(path, idm, toks)
    obs["results"] = sch.results
    obs["events"] = sch.events
    obs["open_events"] = sch.open_events
    obs["log"] = sch.log
    obs["errors"] = sch.errors
    obs["calls"] = sch.calls()
    obs["preempt_used"] = getattr(policy, "count", None)
    obs["points"] = [sum(1 for t in a.trace if t["kind"] not in ("diagnostic",)) for a in sch.agents]
    obs["schema"] = tc.schema_objects(path)
    for ext in ("", "-wal", "-shm"):
        try:
            os.remove(path + ext)
        except OSError:
            pass
    return obs


def model_requests(obs):
    procs = "+".join("~".join(c for c, _ in cs) if cs else "-" for cs in obs["calls"])
    evs = ",".join(str(t) for t, _ in obs["events"]) or "-"
    hist = "+".join("~".join(f"{c}={r}" for c, r in cs if r is not None) or "-" for cs in obs["calls"])
    oev = ",".join(str(t) for t in obs["open_events"]) or "-"
    return [f"txn.run src {obs['init']} {procs} {evs}", f"txn.serial {obs['init']} {hist} {obs['final']}",
            f"txn.open - {len(obs['calls'])} {oev}"]


def judge(ctx, sc, obs, run_reply, serial_reply, open_reply, cov):
    """returns the list of classes found (for the coverage histogram)"""
    case = {"scenario": describe(sc), "policy": obs["policy"]}
    brief = {"results": obs["results"], "final": obs["final"], "init": obs["init"], "schedule": obs["log"][:80]}
    found = []
    # ---- (b) oracles on the observations alone
    for t, rs in enumerate(obs["results"]):
        for i, r in enumerate(rs):
            if r.startswith("EXC:"):
                cls = "locking-or-constraint-error" if ("OperationalError" in r or "IntegrityError" in r) else "unexpected-exception"
                ctx.violations.append({"signature": {"class": cls, "op": sc["procs"][t][i]["k"], "scenario": sc["kind"]},
                                       "what": f"thread {t} call {i} ({sc['procs'][t][i]['k']}) raised {r[4:]} under a schedule of {len(sc['procs'])} connections", "case": case, "observed": brief})
                found.append(cls)
    for e in obs["errors"]:
        ctx.violations.append({"signature": {"class": "stuck-or-crashed", "scenario": sc["kind"]}, "what": e[:300], "case": case, "observed": brief})
        found.append("stuck")
    complete = all(len(rs) == len(p) for rs, p in zip(obs["results"], sc["procs"]))
    if serial_reply != "1" and complete and not found:
        ctx.violations.append({"signature": {"class": "not-serializable", "scenario": sc["kind"], "ops": sorted({o["k"] for p in sc["procs"] for o in p})},
                               "what": "results and final database are not those of any one-at-a-time ordering of the same calls (Spec/SerialSpec.serial_ok = false)",
                               "case": case, "observed": brief})
        found.append("not-serializable")
    if sc["kind"] in ("same-desc-small", "same-desc-large") and complete:
        ids = {r for rs in obs["results"] for r in rs}
        if len(ids) != 1 or not next(iter(ids)).startswith("ID:"):
            ctx.violations.append({"signature": {"class": "same-description-several-ids", "scenario": sc["kind"]},
                                   "what": f"concurrent requests for one description returned {sorted(ids)}", "case": case, "observed": brief})
            found.append("same-description-several-ids")
    if sc["kind"] == "large-cleanup" and complete:
        d0, d1 = sc["procs"][0][0]["desc"], sc["procs"][1][0]["desc"]
        r0, r1 = obs["results"][0][0], obs["results"][1][0]
        if d0 != d1 and r0 == r1 and r0.startswith("ID:"):
            ctx.violations.append({"signature": {"class": "one-id-for-two-descriptions", "scenario": sc["kind"]},
                                   "what": f"different descriptions got the same id {r0} while free ids existed (clean-up inside get_id)", "case": case, "observed": brief})
            found.append("one-id-for-two-descriptions")
        if d0 == d1 and r0 != r1:
            ctx.violations.append({"signature": {"class": "same-description-several-ids", "scenario": sc["kind"]},
                                   "what": f"concurrent requests for one description returned {sorted([r0, r1])}", "case": case, "observed": brief})
            found.append("same-description-several-ids")
    if sc["kind"] == "diff-desc" and complete:
        n_new = sum(len(p) for p in sc["procs"])
        sp, sub = sc["procs"][0][0]["sp"], sc["procs"][0][0]["sub"]
        size = sp.subspace_size(sub)
        if len(sc["init"]) + n_new <= size:
            ids = [r for rs in obs["results"] for r in rs]
            if len(set(ids)) != len(ids):
                ctx.violations.append({"signature": {"class": "one-id-for-two-descriptions", "scenario": sc["kind"]},
                                       "what": f"different descriptions got the same id while free ids existed: {ids}", "case": case, "observed": brief})
                found.append("one-id-for-two-descriptions")
    if sc.get("schedule_open"):
        if len(obs["schema"]) != 17:
            ctx.violations.append({"signature": {"class": "schema-incomplete", "scenario": "open"}, "what": f"after concurrent first opens the schema has {len(obs['schema'])} objects", "case": case, "observed": brief})
            found.append("schema-incomplete")
        want = "1 " + ",".join(str(i) for i in range(17))
        if open_reply != want:
            ctx.corr_breaks.append({"what": "model of concurrent constructors differs from the implementation (17 objects, complete)", "model": open_reply, "case": case})
            found.append("model-differs")
    # ---- (a) correspondence with the model run on the same event sequence
    if run_reply.startswith("ERR"):
        ctx.corr_breaks.append({"what": "model run failed", "reply": run_reply[:300], "case": case})
        return found
    m_store, m_res, m_en, m_lin = [x.strip() for x in run_reply.split(" # ")]
    i_res = " + ".join(";".join(rs) if rs else "-" for rs in obs["results"])
    i_en = "".join("1" if e else "0" for _, e in obs["events"])
    if (m_store, m_res, m_en) != (obs["final"], i_res, i_en):
        ctx.corr_breaks.append({"what": "model and implementation differ on a schedule: " + ", ".join(
            n for n, a, b2 in (("final database", m_store, obs["final"]), ("results", m_res, i_res), ("blocked/enabled pattern", m_en, i_en)) if a != b2),
            "case": case, "impl": {"final": obs["final"], "results": i_res, "enabled": i_en, "schedule": obs["log"][:80]},
            "model": {"final": m_store, "results": m_res, "enabled": m_en, "linearisation": m_lin}})
        found.append("model-differs")
    return found


# ------------------------------------------------------------------------------ (c) real processes
def _stress_worker(path, barrier, k, seed, n_ops, q, repo):
    import sys
    try:
        if sys.path[0] != repo:
            sys.path.insert(0, repo)
        import tupimage.id_manager as idm
        rng = _random.Random(seed)
        barrier.wait(30)
        m = idm.IDManager(path, max_ids_per_subspace=rng.choice([16, 1024]))
        S, Sub = idm.IDSpace, idm.IDSubspace
        pairs = [(S(8, False), Sub(3, 5)), (S(0, True), Sub(7, 10)), (S(24, True), Sub(0, 256)), (S(8, True), Sub(9, 10))]
        gets = []
        for i in range(n_ops):
            r = rng.random()
            sp, sub = rng.choice(pairs)
            if r < 0.55:
                d = f"d{rng.randrange(6)}"
                gets.append((sp.color_bits, sp.use_3rd_diacritic, sub.begin, sub.end, d, m.get_id(d, sp, subspace=sub)))
            elif r < 0.62 and gets:
                m.del_id(rng.choice(gets)[5])
            elif r < 0.68:
                m.cleanup(sp, sub, rng.choice([1, 2, 1024]))
            elif r < 0.8 and gets:
                m.mark_uploaded(rng.choice(gets)[5], f"T{k % 2}", size=rng.randrange(100))
            elif r < 0.9 and gets:
                m.needs_uploading(rng.choice(gets)[5], f"T{k % 2}")
                m.get_upload_infos(rng.choice(gets)[5])
            elif r < 0.95:
                m.cleanup_uploads(rng.choice([3, 1024]))
            else:
                m.count(None, Sub(0, 256))
                m.get_all(None, Sub(0, 256))
        m.close()
        q.put((k, "ok", gets))
    except BaseException as e:  # noqa: BLE001
        import traceback
        q.put((k, "err", f"{type(e).__name__}: {e} | {traceback.format_exc()[-300:]}"))


def _first_open_worker(path, barrier, k, q, repo):
    import sys
    try:
        if sys.path[0] != repo:
            sys.path.insert(0, repo)
        import tupimage.id_manager as idm
        barrier.wait(60)
        m = idm.IDManager(path)
        id_ = m.get_id(f"first-{k}", idm.IDSpace(8, False), subspace=idm.IDSubspace(0, 256))
        m.close()
        q.put((k, "ok", id_))
    except BaseException as e:  # noqa: BLE001
        import traceback
        q.put((k, "err", f"{type(e).__name__}: {e} | {traceback.format_exc()[-300:]}"))


def first_open_race(ctx, idm, cov, rounds, n_proc):
    """Real processes released together by a barrier construct IDManager on a database file that does not exist
    yet, then allocate one id each.  SQLite answers SQLITE_BUSY to `PRAGMA journal_mode=WAL` at once (the busy handler
    is not consulted) while another connection holds a lock: an unrepeated switch fails in roughly one constructor
    out of ten under this load (measured on the pinned tree: 35 of 320)."""
    mpctx = mp.get_context("fork")
    t0 = time.time()
    fails = 0
    for rd in range(rounds):
        d = os.path.join(ctx.work, f"open-{rd}")
        os.makedirs(d, exist_ok=True)
        path = os.path.join(d, "session.db")
        barrier = mpctx.Barrier(n_proc)
        q = mpctx.Queue()
        ps = [mpctx.Process(target=_first_open_worker, args=(path, barrier, k, q, common.REPO)) for k in range(n_proc)]
        for p in ps:
            p.start()
        res = []
        try:
            for _ in ps:
                res.append(q.get(timeout=240))
        except Exception:  # noqa: BLE001
            ctx.violations.append({"signature": {"class": "stress-timeout", "scenario": "first-open"}, "what": f"{n_proc} simultaneous first opens did not finish within 240 s",
                                   "case": {"kind": "first-open", "n_proc": n_proc}})
        for p in ps:
            p.join(5)
            if p.is_alive():
                p.kill()
        case = {"kind": "first-open", "n_proc": n_proc, "rounds": 20}
        for k, st, payload in res:
            if st != "ok":
                fails += 1
                cls = "locking-or-constraint-error" if ("OperationalError" in str(payload) or "IntegrityError" in str(payload)) else "unexpected-exception"
                ctx.violations.append({"signature": {"class": cls, "scenario": "first-open"},
                                       "what": f"process {k} of {n_proc} processes opening a fresh database together failed: {str(payload)[:200]}", "case": case})
        ids = [payload for _, st, payload in res if st == "ok"]
        if len(set(ids)) != len(ids):
            ctx.violations.append({"signature": {"class": "same-id-two-descriptions", "scenario": "first-open"}, "what": f"ids handed out after a simultaneous first open: {sorted(ids)}", "case": case})
        import sqlite3
        conn = sqlite3.connect(path)
        n_obj = len(conn.execute("SELECT name FROM sqlite_master WHERE name NOT LIKE 'sqlite_%'").fetchall())
        mode = conn.execute("PRAGMA journal_mode").fetchone()[0]
        conn.close()
        if n_obj != 17:
            ctx.violations.append({"signature": {"class": "schema-incomplete", "scenario": "first-open"}, "what": f"{n_obj} schema objects after a simultaneous first open", "case": case})
        if res and all(st == "ok" for _, st, _ in res) and str(mode).lower() != "wal":
            ctx.violations.append({"signature": {"class": "not-wal", "scenario": "first-open"}, "what": f"journal mode is {mode!r} after every constructor completed", "case": case})
        cov.add({"first-open": rd, "seed": ctx.seed}, klass=f"first-open/{n_proc}proc")
        shutil.rmtree(d, ignore_errors=True)
        if fails:
            break
    cov.bump("first-open-constructors", rounds * n_proc if not fails else (rd + 1) * n_proc)
    cov.bump("first-open-wall-ms", int(1000 * (time.time() - t0)))


def _hl_first_open_worker(path, barrier, k, q, img):
    try:
        import tupimage
        barrier.wait(60)
        t = tupimage.TupimageTerminal(out_command=common.RecStream(), out_display=common.RecStream(), in_response=open("/dev/tty", "rb", buffering=0), id_database=path,
                                      config="DEFAULT", id_space="8bit", redetect_terminal=False, terminal_id=f"P{k}", session_id="S", num_tmux_layers=0)
        inst = t.assign_id(img, cols=1, rows=1)
        t.id_manager.close()
        q.put((k, "ok", inst.id))
    except BaseException as e:  # noqa: BLE001
        q.put((k, "err", f"{type(e).__name__}: {e}"))


def highlevel_first_open_race(ctx, cov, rounds, n_proc):
    """The same race through the constructor a user calls: n processes build a TupimageTerminal on a session database that
    does not exist yet and request an id each.  Afterwards every id that was handed out is bound in THE database (one
    file: no process may have worked on a file another one removed or replaced)."""
    work = ctx.work

    def body():
        common.scrub_process_env()
        os.environ["HOME"] = work
        os.environ["XDG_STATE_HOME"] = os.path.join(work, "state")
        os.environ["XDG_CONFIG_HOME"] = os.path.join(work, "config")
        import sqlite3
        common.import_impl()
        from PIL import Image
        imgs = []
        for k in range(n_proc):
            p = os.path.join(work, f"c03-hl-{k}.png")
            Image.new("RGB", (2 + k, 2), (k * 20, 1, 1)).save(p)
            imgs.append(p)
        mpctx = mp.get_context("fork")
        out = []
        for rd in range(rounds):
            d = os.path.join(work, f"hl-open-{rd}")
            os.makedirs(d, exist_ok=True)
            path = os.path.join(d, "session.db")
            barrier = mpctx.Barrier(n_proc)
            q = mpctx.Queue()
            ps = [mpctx.Process(target=_hl_first_open_worker, args=(path, barrier, k, q, imgs[k])) for k in range(n_proc)]
            for p in ps:
                p.start()
            res = []
            try:
                for _ in ps:
                    res.append(list(q.get(timeout=120)))
            except Exception:  # noqa: BLE001
                res.append([-1, "err", "timeout"])
            for p in ps:
                p.join(5)
                if p.is_alive():
                    p.kill()
            conn = sqlite3.connect(path)
            try:
                bound = sorted(r[0] for r in conn.execute("SELECT id FROM ids_8bit").fetchall())
            except sqlite3.Error as e:
                bound = "ERR " + str(e)
            conn.close()
            out.append({"round": rd, "results": res, "bound": bound})
            shutil.rmtree(d, ignore_errors=True)
            if any(r[1] != "ok" for r in res) or bound != sorted(r[2] for r in res):
                break
        return out

    r = common.in_pty(body, timeout=900)
    if "ok" not in r:
        ctx.corr_breaks.append({"what": "high-level first-open race failed in the pty sandbox", "error": {k: v for k, v in r.items() if k != "tty"}})
        return
    for rec in r["ok"]:
        cov.add({"highlevel-first-open": rec["round"], "seed": ctx.seed}, klass=f"first-open/highlevel/{n_proc}proc")
        case = {"kind": "first-open-highlevel", "n_proc": n_proc, "rounds": rounds}
        errs = [x for x in rec["results"] if x[1] != "ok"]
        if errs:
            ctx.violations.append({"signature": {"class": "locking-or-constraint-error", "scenario": "first-open/highlevel"},
                                   "what": f"{n_proc} processes building a TupimageTerminal on a fresh session database together: {errs[0][2][:200]}", "case": case})
        elif rec["bound"] != sorted(x[2] for x in rec["results"]):
            ctx.violations.append({"signature": {"class": "lost-assignment", "scenario": "first-open/highlevel"},
                                   "what": f"{n_proc} processes building a TupimageTerminal on a fresh session database together were handed the ids {sorted(x[2] for x in rec['results'])}, "
                                           f"the database afterwards binds {rec['bound']}: no one-at-a-time order of the requests gives that", "case": case})


def stress(ctx, idm, cov, rounds, n_proc, n_ops):
    mpctx = mp.get_context("fork")
    for rd in range(rounds):
        d = os.path.join(ctx.work, f"stress-{rd}")
        os.makedirs(d, exist_ok=True)
        path = os.path.join(d, "session.db")
        barrier = mpctx.Barrier(n_proc)
        q = mpctx.Queue()
        seeds = [ctx.rng.randrange(2**40) for _ in range(n_proc)]
        ps = [mpctx.Process(target=_stress_worker, args=(path, barrier, k, seeds[k], n_ops, q, common.REPO)) for k in range(n_proc)]
        t0 = time.time()
        for p in ps:
            p.start()
        res = []
        try:
            for _ in ps:
                res.append(q.get(timeout=240))
        except Exception:  # noqa: BLE001
            ctx.violations.append({"signature": {"class": "stress-timeout"}, "what": f"{n_proc} processes x {n_ops} requests did not finish within 240 s",
                                   "case": {"kind": "stress", "seeds": seeds, "n_ops": n_ops}})
        for p in ps:
            p.join(5)
            if p.is_alive():
                p.kill()
        case = {"kind": "stress", "seeds": seeds, "n_ops": n_ops, "n_proc": n_proc}
        for k, st, payload in res:
            if st != "ok":
                cls = "locking-or-constraint-error" if ("OperationalError" in payload or "IntegrityError" in payload) else "unexpected-exception"
                ctx.violations.append({"signature": {"class": cls, "scenario": "stress"}, "what": f"process {k} of {n_proc} parallel processes failed: {payload[:200]}", "case": case})
        # final database: every id in its own table, with description and time; one id per description where only get_id wrote
        import sqlite3
        conn = sqlite3.connect(path)
        for sp in idm.IDSpace.all_values():
            rows = conn.execute(f"SELECT id, description, atime FROM {sp.namespace_name()}").fetchall()
            seen = {}
            for id_, desc, at in rows:
                if idm.IDSpace.from_id(id_) != sp or desc is None or at is None:
                    ctx.violations.append({"signature": {"class": "row-in-wrong-table-or-incomplete", "scenario": "stress"}, "what": f"row {id_, desc, at} in table of {sp}", "case": case})
                for (scb, s3, b, e) in {(g[0], g[1], g[2], g[3]) for _, st, gl in res if st == "ok" for g in gl}:
                    if (scb, s3) == (sp.color_bits, sp.use_3rd_diacritic) and tc.in_filter(idm, sp, idm.IDSubspace(b, e), id_):
                        key = (b, e, desc)
                        if key in seen and seen[key] != id_:
                            ctx.violations.append({"signature": {"class": "same-description-several-ids", "scenario": "stress"},
                                                   "what": f"description {desc!r} holds ids {seen[key]} and {id_} in subspace {b}:{e} of {sp}", "case": case})
                        seen[key] = id_
        n_obj = len(conn.execute("SELECT name FROM sqlite_master WHERE name NOT LIKE 'sqlite_%'").fetchall())
        if n_obj != 17:
            ctx.violations.append({"signature": {"class": "schema-incomplete", "scenario": "stress"}, "what": f"{n_obj} schema objects after a simultaneous first open", "case": case})
        conn.close()
        cov.add({"stress": rd, "seeds": seeds}, klass=f"stress/{n_proc}proc-x{n_ops}")
        cov.bump("stress-requests", sum(n_ops for _ in res))
        cov.bump("stress-wall-ms", int(1000 * (time.time() - t0)))
        shutil.rmtree(d, ignore_errors=True)


# ------------------------------------------------------------------------------ run
def plan(ctx, idm):
    rng = ctx.rng
    out = []
    n_sc = ctx.pick(4, 60)
    for kind in KINDS:
        for _ in range(n_sc if kind != "open" else max(2, n_sc // 3)):
            sc = scenario(idm, _random.Random(rng.randrange(2**60)), kind)
            specs = []
            if kind != "open":
                for first in range(min(2, len(sc["procs"]))):
                    for k in range(0, ctx.pick(9, 14) if kind != "large-cleanup" else 20):   # (a get_id with 8 collisions and a clean-up has ~14 points)
                        specs.append({"p": "preempt", "first": first, "k": k, "seed": rng.randrange(2**30)})
            for _ in range(ctx.pick(2, 8)):
                specs.append({"p": "random", "seed": rng.randrange(2**30), "p_block": rng.choice([0.2, 0.6, 1.0])})
            out.append((sc, specs))
    return out


def run(ctx, model):
    cov = common.Coverage("case = one executed schedule (scenario: initial database + calls per connection; policy: preemption point or random seed) or one stress round of real processes; non-trivial = all of them; each judged by the error / serial_ok / clause oracles and compared with the model on the same event sequence")
    if model is None:
        return cov
    tup = common.import_impl()
    idm = tup.id_manager
    undo = tc.install(idm)
    pending = []
    idx = 0
    try:
        for sc, specs in plan(ctx, idm):
            exhausted = set()
            for spec in specs:
                if spec["p"] == "preempt" and spec["first"] in exhausted:
                    continue
                obs = run_schedule(ctx, idm, sc, spec, idx)
                idx += 1
                if spec["p"] == "preempt" and obs["preempt_used"] is not None and obs["preempt_used"] < spec["k"]:
                    exhausted.add(spec["first"])      # thread `first` has fewer than k points: larger k repeat this schedule
                pending.append((sc, obs))
    finally:
        undo()
    reqs = []
    for sc, obs in pending:
        reqs += model_requests(obs)
    replies = model.batch(reqs)
    for i, (sc, obs) in enumerate(pending):
        found = judge(ctx, sc, obs, replies[3 * i], replies[3 * i + 1], replies[3 * i + 2], cov)
        blocked = any(not e for _, e in obs["events"])
        cov.add({"scenario": describe(sc), "policy": obs["policy"], "events": obs["events"]},
                klass=f"{sc['kind']}/{obs['policy']['p']}/{'with-blocked-writer' if blocked else 'no-block'}")
        for f in found:
            cov.bump("found:" + f)
    cov.bump("model-events", sum(len(o["events"]) for _, o in pending))
    stress(ctx, idm, cov, rounds=ctx.pick(3, 12), n_proc=ctx.pick(4, 8), n_ops=ctx.pick(40, 200))
    first_open_race(ctx, idm, cov, rounds=ctx.pick(40, 400), n_proc=8)
    highlevel_first_open_race(ctx, cov, rounds=ctx.pick(25, 250), n_proc=8)
    return cov


def replay(ctx, model, rec):
    case = rec["case"]
    tup = common.import_impl()
    idm = tup.id_manager
    if case.get("kind") == "first-open":
        before = len(ctx.violations)
        first_open_race(ctx, idm, common.Coverage("replay"), case.get("rounds", 20), case.get("n_proc", 8))
        return {"violates": len(ctx.violations) > before, "note": "a race between real processes: not schedule-deterministic; 20 rounds of 8 simultaneous first opens"}
    if case.get("kind") == "first-open-highlevel":
        before = len(ctx.violations)
        highlevel_first_open_race(ctx, common.Coverage("replay"), case.get("rounds", 25), case.get("n_proc", 8))
        return {"violates": len(ctx.violations) > before, "note": "a race between real processes: not schedule-deterministic"}
    if case.get("kind") == "stress":
        class C:  # minimal ctx for a single round with the recorded seeds
            pass
        before = len(ctx.violations)
        ctx2 = ctx
        ctx2.rng = _random.Random(0)
        stress(ctx2, idm, common.Coverage("replay"), 1, case.get("n_proc", 4), case["n_ops"])
        return {"violates": len(ctx.violations) > before, "note": "stress rounds are not schedule-deterministic"}
    sc = revive(idm, case["scenario"])
    undo = tc.install(idm)
    try:
        obs = run_schedule(ctx, idm, sc, case["policy"], 999999)
    finally:
        undo()
    r1, r2, r3 = model.batch(model_requests(obs))
    before = len(ctx.violations)
    judge(ctx, sc, obs, r1, r2, r3, common.Coverage("replay"))
    new = ctx.violations[before:]
    want = rec.get("signature", {}).get("class")
    hit = [v for v in new if want is None or v["signature"].get("class") == want]
    del ctx.violations[before:]
    return {"violates": bool(hit), "found": [v["what"][:200] for v in new], "results": obs["results"], "final": obs["final"], "schedule": obs["log"][:60]}
