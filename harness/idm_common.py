"""Shared harness for C01/C02 (and the sequential part of C03/C12): random histories against the real IDManager on
sqlite with patched clock, patched `secrets`, a wrapper around IDSpace.gen_random_id that records the samples and
forces collisions; after every operation all five id tables are dumped, the environment's choice (which row was
hit, which free id was picked, the order among equal atimes) is inferred from the observation, and the model
(Model/IdManager.v, extracted) is asked for the result of the same operation with that choice from the observed
pre-state.  Independent oracles: byte-layout membership (extracted Spec/IdLayoutSpec) for C01; the clauses of C02
evaluated on consecutive dumps."""
import datetime as _dt
import os
import random as _random

import common
from c04 import BASE, Clock, Tokens, from_us, install_clock, to_us


def sp_name(sp):
    return f"{sp.color_bits}.{1 if sp.use_3rd_diacritic else 0}"


def dump(conn, idm, toks):
    st = {}
    for sp in idm.IDSpace.all_values():
        rows = conn.execute(f"SELECT id, description, atime FROM {sp.namespace_name()}").fetchall()
        st[sp_name(sp)] = sorted((r[0], toks.tok(r[1]), to_us(_dt.datetime.fromisoformat(r[2]))) for r in rows)
    return st


def show(st):
    parts = [f"{k}:" + ";".join(f"{a},{b},{c}" for a, b, c in rows) for k, rows in sorted(st.items()) if rows]
    return "/".join(parts) if parts else "-"


def in_filter(idm, sp, sub, id_):
    """what the SQL range filter selects — computed from the byte layout, not from the code"""
    if sp.use_3rd_diacritic:
        byte = (id_ >> 24) & 255
    elif sp.color_bits == 24:
        byte = (id_ >> 16) & 255
    else:
        byte = id_ & 255
    return sub.begin <= byte < sub.end


class FakeSecrets:
    def __init__(self, rng):
        self.rng = rng

    def randbelow(self, n):
        return self.rng.randrange(n)

    def choice(self, seq):
        return seq[self.rng.randrange(len(seq))]


class History:
    """One database, a list of executed operations with observations."""

    def __init__(self, ctx, tup, idx, cov, file_db=False):
        self.ctx, self.tup, self.cov = ctx, tup, cov
        self.idm = tup.id_manager
        self.rng = _random.Random(ctx.rng.randrange(2**62))
        self.toks = Tokens()
        self.clock = Clock()
        self.steps = []  # dicts: op, pre, post, result, model request
        self.samples = []
        self.force_collision = 0.0
        path = os.path.join(ctx.work, f"idm-{idx}.db") if file_db else ":memory:"
        self.max_ids = self.rng.choice([1, 2, 3, 10, 1024, 1024])
        self.tie_rate = self.rng.choice([0.0, 0.2, 0.2, 0.6])   # how often the clock does NOT advance between operations
        self._saved = (self.idm.datetime, self.idm.secrets, self.idm.IDSpace.gen_random_id)
        install_clock(self.idm, self.clock)
        self.idm.secrets = FakeSecrets(self.rng)
        orig = self._saved[2]
        hist = self

        def gen_random_id(self_sp, subspace=self.idm.IDSubspace()):
            val = None
            if hist.rng.random() < hist.force_collision:
                rows = hist.mgr.conn.execute(f"SELECT id FROM {self_sp.namespace_name()}").fetchall()
                rows = [r[0] for r in rows if in_filter(hist.idm, self_sp, subspace, r[0])]
                if rows:
                    val = hist.rng.choice(rows)
            if val is None:
                val = orig(self_sp, subspace)
            hist.samples.append(val)
            return val

        self.idm.IDSpace.gen_random_id = gen_random_id
        self.mgr = self.idm.IDManager(path, max_ids_per_subspace=self.max_ids)
        self.state = dump(self.mgr.conn, self.idm, self.toks)

    def close(self):
        self.idm.datetime, self.idm.secrets, self.idm.IDSpace.gen_random_id = self._saved
        self.mgr.close()

    def tick(self):
        # monotone clock with forced ties 20 % of the time
        if self.rng.random() >= self.tie_rate:
            self.clock.now_us += self.rng.choice([1, 1, 3, 1000, 10**6])

    # ---- operations; each records a step with the model request
    def op_get(self, desc, sp, sub, collide=0.0):
        self.tick()
        pre = self.state
        self.samples = []
        self.force_collision = collide
        now = self.clock.now_us
        try:
            res = self.mgr.get_id(desc, sp, subspace=sub)
            out = ("ID", res)
        except RuntimeError:
            out = ("FAILED", None)
        except Exception as e:  # noqa: BLE001 — anything else is not an outcome of get_id: judged by the oracle, the history goes on
            out = ("CRASHED:" + type(e).__name__, None)
            try:
                self.mgr.conn.rollback()
            except Exception:  # noqa: BLE001
                pass
        self.force_collision = 0.0
        post = dump(self.mgr.conn, self.idm, self.toks)
        # infer the choice
        name = sp_name(sp)
        pre_rows = {r[0]: r for r in pre.get(name, [])}
        post_rows = {r[0]: r for r in post.get(name, [])}
        deleted = [i for i in pre_rows if i not in post_rows]
        ties = {}
        for i in deleted:
            ties[i] = 0
        hit = free = 0
        if out[0] == "ID":
            hit = free = out[1]
            if out[1] in pre_rows and pre_rows[out[1]][1] != self.toks.tok(desc):
                ties[out[1]] = 0  # recycled victim sorts first among equal atimes
        tiestr = ",".join(f"{k}={v}" for k, v in sorted(ties.items())) or "-"
        samples = ",".join(str(s) for s in self.samples) or "-"
        req = f"idm.get {show(pre)} {self.toks.tok(desc)} {name} {sub.begin} {sub.end} {now} {self.max_ids} {samples} {hit} {free} {tiestr}"
        exp = f"ID {out[1]} {show(post)}" if out[0] == "ID" else f"{out[0]} {show(post)}"
        self.steps.append({"op": "get_id", "desc": desc, "space": name, "sub": (sub.begin, sub.end), "now": now, "pre": pre, "post": post,
                           "result": out, "samples": list(self.samples), "req": req, "expect": exp, "max_ids": self.max_ids})
        self.state = post
        return out

    def op_set(self, id_, desc):
        self.tick()
        pre = self.state
        now = self.clock.now_us
        try:
            self.mgr.set_id(id_, desc, atime=from_us(now))
            ok = True
        except ValueError:
            ok = False
        post = dump(self.mgr.conn, self.idm, self.toks)
        self.steps.append({"op": "set_id", "id": id_, "desc": desc, "now": now, "pre": pre, "post": post, "result": ok,
                           "req": f"idm.set {show(pre)} {id_} {self.toks.tok(desc)} {now}" if id_ >= 0 else None,
                           "expect": ("OK " + show(post)) if ok else "ERR"})
        self.state = post

    def op_del(self, id_):
        pre = self.state
        try:
            self.mgr.del_id(id_)
            ok = True
        except ValueError:
            ok = False
        post = dump(self.mgr.conn, self.idm, self.toks)
        self.steps.append({"op": "del_id", "id": id_, "pre": pre, "post": post, "result": ok,
                           "req": f"idm.del {show(pre)} {id_}" if id_ >= 0 else None, "expect": ("OK " + show(post)) if ok else "ERR"})
        self.state = post

    def op_cleanup(self, sp, sub, max_ids):
        pre = self.state
        self.mgr.cleanup(sp, sub, max_ids)
        post = dump(self.mgr.conn, self.idm, self.toks)
        name = sp_name(sp)
        post_ids = {r[0] for r in post.get(name, [])}
        ties = {r[0]: 0 for r in pre.get(name, []) if r[0] not in post_ids}
        tiestr = ",".join(f"{k}={v}" for k, v in sorted(ties.items())) or "-"
        eff = self.max_ids if max_ids is None else max_ids
        self.steps.append({"op": "cleanup", "space": name, "sub": (sub.begin, sub.end), "max": eff, "pre": pre, "post": post,
                           "req": f"idm.clean {show(pre)} {name} {sub.begin} {sub.end} {eff} {tiestr}", "expect": "OK " + show(post)})
        self.state = post

    def op_query(self, sp, sub):
        st = self.state
        lst = self.mgr.get_all(sp, sub)
        cnt = self.mgr.count(sp, sub)
        name = sp_name(sp)
        order = [i.id for i in lst]
        # ties: most recent first; the model sorts ascending by (atime, tie) and reverses => later in the list = smaller rank
        ties = {i: (len(order) - k) for k, i in enumerate(order)}
        tiestr = ",".join(f"{k}={v}" for k, v in sorted(ties.items())) or "-"
        infos = {}
        for (i, d, t) in st.get(name, [])[:5]:
            inf = self.mgr.get_info(i)
            infos[i] = None if inf is None else (self.toks.tok(inf.description), to_us(inf.atime))
        self.steps.append({"op": "query", "space": name, "sub": (sub.begin, sub.end), "pre": st, "post": st, "order": order, "count": cnt, "infos": infos,
                           "listing": [(i.id, self.toks.tok(i.description), to_us(i.atime)) for i in lst],
                           "req": f"idm.query {show(st)} {name} {sub.begin} {sub.end} {tiestr}",
                           "expect": f"{cnt} ; " + ",".join(str(i) for i in order)})


def subspace_pool(idm, rng):
    S = idm.IDSubspace
    b = rng.randrange(1, 254)
    return [S(b, b + 1), S(b, b + 2), S(b, min(256, b + 3)), S(0, 2), S(0, 3), S(255, 256), S(0, 256), S(b, min(256, b + 40)), S(max(0, b - 1), b + 1),
            S(b, min(256, b + 5)), S(b, min(256, b + 8)), S(0, 6), S(1, 256), S(1, 2), S(0, 255), S(1, 255)]


def random_history(ctx, tup, idx, cov, large=False):
    h = History(ctx, tup, idx, cov, file_db=(idx % 7 == 0))
    rng = h.rng
    idm = h.idm
    spaces = list(idm.IDSpace.all_values())
    try:
        if large:
            sp = rng.choice([s for s in spaces if s.color_bits != 0 or True])
            subs = [s for s in subspace_pool(idm, rng) if sp.subspace_size(s) > min(1024, h.max_ids)]
            if not subs:
                subs = [idm.IDSubspace(0, 256)] if sp.subspace_size(idm.IDSubspace(0, 256)) > min(1024, h.max_ids) else []
            if not subs:
                h.max_ids = 1
                h.mgr.max_ids_per_subspace = 1
                subs = [s for s in subspace_pool(idm, rng) if sp.subspace_size(s) > 1] or [idm.IDSubspace(0, 256)]
            sub = rng.choice(subs)
            pairs = [(sp, sub)]
        else:
            pairs = []
            one_space = rng.choice(spaces) if rng.random() < 0.7 else None   # several subspaces of ONE space: shared table
            pool = subspace_pool(idm, rng)
            if rng.random() < 0.15:
                # boundary pairs in ONE table: "every non-zero byte value" (1:256) next to a subspace that owns byte value 0
                # — in the space whose subspace byte may be zero (24bit) these are different sets of ids
                sp = rng.choice(spaces)
                S = idm.IDSubspace
                pairs = [(sp, S(1, 256)), (sp, rng.choice([S(0, 2), S(0, 256), S(0, 3)]))]
                if rng.random() < 0.5:
                    pairs.append((sp, S(0, 255)))
            else:
                for _ in range(rng.choice([1, 2, 3])):
                    sp = one_space or rng.choice(spaces)
                    pairs.append((sp, rng.choice(pool)))
        sizes = [p[0].subspace_size(p[1]) for p in pairs]
        if not large and rng.random() < 0.4 and sizes[0] <= 1024:
            # boundary: the configured per-subspace maximum equals the subspace size exactly
            h.max_ids = sizes[0]
            h.mgr.max_ids_per_subspace = sizes[0]
        npool = max(2, min(12, int(1.5 * min(min(sizes), 8)) + 1))
        descrs = [f"d{i}" for i in range(npool)]
        if not large and sizes[0] <= 12 and rng.random() < 0.25:
            # fill - free - request: every id of a small subspace has been assigned at some time, then some are freed
            # (deleted, cleaned up), then new descriptions arrive: they must get the freed ids, nothing is displaced
            sp, sub = pairs[0]
            for i in range(sizes[0]):
                h.op_get(f"fill{i}", sp, sub)
            for _ in range(rng.randrange(1, 4)):
                present = [r[0] for r in h.state.get(sp_name(sp), [])]
                if rng.random() < 0.3:
                    h.op_cleanup(sp, sub, rng.choice([0, 1, max(0, sizes[0] - 2)]))
                elif present:
                    h.op_del(rng.choice(present))
                h.op_get(f"new{rng.randrange(100)}", sp, sub)
                if rng.random() < 0.5:
                    h.op_query(sp, sub)
        n_ops = rng.randrange(10, ctx.pick(45, 120))
        for _ in range(n_ops):
            sp, sub = rng.choice(pairs)
            k = rng.random()
            name = sp_name(sp)
            present = [r[0] for r in h.state.get(name, [])]
            if k < 0.5:
                collide = rng.choice([0.0, 0.5, 0.9, 1.0]) if large else 0.0
                h.op_get(rng.choice(descrs), sp, sub, collide=collide)
            elif k < 0.62:
                # force-set: existing id, fresh id of the subspace, id of another space, invalid id
                cands = present[:3] + [sp.gen_random_id(sub)] + [rng.choice([1, 255, 256, 0x01000000, 0x00FFFFFF, 0xFFFFFFFF])]
                if rng.random() < 0.08:
                    cands = [0, 2**32, -1]
                h.samples = []
                h.op_set(rng.choice(cands), rng.choice(descrs))
            elif k < 0.72:
                if present and rng.random() < 0.8:
                    h.op_del(rng.choice(present))
                else:
                    h.op_del(rng.choice([1, 77, 0x00010000, 0, 2**32]))
            elif k < 0.82:
                h.op_cleanup(sp, sub, rng.choice([None, 0, 1, 2, 3, 5]))
            else:
                h.op_query(sp, sub)
        return h
    finally:
        h.close()
