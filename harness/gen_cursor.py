"""Extractor plug-in for C16 (cursor tracking): graphics_terminal.py / placeholder.py -> coq/Gen/CursorGen.v.

* every method the model Model/CursorTrack.v transcribes is compared, statement for statement, with the
  shape recorded in gen_cursor_shapes.txt (byte-string literals and `comment=` texts masked out);
* the byte-string literals themselves (escape sequences) are emitted as Coq constants, by position;
* for each of the C16 repairs (fixes/C16a..e) the extractor recognises the statement both before and
  after the repair and emits a boolean `cg_fix_*`; the model follows the flags (so the correspondence
  holds on either tree), the theorems are proved for "all repaired" and consume the flags through
  `src_fixes_all` — on a tree where a repair is missing that lemma, hence Props/C16.v, no longer checks;
* the diacritic table and the placeholder character (UTF-8 bytes).
"""
import ast
import copy
import os

from gen_tables import extractor, parse, find_class, find_func, find_assign, const_str, expect, coq_bytes, coq_list, coq_bool, HEADER

SHAPES = os.path.join(os.path.dirname(os.path.abspath(__file__)), "gen_cursor_shapes.txt")


class _Mask(ast.NodeTransformer):
    def __init__(self):
        self.lits = []

    def visit_Constant(self, n):
        if isinstance(n.value, bytes):
            self.lits.append(n.value)
            return ast.copy_location(ast.Constant(value=b"?"), n)
        return n

    def visit_keyword(self, n):
        if n.arg == "comment":
            return ast.keyword(arg="comment", value=ast.Constant(value="?"))
        self.generic_visit(n)
        return n


def masked(fn):
    fn = copy.deepcopy(fn)
    if fn.body and isinstance(fn.body[0], ast.Expr) and isinstance(fn.body[0].value, ast.Constant) and isinstance(fn.body[0].value.value, str):
        fn.body = fn.body[1:]
    m = _Mask()
    fn = m.visit(fn)
    ast.fix_missing_locations(fn)
    return ast.unparse(fn), m.lits


def load_shapes():
    shapes, name, buf = {}, None, []
    with open(SHAPES) as f:
        for line in f:
            if line.startswith("#### "):
                if name:
                    shapes[name] = "".join(buf).rstrip("\n")
                name, buf = line[5:].strip(), []
            else:
                buf.append(line)
    if name:
        shapes[name] = "".join(buf).rstrip("\n")
    return shapes


# (function, fix, text after the repair, text before the repair); all in ast.unparse style
RULES = [
    ("move_cursor_abs", "abs_zero",
     "col if col is not None else self.tracked_cursor_position[0], row if row is not None else self.tracked_cursor_position[1]",
     "col or self.tracked_cursor_position[0], row or self.tracked_cursor_position[1]"),
    ("set_tracked_cursor_position", "clamp_low",
     "(max(0, min(x, columns - 1)), max(0, min(y, lines - 1)))",
     "(min(x, columns - 1), min(y, lines - 1))"),
    ("print_placeholder", "ph_forgets",
     "use_line_feeds=use_line_feeds)\n    self.tracked_cursor_position = None\n    if self.shellscript_out is not None:",
     "use_line_feeds=use_line_feeds)\n    if self.shellscript_out is not None:"),
    ("print_placeholder_for_put", "margins",
     "    if self.margins_maybe_set and (not put_command.do_not_move_cursor):\n        self.tracked_cursor_position = None\n    self.out_display.flush()",
     "    self.out_display.flush()"),
    ("reset", "margins",
     "self._write(b'?', comment='?')\n        self.margins_maybe_set = False\n        cols, lines = self.get_size()",
     "self._write(b'?', comment='?')\n        cols, lines = self.get_size()"),
    ("reset", "margins",
     "self.tracked_cursor_position = (0, 0)\n    self.margins_maybe_set = False",
     "self.tracked_cursor_position = (0, 0)"),
    ("move_cursor", "margins",
     "    if down and self.margins_maybe_set:\n        self.tracked_cursor_position = None\n    if self.tracked_cursor_position is not None:",
     "    if self.tracked_cursor_position is not None:"),
    ("set_margins", "margins",
     "self.tracked_cursor_position = None\n    self.margins_maybe_set = True",
     "self.tracked_cursor_position = None"),
    ("print_placeholder_for_put", "pending_wrap",
     "cur_x, cur_y = self.get_cursor_position()\n    self._write(b'?' % (cur_x + 1), comment='?')\n    self.tracked_cursor_position = None",
     "cur_x, cur_y = self.get_cursor_position()\n    self.tracked_cursor_position = None"),
]
FIXES = ["abs_zero", "clamp_low", "ph_forgets", "margins", "pending_wrap"]

GT_FUNCS = ["_write", "write", "writecmd", "print_placeholder", "print_placeholder_for_put", "get_cursor_position",
            "get_cursor_position_tracked", "reset", "clear_line", "clear_screen", "set_tracked_cursor_position",
            "move_cursor", "move_cursor_abs", "set_margins", "scroll_down", "scroll_up"]
PH_FUNCS = ["to_stream_abs_position", "to_stream_at_cursor", "to_stream"]

# names of the byte literals, by function, in order of appearance
LIT_NAMES = {
    "print_placeholder_for_put": {2: ["put_scroll", "put_nel"], 3: ["put_scroll", "put_cha", "put_nel"]},
    "get_cursor_position": {6: ["cpr_query", None, "cpr_final", "cpr_intro", None, "cpr_sep"]},
    "reset": {3: ["reset_sgr", "reset_margins", "reset_ris"]},
    "clear_line": {1: ["clear_line"]},
    "clear_screen": {1: ["clear_screen"]},
    "move_cursor": {4: ["cud", "cuu", "cuf", "cub"]},
    "move_cursor_abs": {2: ["vpa", "cha"]},
    "set_margins": {1: ["decstbm"]},
    "scroll_down": {1: ["sd"]},
    "scroll_up": {1: ["su"]},
    "to_stream_abs_position": {1: ["ph_cup"]},
    "to_stream_at_cursor": {5: ["ph_save", "ph_lf", "ph_restore", "ph_back", "ph_ind"]},
}


@extractor
def gen_cursor(repo, out):
    gt = parse(repo, "tupimage/graphics_terminal.py")
    ph = parse(repo, "tupimage/placeholder.py")
    G = find_class(gt, "GraphicsTerminal")
    P = find_class(ph, "ImagePlaceholder")
    shapes = load_shapes()
    votes = {f: set() for f in FIXES}
    lits = {}
    for cls, names in ((G, GT_FUNCS), (P, PH_FUNCS)):
        for name in names:
            txt, ls = masked(find_func(cls, name))
            for fname, fix, new, old in RULES:
                if fname != name:
                    continue
                if new in txt:
                    votes[fix].add(True)
                elif old in txt:
                    expect(txt.count(old) == 1, f"{name}: statement of repair {fix} is ambiguous")
                    votes[fix].add(False)
                    txt = txt.replace(old, new, 1)
                else:
                    raise_shape(name, f"neither the original nor the repaired form of '{fix}' found")
            expect(name in shapes, f"no recorded shape for {name}")
            if txt != shapes[name]:
                a, b = txt.split("\n"), shapes[name].split("\n")
                diff = next((f"line {i}: now `{x.strip()[:120]}` was `{y.strip()[:120]}`" for i, (x, y) in enumerate(zip(a, b)) if x != y), f"length {len(a)} vs {len(b)}")
                raise_shape(name, diff)
            if name in LIT_NAMES:
                expect(len(ls) in LIT_NAMES[name], f"{name}: {len(ls)} byte literals, expected {sorted(LIT_NAMES[name])}")
                for nm, v in zip(LIT_NAMES[name][len(ls)], ls):
                    if nm is None:
                        expect(v == b"", f"{name}: buffer initialiser is not empty")
                    else:
                        lits[nm] = v
            else:
                expect(not ls, f"{name}: unexpected byte literals {ls}")
    # the flag of the margins repair also needs the attribute initialised in __init__
    init = find_func(G, "__init__")
    has_init = any(isinstance(n, ast.AnnAssign) and ast.unparse(n.target) == "self.margins_maybe_set" and ast.unparse(n.value) == "False" for n in ast.walk(init))
    votes["margins"].add(has_init)
    dump = ast.unparse(init)
    expect("self.tracked_cursor_position: Optional[Tuple[int, int]] = None" in dump, "__init__: tracked_cursor_position no longer starts as None")
    flags = {}
    for f in FIXES:
        expect(len(votes[f]) == 1, f"repair '{f}' is only partly present")
        flags[f] = votes[f].pop()
    if "put_cha" not in lits:
        lits["put_cha"] = b""
    expect(flags["pending_wrap"] == (lits["put_cha"] != b""), "pending-wrap repair and its literal disagree")

    # diacritics and the placeholder character
    pc = const_str(find_assign(ph, "PLACEHOLDER_CHAR"), "PLACEHOLDER_CHAR")
    tab = find_assign(ph, "ROWCOLUMN_DIACRITICS")
    expect(isinstance(tab, ast.List), "ROWCOLUMN_DIACRITICS is not a list literal")
    dia = [const_str(e, "diacritic") for e in tab.elts]
    expect(all(len(d) == 1 for d in dia) and len(pc) == 1, "diacritic / placeholder entries must be single characters")
    u8 = find_assign(ph, "ROWCOLUMN_DIACRITICS_UTF8")
    expect(ast.unparse(u8) == "[c.encode('utf-8') for c in ROWCOLUMN_DIACRITICS]", "ROWCOLUMN_DIACRITICS_UTF8: shape changed")
    mode_cls = find_class(ph, "ImagePlaceholderMode")
    expect(ast.unparse(find_assign(mode_cls, "placeholder_char")) == "PLACEHOLDER_CHAR", "ImagePlaceholderMode.placeholder_char default changed")

    t = HEADER
    for f in FIXES:
        t += f"Definition cg_fix_{f} : bool := {coq_bool(flags[f])}.\n"
    for nm in sorted(lits):
        t += f"Definition cg_{nm} : list N := {coq_bytes(lits[nm])}.\n"
    t += f"Definition cg_placeholder_char : list N := {coq_bytes(pc)}.\n"
    t += "Definition cg_diacritics : list (list N) :=\n  [" + ";\n   ".join(coq_bytes(d) for d in dia) + "].\n"
    out.add("CursorGen.v", t)


def raise_shape(name, msg):
    expect(False, f"{name}: shape changed ({msg})")
