"""Extractor plug-in: the TRANSACTION SHAPE of every IDManager method -> coq/Gen/TxnShapeGen.v   (C03, C12)

For each public method the extractor walks the body and determines how its SQL statements are grouped:
  imm    every statement site lies inside `with self.conn:` whose first executed statement is BEGIN IMMEDIATE
  snap   every statement site lies inside `with self._snapshot()` (and _snapshot is the expected deferred BEGIN/commit)
  auto   exactly one statement site, executed in autocommit mode (a single sqlite statement is atomic)
  seq    several autocommit statement sites (NOT atomic)
Statement sites of helper methods called through self.<m>() are inlined (depth-first).  The model's [compile] picks its
segments from these shapes; the C03/C12 theorems need get_id, del_id, mark_uploaded = imm and the multi-statement reads =
snap as proof obligations (src_* lemmas), so a regression of the shape breaks a proof AND lets the schedule
exploration look for the interleaving.  Anything the extractor does not recognise raises ExtractError (fail closed).
Also read: the constructor's PRAGMAs and its CREATE ... IF NOT EXISTS statements (count, NOT NULL columns, keys), and
that the module contains no DROP / ALTER / VACUUM / journal-mode change elsewhere."""
import ast
import re

from gen_tables import HEADER, ExtractError, body_nodoc, expect, extractor, find_class, find_func, parse

READ = re.compile(r"^\s*SELECT\b", re.I)
WRITE = re.compile(r"^\s*(INSERT|UPDATE|DELETE)\b", re.I)


def _sql_of(call):
    """the SQL text (f-string holes as {}) of an execute(...) call"""
    expect(call.args, "execute() without arguments")
    a = call.args[0]
    if isinstance(a, ast.Constant) and isinstance(a.value, str):
        return " ".join(a.value.split())
    if isinstance(a, ast.JoinedStr):
        return " ".join("".join(v.value if isinstance(v, ast.Constant) else "{}" for v in a.values).split())
    raise ExtractError(f"execute() with a non-literal statement: {ast.unparse(a)[:80]}")


def _is_execute(n):
    return isinstance(n, ast.Call) and isinstance(n.func, ast.Attribute) and n.func.attr == "execute"


def _self_call(n):
    if isinstance(n, ast.Call) and isinstance(n.func, ast.Attribute) and isinstance(n.func.value, ast.Name) and n.func.value.id == "self":
        return n.func.attr
    return None


class Shape:
    def __init__(self, cls):
        self.cls = cls
        self.methods = {f.name: f for f in cls.body if isinstance(f, ast.FunctionDef)}

    def sites(self, name, ctx, stack=()):
        """list of (context, sql) in source order; context = tuple of enclosing 'conn' / 'snap' markers"""
        expect(name in self.methods, f"IDManager.{name} not found")
        expect(name not in stack or name in ("count", "get_all"), f"unexpected recursion through {name}")
        out = []
        fn = self.methods[name]

        def walk(node, ctx):
            if isinstance(node, ast.With):
                c = ctx
                for item in node.items:
                    src = ast.unparse(item.context_expr)
                    if src == "self.conn":
                        c = c + ("conn",)
                    elif src == "self._snapshot()":
                        c = c + ("snap",)
                    elif src.startswith("closing(self.conn.cursor())"):
                        pass
                    else:
                        raise ExtractError(f"{name}: unexpected context manager {src}")
                for s in node.body:
                    walk(s, c)
                return
            if isinstance(node, (ast.FunctionDef, ast.Lambda)) and node is not fn:
                return
            if _is_execute(node):
                out.append((ctx, _sql_of(node)))
            m = _self_call(node)
            if m is not None and m in self.methods and m not in ("_snapshot",):
                if m in ("count", "get_all"):
                    # one SELECT when called for one space (the recursive call of the all-spaces variant, or a call
                    # from another method that names the space)
                    if m != name:
                        expect(node.args and not (isinstance(node.args[0], ast.Constant) and node.args[0].value is None), f"{name}: calls {m}() without a space")
                    out.append((ctx, "SELECT <per-space %s>" % m))
                else:
                    out.extend(self.sites(m, ctx, stack + (name,)))
            for ch in ast.iter_child_nodes(node):
                walk(ch, ctx)

        for s in body_nodoc(fn):
            walk(s, ctx)
        return out

    def shape(self, name, only=None):
        st = self.sites(name, ())
        if only is not None:
            st = only(st)
        expect(st, f"{name}: no SQL statement found")
        if all("conn" in c for c, _ in st):
            firsts = [q for c, q in st]
            expect(firsts[0] == "BEGIN IMMEDIATE", f"{name}: transaction does not start with BEGIN IMMEDIATE (first statement: {firsts[0][:40]})")
            expect(sum(1 for q in firsts if q.startswith("BEGIN")) == 1, f"{name}: more than one BEGIN")
            return "imm"
        if any("conn" in c for c, _ in st):
            return "mixed"
        if all("snap" in c for c, _ in st):
            expect(all(READ.match(q) for _, q in st), f"{name}: a snapshot block contains a write")
            return "snap"
        if len(st) == 1:
            q = st[0][1]
            return "auto_w" if WRITE.match(q) else "auto_r" if READ.match(q) else "auto_?"
        return "seq"


@extractor
def gen_txnshape(repo, out):
    im = parse(repo, "tupimage/id_manager.py")
    cls = find_class(im, "IDManager")
    sh = Shape(cls)

    # ---- _snapshot: the expected deferred read transaction
    snap_ok = False
    if "_snapshot" in sh.methods:
        src = " ".join(ast.unparse(ast.Module(body=body_nodoc(sh.methods["_snapshot"]), type_ignores=[])).split())
        want = "if self.conn.in_transaction: yield return self.conn.execute('BEGIN') try: yield finally: self.conn.commit()"
        expect(src == want, f"_snapshot: body changed: {src[:200]}")
        decos = [ast.unparse(d) for d in sh.methods["_snapshot"].decorator_list]
        expect(decos == ["contextmanager"], f"_snapshot: decorators {decos}")
        snap_ok = True

    shapes = {}
    for m in ("get_id", "del_id", "set_id", "cleanup", "get_info", "mark_uploaded", "unmark_uploaded", "cleanup_uploads",
              "get_upload_info", "needs_uploading", "get_upload_infos"):
        shapes[m] = sh.shape(m)
    # get_id: the statements after the transaction (count() for the error message) are not part of the operation
    # count(space, sub) / get_all(space, sub): one SELECT;  count(None) / get_all(None): one per space
    for m in ("count", "get_all"):
        fn = sh.methods[m]
        b = body_nodoc(fn)
        expect(isinstance(b[0], ast.If) and ast.unparse(b[0].test) == "id_space is None", f"{m}: the all-spaces branch is not first")
        all_branch = b[0].body
        inside_snap = any(isinstance(s, ast.With) and any(ast.unparse(i.context_expr) == "self._snapshot()" for i in s.items) for s in all_branch)
        calls = [n for s in all_branch for n in ast.walk(s) if _self_call(n) == m]
        expect(len(calls) == 1, f"{m}: all-spaces branch shape")
        expect("IDSpace.all_values()" in ast.unparse(ast.Module(body=all_branch, type_ignores=[])), f"{m}: all-spaces iteration changed")
        shapes[m + "_all"] = "snap" if inside_snap else "seq"
        rest = [n for s in b[1:] for n in ast.walk(s) if _is_execute(n)]
        expect(len(rest) == 1 and READ.match(_sql_of(rest[0])), f"{m}: per-space statement sites")
        shapes[m] = "auto_r"

    def flag(m, good, alt):
        s = shapes[m]
        if s == good:
            return True
        expect(s in alt, f"IDManager.{m}: transaction shape {s!r} is not one the model knows (expected {good!r} or one of {alt})")
        return False

    # get_id: imm, except the trailing diagnostic count() after the with-block
    st = sh.sites("get_id", ())
    in_txn = [x for x in st if "conn" in x[0]]
    after = [x for x in st if "conn" not in x[0]]
    expect(in_txn and in_txn[0][1] == "BEGIN IMMEDIATE", "get_id: does not start with BEGIN IMMEDIATE")
    n_begin = sum(1 for _, q in st if q.startswith("BEGIN"))
    expect(n_begin in (1, 2), f"get_id: {n_begin} BEGIN statements")
    expect(all(READ.match(q) for _, q in after) and len(after) <= 1, f"get_id: statements outside the transaction: {[q[:30] for _, q in after]}")
    get_txn = n_begin == 1
    del_txn = flag("del_id", "imm", ("auto_w",))
    mark_txn = flag("mark_uploaded", "imm", ("seq",))
    expect(shapes["set_id"] == "auto_w" and shapes["cleanup"] == "auto_w" and shapes["unmark_uploaded"] == "auto_w" and shapes["cleanup_uploads"] == "auto_w",
           f"single-statement writers changed shape: { {k: shapes[k] for k in ('set_id', 'cleanup', 'unmark_uploaded', 'cleanup_uploads')} }")
    expect(shapes["get_info"] == "auto_r", f"get_info: shape {shapes['get_info']}")
    reads = [shapes[m] for m in ("get_upload_info", "needs_uploading", "get_upload_infos", "count_all", "get_all_all")]
    if all(r == "snap" for r in reads):
        expect(snap_ok, "_snapshot helper missing")
        snapshot = True
    else:
        expect(all(r in ("seq", "snap") for r in reads), f"multi-statement reads: shapes {reads}")
        snapshot = False

    # ---- constructor
    init = sh.methods["__init__"]
    isrc = ast.unparse(init)
    expect("sqlite3.connect(database_file, isolation_level=None)" in isrc, "__init__: connection is not opened in autocommit mode (isolation_level=None)")
    stmts = [_sql_of(n) for n in ast.walk(init) if _is_execute(n)]
    pragmas = [s for s in stmts if s.upper().startswith("PRAGMA")]
    # two shapes: (pinned tree) journal_mode=WAL executed once, directly, then busy_timeout; (repaired, 7241d92)
    # busy_timeout first, then self._enable_wal(cursor), a loop that repeats the switch while sqlite answers
    # OperationalError (SQLITE_BUSY is returned at once for this statement: the busy handler is not consulted)
    if pragmas[:1] == ["PRAGMA journal_mode=WAL"]:
        wal_retried = False
        m = [re.fullmatch(r"PRAGMA busy_timeout = (\d+)", p) for p in pragmas[1:2]]
        expect(m and m[0], f"__init__: busy_timeout PRAGMA changed: {pragmas[1:2]}")
        expect(len(pragmas) == 2, f"__init__: PRAGMAs {pragmas}")
        n_other = 2
    else:
        wal_retried = True
        m = [re.fullmatch(r"PRAGMA busy_timeout = (\d+)", p) for p in pragmas[:1]]
        expect(m and m[0], f"__init__: first PRAGMA is {pragmas[:1]}")
        expect(len(pragmas) == 1, f"__init__: PRAGMAs {pragmas}")
        calls = [n for n in ast.walk(init) if isinstance(n, ast.Call) and ast.unparse(n.func) == "self._enable_wal"]
        expect(len(calls) == 1 and [ast.unparse(a) for a in calls[0].args] == ["cursor"] and not calls[0].keywords, "__init__: self._enable_wal(cursor) not called exactly once")
        # it must come after the busy_timeout PRAGMA and before the first CREATE
        order = [("wal" if (isinstance(n, ast.Call) and ast.unparse(n.func) == "self._enable_wal") else _sql_of(n)[:6].upper())
                 for n in ast.walk(init) if (isinstance(n, ast.Call) and ast.unparse(n.func) == "self._enable_wal") or _is_execute(n)]
        lines = sorted((n.lineno, ("wal" if ast.unparse(n.func) == "self._enable_wal" else _sql_of(n)[:6].upper()))
                       for n in ast.walk(init) if isinstance(n, ast.Call) and (ast.unparse(n.func) == "self._enable_wal" or _is_execute(n)))
        kinds = [k for _, k in lines]
        expect(kinds[:2] == ["PRAGMA", "wal"] and all(k == "CREATE" for k in kinds[2:]), f"__init__: statement order {kinds[:4]}")
        expect("_enable_wal" in sh.methods, "IDManager._enable_wal missing")
        ew = sh.methods["_enable_wal"]
        loops = [n for n in ast.walk(ew) if isinstance(n, ast.While)]
        expect(len(loops) == 1 and ast.unparse(loops[0].test) == "True", "_enable_wal: not a `while True` retry loop")
        tries = [n for n in ast.walk(loops[0]) if isinstance(n, ast.Try)]
        expect(len(tries) == 1 and len(tries[0].handlers) == 1 and not tries[0].orelse and not tries[0].finalbody, "_enable_wal: try/except shape")
        tr = tries[0]
        # cursor.execute("PRAGMA journal_mode=WAL").fetchall(): the answer is fetched, so the statement is finished (and
        # its lock released) before anything else happens
        expect(len(tr.body) == 2 and isinstance(tr.body[0], ast.Expr) and ast.unparse(tr.body[0].value) == "cursor.execute('PRAGMA journal_mode=WAL').fetchall()"
               and isinstance(tr.body[1], ast.Return) and tr.body[1].value is None, "_enable_wal: body of the try is not `cursor.execute('PRAGMA journal_mode=WAL').fetchall(); return`")
        h = tr.handlers[0]
        expect(h.type is not None and ast.unparse(h.type) == "sqlite3.OperationalError", "_enable_wal: handler does not catch sqlite3.OperationalError")
        # the handler gives up only through `raise` guarded by the deadline; otherwise it sleeps and the loop repeats
        raises = [n for n in ast.walk(h) if isinstance(n, ast.Raise)]
        expect(len(raises) == 1 and raises[0].exc is None, "_enable_wal: handler must re-raise only")
        expect(len(h.body) == 2 and isinstance(h.body[0], ast.If) and not h.body[0].orelse and ast.unparse(h.body[0].test) == "time.monotonic() >= deadline"
               and h.body[0].body == [raises[0]] and ast.unparse(h.body[1]) == "time.sleep(0.005)", f"_enable_wal: handler shape changed: {ast.unparse(h)[:120]}")
        expect(not any(isinstance(n, (ast.Break, ast.Continue)) for n in ast.walk(loops[0])), "_enable_wal: break/continue in the retry loop")
        n_other = 1
    busy = int(m[0].group(1))
    creates = [s for s in stmts if s.upper().startswith("CREATE")]
    expect(all(re.match(r"CREATE (TABLE|INDEX) IF NOT EXISTS ", s) for s in creates), "__init__: a CREATE without IF NOT EXISTS")
    expect(len(creates) + n_other == len(stmts), f"__init__: unexpected statements {[s[:30] for s in stmts if s not in creates and s not in pragmas]}")
    # the per-space loop: 3 statements per space; then upload table + index
    loop = [n for n in ast.walk(init) if isinstance(n, ast.For) and ast.unparse(n.iter) == "IDSpace.all_values()"]
    expect(len(loop) == 1, "__init__: per-space loop")
    per_space = [_sql_of(n) for n in ast.walk(loop[0]) if _is_execute(n)]
    expect(len(per_space) == 3, f"__init__: {len(per_space)} statements per space")
    expect(per_space[0] == "CREATE TABLE IF NOT EXISTS {} ( id INTEGER PRIMARY KEY, description TEXT NOT NULL, atime TIMESTAMP NOT NULL )",
           f"__init__: id table definition changed: {per_space[0]}")
    others = [s for s in creates if s not in per_space]
    expect(len(others) == 2, f"__init__: statements after the loop: {others}")
    expect(others[0] == "CREATE TABLE IF NOT EXISTS upload ( id INTEGER NOT NULL, description TEXT NOT NULL, size INTEGER NOT NULL, terminal TEXT NOT NULL, upload_time TIMESTAMP NOT NULL, PRIMARY KEY (id, terminal) )",
           f"__init__: upload table definition changed: {others[0]}")
    n_spaces = 5   # IDSpace.all_values(): checked by gen_idspace (all_spaces_src)
    objects = 3 * n_spaces + 2
    # ---- nothing destructive anywhere else in the module
    alltxt = [n.value for n in ast.walk(im) if isinstance(n, ast.Constant) and isinstance(n.value, str)]
    for s in alltxt:
        expect(not re.search(r"\b(DROP|ALTER|VACUUM|ATTACH|DETACH)\b|journal_mode\s*=\s*(?!WAL)|locking_mode|PRAGMA\s+synchronous", s), f"destructive or mode-changing statement in the module: {s[:60]}")
    # every write statement of the module is an upsert, a keyed delete or an update (no plain INSERT that can hit a constraint)
    for n in ast.walk(cls):
        if _is_execute(n):
            q = _sql_of(n)
            if q.upper().startswith("INSERT"):
                expect("ON CONFLICT" in q and "DO UPDATE SET" in q, f"INSERT without ON CONFLICT ... DO UPDATE: {q[:60]}")

    t = HEADER
    t += f"Definition get_id_one_txn : bool := {'true' if get_txn else 'false'}.\n"
    t += f"Definition del_id_one_txn : bool := {'true' if del_txn else 'false'}.\n"
    t += f"Definition mark_uploaded_one_txn : bool := {'true' if mark_txn else 'false'}.\n"
    t += f"Definition reads_in_snapshot : bool := {'true' if snapshot else 'false'}.\n"
    t += f"Definition schema_objects : nat := {objects}%nat.\n"
    t += f"Definition busy_timeout_ms : Z := {busy}%Z.\n"
    t += f"Definition wal_switch_retried : bool := {'true' if wal_retried else 'false'}.\n"
    t += "(* shapes found: " + ", ".join(f"{k}={v}" for k, v in sorted(shapes.items())) + " *)\n"
    out.add("TxnShapeGen.v", t)
