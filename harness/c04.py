"""C04 — images are re-uploaded exactly when the terminal may have lost the current one.
Correspondence: Model.UploadModel (needs_uploading, upload_info, mark_uploaded, cleanup_uploads) vs the real
IDManager on sqlite with a patched clock, over random histories of assign / recycle / force-set / delete /
mark-uploaded / upload-table clean-up on several terminals; every answer and the whole upload table are
compared after every step.
Search oracle (independent of model and code): the history itself — per terminal the last transmission of every
id with the description bound at that moment — gives clause 1/2 of the property; a simulated most-aggressive
conforming terminal (evicts as soon as its own retention condition fails) gives the "Hence" clause."""
import datetime as _dt
import os
import sqlite3

import common

GEN_DEPS = ("gen_idmanager", "gen_uploadflow")
ASSUMPTIONS = [
    "upload timestamps handed to one database are strictly increasing (the property quantifies over clock *advances*; equal timestamps cannot be ordered by the table)",
    "'other images since then' = distinct other ids whose latest upload to that terminal is later (what a terminal that replaces an image when its id is re-sent holds)",
    "RetentionSpec represents a terminal's store as the table filtered by a ghost `held` predicate and reuses the model's counting functions for the terminal's own eviction condition",
]
TRUSTED = ["patched tupimage.id_manager.datetime (clock) and secrets (deterministic choices)", "ocaml/drv_c04.ml"]

BASE = _dt.datetime(2026, 1, 1)


def to_us(d):
    delta = d - BASE
    return (delta.days * 86400 + delta.seconds) * 10**6 + delta.microseconds


def from_us(us):
    return BASE + _dt.timedelta(microseconds=us)


class Clock:
    def __init__(self):
        self.now_us = 0
        self.reads = 0

    def now(self):
        self.reads += 1
        return from_us(self.now_us)


ZONE_OFFSET = _dt.timedelta(hours=9)   # the simulated process lives in a zone 9 hours east of UTC (like TZ=JST-9)


def install_clock(idm_mod, clock):
    """The fake clock is a LOCAL clock in a zone that is not UTC: now() is the local wall time the model is given;
    now(tz) / utcnow() answer what a real clock in that zone would (the same instant seen from tz / from UTC), so that code
    which mixes local and UTC time stamps shows."""
    class FakeDT(_dt.datetime):
        @classmethod
        def now(cls, tz=None):
            local = clock.now()
            if tz is None:
                return local
            return (local - ZONE_OFFSET).replace(tzinfo=_dt.timezone.utc).astimezone(tz)

        @classmethod
        def utcnow(cls):
            return clock.now() - ZONE_OFFSET

    idm_mod.datetime = FakeDT
    return FakeDT


def dump_ids(conn, spaces):
    cur = {}
    for ns in spaces:
        for row in conn.execute(f"SELECT id, description FROM {ns}"):
            cur[row[0]] = row[1]
    return cur


def dump_uploads(conn):
    return sorted((r[0], r[1], r[2], r[3], r[4]) for r in conn.execute("SELECT id, terminal, description, size, upload_time FROM upload"))


class Tokens:
    """description / terminal strings <-> numeric tokens of the model"""

    def __init__(self):
        self.d = {}

    def tok(self, s):
        if s not in self.d:
            self.d[s] = len(self.d) + 1
        return self.d[s]


def one_history(ctx, tup, idx, cov):
    rng = ctx.rng
    idm = tup.id_manager
    clock = Clock()
    saved_dt = idm.datetime
    install_clock(idm, clock)
    dbfile = os.path.join(ctx.work, f"c04-{idx}.db") if rng.random() < 0.3 else ":memory:"
    mgr = idm.IDManager(dbfile, max_ids_per_subspace=rng.choice([1, 2, 3, 10, 1024]))
    obs = mgr.conn  # same connection: autocommit mode, reads see everything
    spaces = [s.namespace_name() for s in idm.IDSpace.all_values()]
    toks = Tokens()
    terms = ["term-A", "term-B", "term-C"][: rng.choice([1, 2, 3])]
    Nmax = rng.choice([1, 2, 3, 1024])
    Bmax = rng.choice([0, 1, 50, 50, 120, 1000, 1000, 20 * 2**20, 20 * 2**20])
    Tmax_s = rng.choice([0, 1, 3600, 3600, 3600])
    thresholds = dict(max_uploads_ago=Nmax, max_bytes_ago=Bmax, max_time_ago=_dt.timedelta(seconds=Tmax_s))
    # a tiny subspace forces recycling; plus a few ids of other spaces for force-set
    space = rng.choice([idm.IDSpace(8, False), idm.IDSpace(0, True)])
    b = rng.randrange(1, 250)
    sub = idm.IDSubspace(b, b + rng.choice([1, 2, 3]))
    forced_ids = [1, 2, 255, 256 * 3, 0x01000000 * 5 + 7, 0x00123400]
    descrs = [f"img-{i}" for i in range(rng.choice([2, 4, 6]))]
    script = []  # model tokens
    events = []  # (kind, ...) for the independent oracle
    queries = []  # (impl needs, impl info, oracle verdicts ...)
    cur = {}
    n_ops = rng.randrange(8, ctx.pick(40, 80))
    last_mark_time = 0
    try:
        for _ in range(n_ops):
            clock.now_us += rng.choice([1, 1, 1, 7, 7, 1000, 1000, 10**5, 10**6, 61 * 10**6, 7200 * 10**6])
            k = rng.random()
            if k < 0.22:
                d = rng.choice(descrs)
                try:
                    mgr.get_id(d, space, subspace=sub)
                except RuntimeError:
                    pass
                kind = "get_id"
            elif k < 0.32:
                mgr.set_id(rng.choice(forced_ids + list(cur.keys())[:3]), rng.choice(descrs), atime=from_us(clock.now_us))
                kind = "set_id"
            elif k < 0.40:
                if cur:
                    mgr.del_id(rng.choice(sorted(cur)))
                kind = "del_id"
            elif k < 0.80:
                pool = sorted(cur) + forced_ids[:2]
                id_ = rng.choice(pool)
                t = rng.choice(terms)
                size = rng.choice([0, 1, 1, 5, 10, 10, 30, 49, 50, 51, 100, 100, 999, 1000, 10**6])
                prev = [e for e in events if e[0] == "mark" and e[1] in cur]
                if prev and rng.random() < 0.3:
                    # re-send an id that was sent before, often with a different (smaller or larger) size
                    _, id_, t, psize, _, _ = rng.choice(prev)
                    size = rng.choice([psize // 10, psize, psize * 3 + 1, 1])
                mgr.mark_uploaded(id_, t, size=size, upload_time=from_us(clock.now_us))
                script.append(f"M:{id_}:{toks.tok(t)}:{size}:{clock.now_us}")
                events.append(("mark", id_, t, size, clock.now_us, cur.get(id_)))
                kind = "mark"
            elif k < 0.86:
                n = rng.choice([0, 1, 2, 3, 5, 1024])
                mgr.cleanup_uploads(n)
                script.append(f"C:{n}")
                events.append(("cleanup", n))
                kind = "cleanup_uploads"
            else:
                kind = "noop"
            cov.bump("op:" + kind)
            # observe the bindings, translate the difference into model tokens
            new = dump_ids(obs, spaces)
            for i in sorted(set(cur) | set(new)):
                if i in new and cur.get(i) != new[i]:
                    script.append(f"B:{i}:{toks.tok(new[i])}")
                elif i not in new:
                    script.append(f"U:{i}")
            cur = new
            # query every (id, terminal) pair that matters
            ids = sorted(set(cur) | {e[1] for e in events if e[0] == "mark"})[:8]
            for id_ in ids:
                for t in terms:
                    qnow = clock.now_us + rng.choice([0, 0, 0, 5, 5, 2 * 10**6])
                    clock.now_us = qnow
                    nu = mgr.needs_uploading(id_, t, **thresholds)
                    info = mgr.get_upload_info(id_, t)
                    script.append(f"Q:{id_}:{toks.tok(t)}:{qnow}:{Nmax}:{Bmax}:{Tmax_s * 10**6}")
                    iinfo = None if info is None else (toks.tok(info.description), to_us(info.upload_time), info.size, info.bytes_ago, info.uploads_ago)
                    queries.append((id_, t, qnow, nu, iinfo, cur.get(id_), len(events)))
        table = dump_uploads(obs)
    finally:
        idm.datetime = saved_dt
        mgr.close()
    table_tok = sorted((r[0], toks.tok(r[1]), toks.tok(r[2]), r[3], to_us(_dt.datetime.fromisoformat(r[4]))) for r in table)
    return {"script": script, "queries": queries, "events": events, "table": table_tok, "thr": (Nmax, Bmax, Tmax_s * 10**6), "toks": toks, "terms": terms}


def oracle(h):
    """Independent reading of the property on the recorded history. Returns list of (class, message, query index)."""
    Nmax, Bmax, Tmax = h["thr"]
    out = []
    for qi, (id_, t, now, nu, info, cur_d, nev) in enumerate(h["queries"]):
        if cur_d is None:
            if nu:
                out.append(("upload-asked-for-unassigned-id", f"id {id_} is unassigned but needs_uploading is True", qi))
            continue
        # replay the first nev events for terminal t: last transmission per id; clean-ups forget the oldest rows (all terminals)
        last = {}  # (id, term) -> (descr, size, time)
        for e in h["events"][:nev]:
            if e[0] == "mark":
                _, i, tt, size, time, d = e
                if d is not None:
                    last[(i, tt)] = (d, size, time)
            else:
                n = e[1]
                keep = sorted(last.items(), key=lambda kv: -kv[1][2])[:n]
                last = dict(keep)
        u = last.get((id_, t))
        if u is None:
            ok = False
        else:
            others = [v for (i, tt), v in last.items() if tt == t and i != id_ and v[2] > u[2]]
            ok = (u[0] == cur_d) and len(others) < Nmax and (u[1] + sum(v[1] for v in others)) <= Bmax and (now - u[2]) <= Tmax
        if ok and nu:
            out.append(("needless-reupload", f"id {id_} terminal {t}: all conditions of the statement hold but a re-upload is requested", qi))
        if (not ok) and (not nu):
            out.append(("no-upload-although-condition-fails", f"id {id_} terminal {t}: no upload requested although the latest upload does not satisfy the statement", qi))
    return out


def aggressive_terminal(h):
    """The "Hence" clause: a terminal that evicts an image the moment its own retention condition fails.
    Returns list of (class, message, query index)."""
    Nmax, Bmax, Tmax = h["thr"]
    out = []
    stores = {t: {} for t in h["terms"]}  # t -> id -> (descr, size, time)
    shrunk = {t: False for t in h["terms"]}
    lastsize = {}

    def evict(t, now):
        st = stores[t]
        for i in sorted(st, key=lambda i: st[i][2]):
            d, size, time = st[i]
            others = [v for j, v in st.items() if j != i and v[2] > time]
            if len(others) >= Nmax or size + sum(v[1] for v in others) > Bmax or now - time > Tmax:
                del st[i]
                return True
        return False

    ev_i = 0
    for qi, (id_, t, now, nu, info, cur_d, nev) in enumerate(h["queries"]):
        while ev_i < nev:
            e = h["events"][ev_i]
            ev_i += 1
            if e[0] == "mark" and e[5] is not None:
                _, i, tt, size, time, d = e
                if lastsize.get((tt, i), -1) > size:
                    shrunk[tt] = True
                lastsize[(tt, i)] = size
                stores[tt][i] = (d, size, time)
                while evict(tt, time):
                    pass
        while evict(t, now):
            pass
        if cur_d is not None and not nu:
            held = stores[t].get(id_)
            if held is None or held[0] != cur_d:
                klass = "stale-after-shrinking-resend" if shrunk[t] else "stale-image"
                out.append((klass, f"id {id_} terminal {t}: no upload requested but an aggressive conforming terminal no longer holds the current image", qi))
    return out


def run(ctx, model):
    cov = common.Coverage("case = one history (ops on one database, 1-3 terminals, thresholds) with queries for every (id, terminal) after every op; non-trivial = history contains at least one 'no upload needed' answer for an assigned id and at least one recycling/overwrite; distinct by hash of the op script")
    if model is None:
        return cov
    common.scrub_process_env()
    tup = common.import_impl()
    n_hist = ctx.pick(500, 6000)
    hs = []
    for i in range(n_hist):
        hs.append(one_history(ctx, tup, i, cov))
    reps = model.batch(["c04.hist " + " ".join(h["script"]) for h in hs])
    for h, rep in zip(hs, reps):
        answers, table = rep.split(";")
        answers = answers.split()
        mtable = sorted(tuple(int(x) for x in r.split(",")) for r in table.split("|") if r)
        said_no = sum(1 for q in h["queries"] if q[5] is not None and not q[3])
        rebinds = sum(1 for s in h["script"] if s.startswith("B:"))
        cov.add(h["script"][:60], nontrivial=said_no > 0 and rebinds > 1, klass=f"terminals={len(h['terms'])}/N={h['thr'][0]}")
        cov.bump("queries", len(h["queries"]))
        cov.bump("answers:no-upload-needed", said_no)
        if len(answers) != len(h["queries"]):
            ctx.corr_breaks.append({"what": "model answered a different number of queries", "script": h["script"][:40]})
            continue
        for (id_, t, now, nu, info, cur_d, nev), a in zip(h["queries"], answers):
            mnu, minfo = a.split("/")
            minfo_t = None if minfo == "-" else tuple(int(x) for x in minfo.split(","))
            if (mnu == "1") != bool(nu) or minfo_t != info:
                ctx.corr_breaks.append({"what": "needs_uploading / get_upload_info differ from Model.UploadModel", "query": [id_, t, now], "impl": [nu, info], "model": a, "script": h["script"]})
                break
        if mtable != h["table"]:
            ctx.corr_breaks.append({"what": "final upload table differs from the model's", "impl": h["table"][:10], "model": mtable[:10], "script": h["script"]})
        for klass, msg, qi in oracle(h) + aggressive_terminal(h):
            ctx.violations.append({"signature": {"class": klass}, "what": msg,
                                   "case": {"kind": "history", "script": h["script"], "thresholds": h["thr"], "query_index": qi}})
            break
    highlevel(ctx, cov)
    timezone_scenarios(ctx, cov)
    # the re-upload thresholds changed after construction, through the caller's configuration object
    import c08_cli
    c08_cli.config_object_equivalence(ctx, cov, ctx.pick(16, 80), must_change=["reupload_max_uploads_ago", "reupload_max_bytes_ago"])
    # several images (and the same image again) on one command line: the command line transmits what the library calls transmit
    c08_cli.cli_equivalence(ctx, cov, ctx.pick(24, 80), env_rate=0.8)
    return cov


def timezone_scenarios(ctx, cov):
    """The age threshold with the REAL clock in a local time zone that is not UTC (west and east of it): an image uploaded
    T seconds ago with a maximum age below T needs uploading; one uploaded a moment ago with a generous maximum age does
    not.  (Everything else runs on a patched clock; this is the one place where the wall clock and the zone matter.)"""
    work = ctx.work

    def child(tz):
        common.scrub_process_env()
        os.environ["HOME"] = work
        os.environ["XDG_STATE_HOME"] = os.path.join(work, "state")
        os.environ["XDG_CONFIG_HOME"] = os.path.join(work, "config")
        os.environ["TZ"] = tz
        import time as _t
        _t.tzset()
        import tupimage
        from PIL import Image
        p = os.path.join(work, "c04-tz.png")
        Image.new("RGB", (5, 4), (1, 2, 3)).save(p)
        out = {}
        for name, max_age, wait in (("expired", 1, 1.6), ("fresh", 600, 0.0)):
            db = os.path.join(work, f"c04-tz-{os.getpid()}-{name}.db")
            stream = common.RecStream()
            t = tupimage.TupimageTerminal(out_command=stream, out_display=common.RecStream(), in_response=open("/dev/tty", "rb", buffering=0), id_database=db,
                                          config="DEFAULT", terminal_id="tz", session_id="tz", id_space="8bit", id_subspace="20:30", upload_method="direct",
                                          redetect_terminal=False, num_tmux_layers=0, reupload_max_seconds_ago=max_age, reupload_max_uploads_ago=1024, reupload_max_bytes_ago=10**9)
            inst = t.upload(p)
            _t.sleep(wait)
            n0 = len(stream.writes)
            needs = t.needs_uploading(inst.id)
            low = t.id_manager.needs_uploading(inst.id, t._terminal_id, max_time_ago=__import__("datetime").timedelta(seconds=max_age))
            t.upload(p)
            out[name] = {"needs": bool(needs), "idm_needs": bool(low), "retransmitted": sum(len(w) for w in stream.writes[n0:]) > 0}
            os.remove(db)
        return out

    for tz in ("EST5", "JST-9", "UTC0"):
        r = common.in_pty(lambda tz=tz: child(tz), timeout=120)
        if "ok" not in r:
            ctx.corr_breaks.append({"what": "time-zone scenarios failed in the pty sandbox", "error": {k: v for k, v in r.items() if k != "tty"}})
            continue
        for name, want in (("expired", True), ("fresh", False)):
            got = r["ok"][name]
            cov.add({"tz": tz, "scenario": name, "observed": got}, klass=f"timezone/{tz}/{name}")
            if got["needs"] != want or got["idm_needs"] != want or got["retransmitted"] != want:
                cls = "no-upload-although-condition-fails" if want else "needless-reupload"
                ctx.violations.append({"signature": {"class": cls, "path": "real clock, TZ=" + tz},
                                       "what": f"local time zone {tz}: an image uploaded {'1.6 s ago with a maximum age of 1 s' if want else 'a moment ago with a maximum age of 600 s'}: "
                                               f"needs_uploading={got['needs']} (IDManager: {got['idm_needs']}), re-transmitted={got['retransmitted']}; expected {want}",
                                       "case": {"kind": "timezone", "tz": tz, "scenario": name}})


def replay(ctx, model, rec):
    if rec.get("case", {}).get("kind") == "config-object":
        import c08_cli
        n0 = len(ctx.violations)
        c08_cli.config_object_equivalence(ctx, common.Coverage("replay"), 40, must_change=["reupload_max_uploads_ago", "reupload_max_bytes_ago"])
        mine = ctx.violations[n0:]
        del ctx.violations[n0:]
        return {"violates": bool(mine), "violations": [v["what"] for v in mine][:3]}
    if rec.get("case", {}).get("kind") == "timezone":
        n0 = len(ctx.violations)
        timezone_scenarios(ctx, common.Coverage("replay"))
        mine = ctx.violations[n0:]
        del ctx.violations[n0:]
        return {"violates": bool(mine), "violations": [v["what"] for v in mine][:3]}
    """Known finding F-C04b / any history case: re-run the three-step witness on the real IDManager."""
    case = rec["case"]
    tup = common.import_impl()
    idm = tup.id_manager
    if case.get("kind") == "witness-shrink":
        clock = Clock()
        saved = idm.datetime
        install_clock(idm, clock)
        try:
            m = idm.IDManager(":memory:")
            m.set_id(1, "r", atime=from_us(0))
            m.set_id(2, "Y", atime=from_us(0))
            m.mark_uploaded(1, "T", size=10, upload_time=from_us(1))
            m.mark_uploaded(2, "T", size=100, upload_time=from_us(2))
            clock.now_us = 2
            before = m.needs_uploading(1, "T", max_bytes_ago=50)
            m.mark_uploaded(2, "T", size=1, upload_time=from_us(3))
            clock.now_us = 3
            after = m.needs_uploading(1, "T", max_bytes_ago=50)
            m.close()
        finally:
            idm.datetime = saved
        return {"violates": bool(before) and not after, "needs_uploading_before_shrinking_resend": before, "after": after}
    return {"violates": False, "note": "history cases are replayed by re-running the check with the same seed"}


# ------------------------------------------------------------------------------ high-level wrapper
def highlevel(ctx, cov):
    """TupimageTerminal.upload / needs_uploading with the configured thresholds, on a long-lived terminal object whose
    attached tmux client (= terminal id) changes between calls (fake `tmux` executable).  Oracle: the history — an
    upload() must transmit unless the terminal currently attached received this image (same description) as its
    latest transmission of the id and the thresholds were not exceeded since."""
    work = ctx.work
    rng = ctx.rng
    bindir = os.path.join(work, "bin04")
    os.makedirs(bindir, exist_ok=True)
    client_file = os.path.join(work, "tmux-client")
    with open(os.path.join(bindir, "tmux"), "w") as f:
        f.write(f"#!/bin/sh\nc=$(cat {client_file})\necho \"xterm-kitty||||$c||||77_$0\"\n")
    os.chmod(os.path.join(bindir, "tmux"), 0o755)
    scenarios = []
    for _ in range(ctx.pick(40, 400)):
        steps = []
        for _ in range(rng.randrange(3, 10)):
            k = rng.random()
            if k < 0.35:
                steps.append(("client", rng.choice(["101", "202", "303"])))
            elif k < 0.45:
                steps.append(("mutate",))     # image 5 (a PIL image opened from a file) is edited in place: a different picture from now on
            else:
                steps.append(("upload", rng.choice([0, 1, 2, 3, 4, 5, 5]), rng.random() < 0.15))
        scenarios.append({"steps": steps, "N": rng.choice([1, 2, 1024]), "B": rng.choice([200, 1500, 10**9]), "redetect": rng.random() < 0.85})
    # fixed: the file-backed PIL image is sent, edited in place, requested again (generous thresholds, one terminal)
    scenarios.insert(0, {"steps": [("upload", 5, False), ("mutate",), ("upload", 5, False), ("upload", 5, False), ("mutate",), ("upload", 5, False)], "N": 1024, "B": 10**9, "redetect": True})
    scenarios.insert(1, {"steps": [("upload", 0, False), ("upload", 5, False), ("mutate",), ("upload", 5, False)], "N": 1024, "B": 10**9, "redetect": False})
    # fixed: the attached tmux client changes between two requests for the same image (and back)
    scenarios.insert(2, {"steps": [("upload", 0, False), ("client", "202"), ("upload", 0, False), ("upload", 1, False), ("client", "101"), ("upload", 0, False), ("upload", 1, False),
                                   ("client", "303"), ("upload", 3, False)], "N": 1024, "B": 10**9, "redetect": True})

    def child():
        common.scrub_process_env()
        os.environ["PATH"] = bindir + ":" + os.environ.get("PATH", "")
        os.environ["HOME"] = work
        os.environ["XDG_STATE_HOME"] = os.path.join(work, "state")
        os.environ["XDG_CONFIG_HOME"] = os.path.join(work, "config")
        import tupimage
        from PIL import Image
        import io
        import random as _rnd
        imgs, sizes = [], []
        for i in range(3):
            p = os.path.join(work, f"c04-hl-{i}.png")
            Image.new("RGB", (4 + i, 3), (10, 20 * i, 30)).save(p)
            imgs.append(p)
            sizes.append(os.path.getsize(p))
        # images 3 and 4 live in memory only: they are re-encoded for the transmission (another route of _upload); the
        # bytes the terminal receives for them = the PNG encoding, computed here independently
        noise = _rnd.Random(11)
        for i in range(2):
            im = Image.new("RGB", (12 + i, 12))
            im.putdata([(noise.randrange(256), noise.randrange(256), noise.randrange(256)) for _ in range((12 + i) * 12)])
            b = io.BytesIO()
            im.save(b, format="PNG")
            imgs.append(im)
            sizes.append(len(b.getvalue()))
        # image 5: opened from a file with PIL (the object keeps .filename) and edited in place during the scenario
        opened_path = os.path.join(work, "c04-hl-opened.png")
        base5 = Image.new("RGB", (9, 7))
        base5.putdata([(noise.randrange(256), noise.randrange(256), noise.randrange(256)) for _ in range(63)])
        base5.save(opened_path)

        def png_size(im):
            b_ = io.BytesIO()
            im.save(b_, format="PNG")
            return len(b_.getvalue())
        imgs.append(None)
        sizes.append(0)
        tty_in = open("/dev/tty", "rb", buffering=0)
        out = []
        for si, sc in enumerate(scenarios):
            imgs[5] = Image.open(opened_path)
            imgs[5].load()
            sizes[5] = png_size(imgs[5])
            gen5 = 0
            with open(client_file, "w") as f:
                f.write("101")
            db = os.path.join(work, f"c04-hl-{os.getpid()}-{si}.db")
            stream = common.RecStream()
            t = tupimage.TupimageTerminal(out_command=stream, out_display=common.RecStream(), in_response=tty_in, id_database=db, config="DEFAULT",
                                          num_tmux_layers=1, id_space="8bit", id_subspace="20:30", upload_method="direct", redetect_terminal=sc["redetect"],
                                          reupload_max_uploads_ago=sc["N"], reupload_max_bytes_ago=sc["B"], reupload_max_seconds_ago=3600)
            log = []
            client = "101"
            for st in sc["steps"]:
                if st[0] == "client":
                    client = st[1]
                    with open(client_file, "w") as f:
                        f.write(client)
                    log.append(["client", client])
                elif st[0] == "mutate":
                    gen5 += 1
                    imgs[5].putpixel((gen5 % 9, 0), ((gen5 * 37) % 256, 200, 3))
                    sizes[5] = png_size(imgs[5])
                    log.append(["mutate"])
                else:
                    n0 = len(stream.writes)
                    inst = t.upload(imgs[st[1]], force_upload=st[2])
                    sent = sum(len(w) for w in stream.writes[n0:])
                    label = st[1] if st[1] != 5 else f"5.{gen5}"
                    log.append(["upload", label, bool(st[2]), inst.id, sent, t._terminal_id, sizes[st[1]]])
            out.append(log)
            os.remove(db)
        return out

    r = common.in_pty(child, timeout=600)
    if "ok" not in r:
        ctx.corr_breaks.append({"what": "high-level C04 scenarios failed in the pty sandbox", "error": {k: v for k, v in r.items() if k != "tty"}})
        return
    for sc, log in zip(scenarios, r["ok"]):
        # what each terminal (tmux client) received, in order: list of (id, image index, size)
        received = {}
        attached_at_construction = "101"
        current = "101"
        known = attached_at_construction  # the terminal id the object believes in when redetect is off
        for ev in log:
            if ev[0] == "client":
                current = ev[1]
                continue
            if ev[0] == "mutate":
                continue
            _, img, force, id_, sent, tid, size = ev
            term = current if sc["redetect"] else known
            hist = received.setdefault(term, [])
            # latest transmission of this id to the attached terminal, and what came after it
            idx = max((i for i, h in enumerate(hist) if h[0] == id_), default=None)
            ok = False
            if idx is not None and hist[idx][1] == img:
                later = {}
                for h in hist[idx + 1:]:
                    later[h[0]] = h
                ok = len(later) < sc["N"] and hist[idx][2] + sum(h[2] for h in later.values()) <= sc["B"]
            transmitted = sent > 0
            cov.add({"scenario_step": ev[:3], "terminal": term, "N": sc["N"], "B": sc["B"]}, nontrivial=len(received) > 1 or idx is not None, klass="highlevel/" + ("transmit" if transmitted else "skip"))
            if not transmitted and not ok:
                ctx.violations.append({"signature": {"class": "no-upload-although-condition-fails", "path": "TupimageTerminal.upload"},
                                       "what": f"upload() of image {img} (id {id_}) transmitted nothing although the attached terminal {term} does not hold it as the latest upload of that id within the thresholds",
                                       "case": {"kind": "highlevel", "scenario": sc, "log": log}})
                break
            if transmitted and ok and not force:
                ctx.violations.append({"signature": {"class": "needless-reupload", "path": "TupimageTerminal.upload"},
                                       "what": f"upload() of image {img} (id {id_}) re-transmitted although terminal {term} holds it within the thresholds",
                                       "case": {"kind": "highlevel", "scenario": sc, "log": log}})
                break
            if transmitted:
                # a re-sent id replaces the terminal's entry
                hist.append((id_, img, size))
