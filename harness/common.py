"""Shared machinery of the checks: context, model runner, proof status, evidence, violations,
known findings, sandboxed implementation runs."""
import hashlib
import json
import os
import random
import re
import shutil
import subprocess
import sys
import time

VERIF = os.path.dirname(os.path.dirname(os.path.abspath(__file__)))
REPO = os.environ.get("VERIF_REPO", "/repo")
COQ = os.path.join(VERIF, "coq")
MODELRUN = os.path.join(VERIF, "ocaml", "build", "modelrun")
PY = "/venv/bin/python"

FORBIDDEN = re.compile(
    r"\b(Admitted|admit|Axiom|Axioms|Parameter|Parameters|Conjecture|Conjectures|Hypothesis|Hypotheses|Variable|Variables|"
    r"Admit\s+Obligations|bypass_check|type-in-type|impredicative-set)\b|Unset\s+Guard|Unset\s+Positivity|Unset\s+Universe"
)


def hexs(b: bytes) -> str:
    return b.hex() if b else "-"


def unhex(s: str):
    if s == "NONE":
        return None
    return b"" if s == "-" else bytes.fromhex(s)


class Ctx:
    def __init__(self, prop, tier, seed):
        self.prop = prop
        self.tier = tier
        self.seed = seed
        self.rng = random.Random(seed)
        self.t0 = time.time()
        self.work = os.path.join(VERIF, "_work", f"{prop}-{os.getpid()}")
        os.makedirs(self.work, exist_ok=True)
        self.violations = []  # concrete counterexamples: dict(signature=..., ...)
        self.corr_breaks = []  # model != implementation (no spec violation shown): dict
        self.known_printed = []
        self.notes = []

    def quick(self):
        return self.tier == "quick"

    def pick(self, quick, thorough):
        return quick if self.tier == "quick" else thorough

    def cleanup(self):
        shutil.rmtree(self.work, ignore_errors=True)


# ------------------------------------------------------------------------------ model runner
class Model:
    """Batch interface to the extracted model: a list of request lines -> list of reply lines."""

    def __init__(self):
        if not os.path.exists(MODELRUN):
            raise RuntimeError("modelrun not built")

    def batch(self, lines, timeout=3600):
        if not lines:
            return []
        data = ("\n".join(lines) + "\n").encode()
        p = subprocess.run(
            ["/bin/sh", "-c", f"ulimit -s unlimited 2>/dev/null; exec {MODELRUN}"],
            input=data, stdout=subprocess.PIPE, stderr=subprocess.PIPE, timeout=timeout,
        )
        out = p.stdout.decode().split("\n")
        if out and out[-1] == "":
            out.pop()
        if p.returncode != 0 or len(out) != len(lines):
            raise RuntimeError(f"modelrun failed rc={p.returncode} got {len(out)} replies for {len(lines)} requests: {p.stderr.decode()[:500]}")
        return out

    def one(self, line):
        return self.batch([line])[0]


# ------------------------------------------------------------------------------ implementation import
def import_impl():
    """Import the implementation from the repository under test (REPO first on sys.path)."""
    if sys.path[0] != REPO:
        sys.path.insert(0, REPO)
    import tupimage  # noqa

    src = os.path.realpath(os.path.dirname(tupimage.__file__))
    want = os.path.realpath(os.path.join(REPO, "tupimage"))
    if src != want:
        raise RuntimeError(f"tupimage imported from {src}, expected {want}")
    return tupimage


def clean_env(extra=None):
    env = {k: v for k, v in os.environ.items() if not (k.startswith("TUPIMAGE_") or k.startswith("SSH_") or k in ("TMUX", "WINDOWID"))}
    env["PYTHONPATH"] = REPO
    env["PYTHONHASHSEED"] = "0"
    env["TUPIMAGE_CONFIG"] = "DEFAULT"
    env["TERM"] = "xterm-256color"
    if extra:
        env.update(extra)
    return env


def scrub_process_env():
    for k in list(os.environ):
        if k.startswith("TUPIMAGE_") or k.startswith("SSH_") or k in ("TMUX", "WINDOWID"):
            del os.environ[k]
    os.environ["TUPIMAGE_CONFIG"] = "DEFAULT"
    os.environ["TERM"] = "xterm-256color"


# ------------------------------------------------------------------------------ build / proof status
def run_build():
    t = time.time()
    os.makedirs(os.path.join(VERIF, "_build"), exist_ok=True)
    prefix = os.path.join(VERIF, "_build", f"out-{os.getpid()}")
    p = subprocess.run([os.path.join(VERIF, "tools", "build.sh"), REPO], stdout=subprocess.PIPE, stderr=subprocess.STDOUT, env=dict(os.environ, VERIF_BUILD_OUT=prefix))
    gen = {"changed": [], "errors": []}
    try:
        with open(prefix + ".gen.json") as f:
            gen = json.loads(f.read().strip().splitlines()[-1])
    except Exception as e:  # noqa
        gen = {"changed": [], "errors": [["gen_tables", f"no output: {e}"]]}
    log = ""
    try:
        with open(prefix + ".log") as f:
            log = f.read()
    except OSError:
        pass
    for ext in (".gen.json", ".log"):
        try:
            os.remove(prefix + ext)
        except OSError:
            pass
    return {"rc": p.returncode, "gen": gen, "log": log, "wall_s": time.time() - t}


def audit_sources():
    """No Admitted/admit/Axiom/... anywhere in the development (comments are stripped first)."""
    hits = []
    for root, _, files in os.walk(COQ):
        for fn in files:
            if not fn.endswith(".v"):
                continue
            p = os.path.join(root, fn)
            with open(p) as f:
                src = f.read()
            src_nc = strip_coq_comments(src)
            in_section = 0
            for i, line in enumerate(src_nc.split("\n"), 1):
                if re.match(r"\s*Section\b", line):
                    in_section += 1
                if re.match(r"\s*End\b", line) and in_section:
                    in_section -= 1
                m = FORBIDDEN.search(line)
                if m:
                    word = m.group(0)
                    if in_section and re.match(r"(Variable|Variables|Hypothesis|Hypotheses)$", word):
                        continue
                    hits.append(f"{os.path.relpath(p, VERIF)}:{i}: {line.strip()[:120]}")
    return hits


def strip_coq_comments(src):
    out = []
    depth = 0
    i = 0
    n = len(src)
    while i < n:
        if src.startswith("(*", i):
            depth += 1
            i += 2
        elif src.startswith("*)", i) and depth:
            depth -= 1
            i += 2
        else:
            if depth == 0:
                out.append(src[i])
            elif src[i] == "\n":
                out.append("\n")
            i += 1
    return "".join(out)


class build_lock:
    """the lock tools/build.sh holds while it rewrites Gen/ and compiled files: taken for every coqc / make of a check too,
    so that checks of different properties may run in parallel"""

    def __enter__(self):
        import fcntl
        self.f = open(os.path.join(VERIF, ".build.lock"), "w")
        fcntl.flock(self.f, fcntl.LOCK_EX)
        return self

    def __exit__(self, *a):
        import fcntl
        fcntl.flock(self.f, fcntl.LOCK_UN)
        self.f.close()


def proof_status(prop, extra_props=()):
    with build_lock():
        return _proof_status(prop, extra_props)


def _proof_status(prop, extra_props=()):
    """Compile Props/<prop>.v (its dependencies were built by build.sh) and collect, per theorem,
    what Print Assumptions reports.  Returns dict(obligations, discharged, theorems, axioms, ok, log)."""
    res = {"obligations": 0, "discharged": 0, "theorems": [], "axioms": {}, "ok": False, "log": "", "files": []}
    for name in (prop,) + tuple(extra_props):
        vf = os.path.join(COQ, "Props", f"{name}.v")
        if not os.path.exists(vf):
            res["log"] += f"missing {vf}\n"
            return res
        with open(vf) as f:
            src = strip_coq_comments(f.read())
        thms = re.findall(r"^\s*(?:Theorem|Corollary)\s+(\w+)", src, re.M)
        prints = re.findall(r"^\s*Print\s+Assumptions\s+(\w+)\s*\.", src, re.M)
        res["obligations"] += len(thms)
        res["theorems"] += thms
        res["files"].append(os.path.relpath(vf, VERIF))
        missing = [t for t in thms if t not in prints]
        if missing:
            res["log"] += f"theorems without Print Assumptions in {name}: {missing}\n"
            return res
        # dependencies first (make is a no-op when build.sh succeeded)
        mk = subprocess.run(["make", "-C", COQ, f"Props/{name}.vo"], stdout=subprocess.PIPE, stderr=subprocess.STDOUT, timeout=3000)
        if mk.returncode != 0:
            res["log"] += mk.stdout.decode()[-3000:]
            return res
        p = subprocess.run(["coqc", "-Q", ".", "Tup", f"Props/{name}.v"], cwd=COQ, stdout=subprocess.PIPE, stderr=subprocess.STDOUT, timeout=3000)
        out = p.stdout.decode()
        if p.returncode != 0:
            res["log"] += out[-3000:]
            return res
        # parse the sequence of Print Assumptions answers
        blocks = re.split(r"(?m)^(?=Closed under the global context|Axioms:)", out)
        blocks = [b for b in blocks if b.startswith("Closed under") or b.startswith("Axioms:")]
        if len(blocks) != len(prints):
            res["log"] += f"Print Assumptions answers {len(blocks)} != requested {len(prints)}\n{out[-2000:]}"
            return res
        for t, b in zip(prints, blocks):
            if b.startswith("Closed under"):
                res["axioms"][t] = []
            else:
                names = re.findall(r"(?m)^([\w.']+)\s*:", b[len("Axioms:"):])
                res["axioms"][t] = names
            if t in thms:
                res["discharged"] += 1
    res["ok"] = res["discharged"] == res["obligations"] and res["obligations"] > 0
    return res


# ------------------------------------------------------------------------------ known findings
def load_known(prop):
    p = os.path.join(VERIF, "known_findings", f"{prop}.json")
    if not os.path.exists(p):
        return []
    with open(p) as f:
        return json.load(f)


def sig_matches(match, sig):
    return all(sig.get(k) == v for k, v in match.items())


def known_for(prop, sig):
    for e in load_known(prop):
        if e.get("status") == "known" and sig_matches(e["match"], sig):
            return e
    return None


# ------------------------------------------------------------------------------ evidence, replay
def write_json(path, obj):
    os.makedirs(os.path.dirname(path), exist_ok=True)
    tmp = path + ".tmp"
    with open(tmp, "w") as f:
        json.dump(obj, f, indent=1, sort_keys=True, default=repr)
        f.write("\n")
    os.replace(tmp, path)


def case_hash(obj):
    return hashlib.sha1(json.dumps(obj, sort_keys=True, default=repr).encode()).hexdigest()


class Coverage:
    """Counts evaluations, distinct non-trivial cases (by hash under the harness' rule), histograms."""

    def __init__(self, rule):
        self.rule = rule
        self.evaluations = 0
        self.seen = set()
        self.hist = {}
        self.samples = []

    def add(self, case, nontrivial=True, klass=None, sample_every=997):
        self.evaluations += 1
        if nontrivial:
            self.seen.add(case_hash(case))
        if klass is not None:
            self.hist[klass] = self.hist.get(klass, 0) + 1
        if len(self.samples) < 4 or (self.evaluations % sample_every == 0 and len(self.samples) < 12):
            self.samples.append(case)

    def bump(self, klass, n=1):
        self.hist[klass] = self.hist.get(klass, 0) + n

    def as_dict(self):
        return {
            "evaluations": self.evaluations,
            "distinct_nontrivial": len(self.seen),
            "rule": self.rule,
            "samples": self.samples,
            "input_distribution": dict(sorted(self.hist.items())),
        }


# ------------------------------------------------------------------------------ pty sandbox
def in_pty(fn, rows=24, cols=80, xpx=640, ypx=384, timeout=60, feed=None):
    """Run fn() in a forked child whose controlling terminal is a fresh pty of the given size.
    fn's JSON-serialisable result comes back through a pipe.  `feed`: bytes written to the pty
    master (i.e. 'typed by the terminal') once the child is running."""
    import fcntl
    import pty
    import select
    import struct
    import termios

    if "tupimage" not in sys.modules:
        import_impl()   # children must see the implementation of the repository under test
    r, w = os.pipe()
    pid, master = pty.fork()
    if pid == 0:
        try:
            os.close(r)
            fcntl.ioctl(0, termios.TIOCSWINSZ, struct.pack("HHHH", rows, cols, xpx, ypx))
            res = fn()
            data = json.dumps({"ok": res}, default=repr)
        except BaseException as e:  # noqa
            import traceback as tb

            data = json.dumps({"exc": type(e).__name__, "msg": str(e)[:800], "tb": tb.format_exc()[-1500:]})
        try:
            b = data.encode()
            while b:
                n = os.write(w, b)
                b = b[n:]
        finally:
            os._exit(0)
    os.close(w)
    buf = b""
    tty_out = b""
    deadline = time.time() + timeout
    if feed:
        os.write(master, feed)
    fds = [r, master]
    while r in fds:
        left = deadline - time.time()
        if left <= 0:
            break
        rd, _, _ = select.select(fds, [], [], min(left, 1.0))
        for fd in rd:
            try:
                chunk = os.read(fd, 65536)
            except OSError:
                chunk = b""
            if fd == r:
                if not chunk:
                    fds.remove(r)
                buf += chunk
            else:
                if not chunk:
                    if master in fds:
                        fds.remove(master)
                tty_out += chunk
    try:
        os.kill(pid, 9)
    except OSError:
        pass
    try:
        os.waitpid(pid, 0)
    except OSError:
        pass
    os.close(r)
    try:
        os.close(master)
    except OSError:
        pass
    if not buf:
        return {"exc": "Timeout", "msg": "no result from pty child", "tty": tty_out[-200:].hex()}
    res = json.loads(buf.decode())
    res["tty"] = tty_out
    return res


class RecStream:
    """A binary stream that records every write separately; has a usable fileno (/dev/null)."""

    def __init__(self):
        self.writes = []
        self.flushes = 0
        self._null = open(os.devnull, "wb")

    def write(self, b):
        self.writes.append(bytes(b))
        return len(b)

    def flush(self):
        self.flushes += 1

    def fileno(self):
        return self._null.fileno()

    def getvalue(self):
        return b"".join(self.writes)

    # the rest of the binary-stream interface, as an ordinary file object has it (code under test may use any of it)
    def writelines(self, lines):
        for line in lines:
            self.write(line)

    def isatty(self):
        return False

    def writable(self):
        return True

    def readable(self):
        return False

    def seekable(self):
        return False

    closed = False

    def close(self):
        pass
