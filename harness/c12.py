"""C12 — a process killed mid-operation leaves the session database consistent and usable.

Model: Model/SqlTxn.v with Kill events (the private view and the lock of the dead process are gone, the committed
database is untouched); theorems in Props/C12.v.  Tie: harness/gen_txnshape.py (every write operation is ONE sqlite
transaction or ONE statement; table definitions with NOT NULL columns and keys; no destructive statement).

Correspondence = FAULT ENUMERATION on real database files with real SIGKILL:
 for every operation kind x fill state (empty / half / full enumerable subspace, large subspace with forced
 collisions so that the clean-up ladder runs, hits, re-uploads, unassigned ids, ...) the operation is first run
 uninterrupted in a forked child to learn its statement stream; then, for EVERY statement and commit k, a fresh
 copy of the database is given to a forked child that kills itself with SIGKILL right before k (and once more
 after the last one).  The parent then
   - reopens the file with a fresh IDManager (must open normally; PRAGMA integrity_check = ok; 17 schema objects),
   - dumps all tables and compares them with the extracted model run on the same events followed by Kill,
   - ORACLE, independent of the model: the dump equals the dump before the operation or the dump after the
     uninterrupted operation (all or nothing); every row sits in the table of its own space (byte layout computed
     here), has a description and a timestamp; every upload row has all five fields,
   - lets ANOTHER process allocate an id: it must succeed within 2 s.
 The constructor is killed before each of its 19 statements on a fresh file (and on a half-built one); a second
 process then opens the file normally.  A process blocked on BEGIN IMMEDIATE behind a holder that is then killed
 must proceed promptly (it does not wait for the dead one)."""
import json
import os
import select
import shutil
import signal
import sqlite3 as _sqlite3
import time

import common
import txn_common as tc
from c03 import Clk, member_ids, spaces
from c04 import Tokens

GEN_DEPS = ("gen_txnshape", "gen_idmanager", "gen_idspace")
EXTRA_PROPS = ()
ASSUMPTIONS = [
    "sqlite: atomic commit and WAL recovery (a transaction that did not commit leaves no trace; a committed one is durable against SIGKILL), file locks of a dead process are released by the OS — exercised at every kill point, not proved",
    "SIGKILL of the process (no power loss, no file-system failure, synchronous settings unchanged)",
]
TRUSTED = ["harness/txn_common.py: mapping of the statement stream to model events; harness/c12.py: kill by SIGKILL from inside the child right before the k-th statement/commit"]

STRS = ["X", "Y", "Z", "A", "B", "T1", "T2", "other"] + [f"old{i}" for i in range(300)] + [f"img{i}" for i in range(4)]


def table_of(id_):
    """the space of an id by its byte layout -> (color_bits, third_diacritic)"""
    hi = (id_ >> 24) & 255
    low = id_ & 0xFFFFFF
    cb = 0 if low == 0 else (8 if low < 256 else 24)
    return (cb, hi != 0)


def well_formed(path, idm):
    """independent of the library: every row in its own table, with description and timestamp; upload rows complete"""
    bad = []
    conn = _sqlite3.connect(path)
    try:
        for sp in idm.IDSpace.all_values():
            for id_, desc, at in conn.execute(f"SELECT id, description, atime FROM {sp.namespace_name()}"):
                if table_of(id_) != (sp.color_bits, sp.use_3rd_diacritic) or not (0 < id_ < 2**32):
                    bad.append(f"id {id_} in table {sp.namespace_name()}")
                if desc is None or at is None:
                    bad.append(f"id {id_}: description/atime missing")
        for row in conn.execute("SELECT id, terminal, description, size, upload_time FROM upload"):
            if any(x is None for x in row):
                bad.append(f"incomplete upload row {row}")
    finally:
        conn.close()
    return bad


# ------------------------------------------------------------------------------ children
def _child(fn, timeout=30):
    """run fn() in a forked child; returns (exit status, json payload or None)"""
    r, w = os.pipe()
    pid = os.fork()
    if pid == 0:
        code = 0
        try:
            os.close(r)
            out = fn()
            os.write(w, json.dumps(out).encode())
        except BaseException as e:  # noqa: BLE001
            try:
                os.write(w, json.dumps({"exc": f"{type(e).__name__}: {e}"}).encode())
            except OSError:
                pass
            code = 3
        finally:
            os._exit(code)
    os.close(w)
    buf = b""
    deadline = time.time() + timeout
    while True:
        left = deadline - time.time()
        if left <= 0:
            os.kill(pid, signal.SIGKILL)
            break
        rd, _, _ = select.select([r], [], [], left)
        if rd:
            chunk = os.read(r, 65536)
            if not chunk:
                break
            buf += chunk
    os.close(r)
    _, status = os.waitpid(pid, 0)
    payload = None
    if buf:
        try:
            payload = json.loads(buf.decode())
        except ValueError:
            payload = {"exc": "unparsable child output"}
    return status, payload


def run_in_child(idm, path, op, toks, kill_at, max_ids, seed, open_only=False):
    """the child opens the database and runs the operation; it SIGKILLs itself before scheduling point kill_at"""

    def body():
        counter = {"n": 0}

        def on_point(ag, info):
            if counter["n"] == kill_at:
                os.kill(os.getpid(), signal.SIGKILL)
                time.sleep(10)
            counter["n"] += 1

        ag = tc.Agent(0, seed, on_point)
        tc._tls.agent = ag
        ag.op_kind = "open"
        ag.free_run = not open_only
        mgr = idm.IDManager(path, max_ids_per_subspace=max_ids)
        ag.free_run = False
        res, samples = None, []
        if not open_only:
            ag.begin_op(0, op["k"], tc.op_now(op), op.get("collide", 0.0), op.get("collide_first", 0))
            res = tc.run_op(idm, mgr, op, toks)
            samples = list(ag.samples)
        if counter["n"] == kill_at:         # after the last statement, before close
            os.kill(os.getpid(), signal.SIGKILL)
            time.sleep(10)
        mgr.close()
        pts = [dict(kind=t["kind"], event=t["event"], extra_body=t["extra_body"], sql=t["sql"][:50]) for t in ag.trace
               if t["kind"] != "diagnostic" and not (t["kind"] == "pragma" and "BUSY_TIMEOUT" in t["sql"].upper()) and (open_only or t["op"] == 0)]
        return {"result": res, "samples": samples, "points": pts}

    return _child(body)


def other_process_allocates(idm, path, max_ids):
    def body():
        tc._tls.agent = None
        t = time.time()
        m = idm.IDManager(path, max_ids_per_subspace=max_ids)
        id_ = m.get_id("after-the-crash", idm.IDSpace(24, True), subspace=idm.IDSubspace(0, 256))
        m.del_id(id_)
        m.close()
        return {"id": id_, "wall": time.time() - t}

    t0 = time.time()
    status, out = _child(body, timeout=10)
    return status, out, time.time() - t0


# ------------------------------------------------------------------------------ cases
def cases(ctx, idm):
    rng = ctx.rng
    sps = spaces(idm)
    Sub = idm.IDSubspace
    out = []

    def mk(name, init, op, max_ids=1024):
        out.append({"name": name, "init": init, "op": op, "max_ids": max_ids})

    for rep in range(ctx.pick(1, 6)):
        clk = Clk(rng)
        b = rng.randrange(1, 250)
        sp = rng.choice([sps["8"], sps["8d"]])
        sub = rng.choice([Sub(b, b + 2), Sub(b, b + 3), Sub(0, 3)])
        size = sp.subspace_size(sub)

        def fill(sp_, sub_, n):
            return [{"k": "set", "id": i, "desc": f"old{j}", "t": clk.next()} for j, i in enumerate(member_ids(idm, sp_, sub_, n, rng))]

        def get(desc, sp_, sub_, mx=1024, collide=0.0, collide_first=0):
            return {"k": "get", "desc": desc, "sp": sp_, "sub": sub_, "now": clk.next(), "mx": mx, "collide": collide, "collide_first": collide_first}

        mk("get/small-empty", [], get("X", sp, sub))
        mk("get/small-half", fill(sp, sub, max(1, size // 2)), get("X", sp, sub))
        mk("get/small-full-recycles", fill(sp, sub, size), get("X", sp, sub))
        f = fill(sp, sub, size)
        mk("get/hit", f, get("old0", sp, sub))
        big_sp, big_sub = rng.choice([(sps["32"], Sub(0, 256)), (sps["24"], Sub(3, 9))])
        mk("get/large-first-sample", fill(big_sp, big_sub, 3), get("X", big_sp, big_sub))
        n_big = rng.choice([40, 120])
        mk("get/large-collisions-cleanup", fill(sps["8"], Sub(0, 256), n_big), get("X", sps["8"], Sub(0, 256), mx=16, collide=rng.choice([0.9, 0.97])), max_ids=16)
        mk("get/large-one-cleanup-then-insert", fill(sps["8"], Sub(0, 256), rng.choice([60, 255])), get("X", sps["8"], Sub(0, 256), mx=16, collide_first=8), max_ids=16)
        mk("get/large-two-cleanups-then-insert", fill(sps["16"], Sub(5, 6), rng.choice([100, 255])), get("X", sps["16"], Sub(5, 6), mx=64, collide_first=16), max_ids=64)
        mk("get/large-all-collide-fails", fill(sps["16"], Sub(7, 8), 60), get("X", sps["16"], Sub(7, 8), mx=8, collide=1.0), max_ids=8)
        f = fill(sp, sub, 2 if size >= 2 else 1)
        mk("set/new", f, {"k": "set", "id": member_ids(idm, sps["24"], Sub(0, 256), 1, rng)[0], "desc": "Y", "t": clk.next()})
        mk("set/existing", f, {"k": "set", "id": f[0]["id"], "desc": "Y", "t": clk.next()})
        mk("del/existing", f, {"k": "del", "id": f[0]["id"]})
        mk("del/missing", f, {"k": "del", "id": 77})
        f5 = fill(sps["8"], Sub(0, 256), 6)
        mk("cleanup/drops", f5, {"k": "cleanup", "sp": sps["8"], "sub": Sub(0, 256), "mx": rng.choice([0, 2, 3])})
        marks = [{"k": "mark", "id": f5[i]["id"], "term": rng.choice(["T1", "T2"]), "size": 5 + i, "time": clk.next(), "desc": None} for i in range(3)]
        mk("mark/first", f5, {"k": "mark", "id": f5[4]["id"], "term": "T1", "size": 9, "time": clk.next(), "desc": None})
        mk("mark/re-upload", f5 + marks, {"k": "mark", "id": marks[0]["id"], "term": marks[0]["term"], "size": 99, "time": clk.next(), "desc": None})
        mk("mark/re-upload-explicit-description", f5 + marks, {"k": "mark", "id": marks[1]["id"], "term": marks[1]["term"], "size": 98, "time": clk.next(), "desc": "other"})
        mk("mark/unassigned-id", f5, {"k": "mark", "id": 99, "term": "T1", "size": 9, "time": clk.next(), "desc": None})
        mk("unmark", f5 + marks, {"k": "unmark", "id": marks[0]["id"], "term": marks[0]["term"]})
        mk("cleanup_uploads", f5 + marks, {"k": "cleanuploads", "n": rng.choice([0, 1, 2])})
        if rep == 0:
            # a backlog far above the limit (hundreds of stale records): still one atomic step
            backlog = [{"k": "mark", "id": f5[j % 6]["id"], "term": f"B{j // 6}", "size": 1 + j % 7, "time": clk.next(), "desc": None} for j in range(6 * rng.choice([88, 95, 180]))]
            mk("cleanup_uploads/backlog", f5 + backlog, {"k": "cleanuploads", "n": rng.choice([0, 1, 2, 20])})
        mk("needs", f5 + marks, {"k": "needs", "id": marks[0]["id"], "term": marks[0]["term"], "now": clk.next(), "nmax": 2, "bmax": 50, "tmax": 3600 * 10**6})
        mk("upinfo", f5 + marks, {"k": "upinfo", "id": marks[0]["id"], "term": marks[0]["term"]})
        mk("countall", f5, {"k": "countall", "sub": Sub(0, 256)})
    return out


def describe(c):
    return {"name": c["name"], "max_ids": c["max_ids"], "init": [tc.describe_op(o) for o in c["init"]], "op": tc.describe_op(c["op"])}


def revive(idm, d):
    return {"name": d["name"], "max_ids": d["max_ids"], "init": [tc.revive_op(idm, o) for o in d["init"]], "op": tc.revive_op(idm, d["op"])}


def events_of(points):
    ev = []
    for p in points:
        if p["extra_body"]:
            ev.append("0")
        if p["event"]:
            ev.append("0")
    return ev


def copy_db(src, dst):
    for ext in ("", "-wal", "-shm"):
        if os.path.exists(dst + ext):
            os.remove(dst + ext)
    shutil.copy(src, dst)


def one_case(ctx, idm, c, idx, cov, only_k=None):
    """returns list of (request for the model, judge-closure)"""
    toks = Tokens()
    for s in STRS:
        toks.tok(s)
    work = ctx.work
    base = os.path.join(work, f"c12-base-{idx}.db")
    for ext in ("", "-wal", "-shm"):
        if os.path.exists(base + ext):
            os.remove(base + ext)
    mgr = idm.IDManager(base, max_ids_per_subspace=c["max_ids"])
    for o in c["init"]:
        r = tc.run_op(idm, mgr, o, toks)
        assert r == "OK", (o, r)
    mgr.conn.execute("PRAGMA wal_checkpoint(TRUNCATE)")
    mgr.close()
    pre = tc.dump_store(base, idm, toks)
    seed = ctx.seed * 31 + idx
    path = os.path.join(work, f"c12-run-{idx}.db")
    copy_db(base, path)
    status, full = run_in_child(idm, path, c["op"], toks, -1, c["max_ids"], seed)
    case0 = {"case": describe(c)}
    if status != 0 or not full or "exc" in full:
        ctx.corr_breaks.append({"what": "the uninterrupted run of the operation failed in the child", "status": status, "out": full, "case": case0})
        return []
    post = tc.dump_store(path, idm, toks)
    pts = full["points"]
    call = tc.call_string(c["op"], full["result"], full["samples"], toks)
    todo = []
    ks = range(len(pts) + 1) if only_k is None else [only_k]
    for k in ks:
        copy_db(base, path)
        status, out = run_in_child(idm, path, c["op"], toks, k, c["max_ids"], seed)
        killed = os.WIFSIGNALED(status) and os.WTERMSIG(status) == signal.SIGKILL
        case = {"case": describe(c), "kill_before": k, "statement": pts[k]["sql"] if k < len(pts) else "<after the last statement>"}
        if not killed:
            ctx.corr_breaks.append({"what": f"the child was not killed at point {k} (status {status}): the statement stream is not deterministic", "case": case, "out": out})
            continue
        # ---- reopen normally
        problems = []
        try:
            m2 = idm.IDManager(path, max_ids_per_subspace=c["max_ids"])
            m2.close()
        except Exception as e:  # noqa: BLE001
            problems.append(("does-not-reopen", f"reopening after the kill failed: {type(e).__name__}: {e}"))
        try:
            ic = tc.integrity(path)
            if ic != "ok":
                problems.append(("integrity-check", f"PRAGMA integrity_check: {ic}"))
            if len(tc.schema_objects(path)) != 17:
                problems.append(("schema-incomplete", f"{len(tc.schema_objects(path))} schema objects"))
            got = tc.dump_store(path, idm, toks)
            wf = well_formed(path, idm)
        except Exception as e:  # noqa: BLE001
            problems.append(("does-not-reopen", f"reading the database after the kill failed: {type(e).__name__}: {e}"))
            got, wf = None, []
        for w in wf:
            problems.append(("row-malformed", w))
        if got is not None and got not in (pre, post):
            problems.append(("partial-effect", f"after a kill before statement {k} ({case['statement']}) the database is neither the one before nor the one after the operation"))
        st2, out2, wall2 = other_process_allocates(idm, path, c["max_ids"])
        if st2 != 0 or not out2 or "exc" in (out2 or {}) or wall2 > 2.0:
            problems.append(("others-cannot-continue", f"another process could not allocate an id promptly after the kill: status {st2}, {out2}, {wall2:.2f}s"))
        for cls, what in problems:
            ctx.violations.append({"signature": {"class": cls, "op": c["name"]}, "what": f"{c['name']}: {what}", "case": case,
                                   "observed": {"pre": pre, "post": post, "after_kill": got}})
        evs = events_of(pts[:k]) + ["x0"]
        req = f"txn.run src {pre} {call} {','.join(evs)}"
        todo.append((req, got, case, c, k, len(pts)))
        cov.add({"case": c["name"], "k": k, "pre": pre, "call": call}, klass=f"{c['name']}/" + ("before-first" if k == 0 else "after-last" if k == len(pts) else pts[k]["kind"]))
    return todo


def constructor_kills(ctx, idm, cov):
    toks = Tokens()
    work = ctx.work
    path = os.path.join(work, "c12-open.db")
    # learn the constructor's statement stream
    for ext in ("", "-wal", "-shm"):
        if os.path.exists(path + ext):
            os.remove(path + ext)
    status, full = run_in_child(idm, path, None, toks, -1, 1024, 1, open_only=True)
    if status != 0 or not full or "exc" in full:
        ctx.corr_breaks.append({"what": "constructor run failed in the child", "out": full})
        return []
    pts = full["points"]
    reqs = []
    for k in range(len(pts) + 1):
        for ext in ("", "-wal", "-shm"):
            if os.path.exists(path + ext):
                os.remove(path + ext)
        status, out = run_in_child(idm, path, None, toks, k, 1024, 1, open_only=True)
        case = {"case": {"name": "constructor"}, "kill_before": k, "statement": pts[k]["sql"] if k < len(pts) else "<after the last statement>"}
        if not (os.WIFSIGNALED(status) and os.WTERMSIG(status) == signal.SIGKILL):
            ctx.corr_breaks.append({"what": f"constructor child not killed at point {k}", "case": case})
            continue
        n_before = len(tc.schema_objects(path)) if os.path.exists(path) else 0
        st2, out2, wall2 = other_process_allocates(idm, path, 1024)
        n_after = len(tc.schema_objects(path))
        if st2 != 0 or not out2 or "exc" in (out2 or {}) or wall2 > 2.0 or n_after != 17:
            ctx.violations.append({"signature": {"class": "does-not-reopen", "op": "constructor"},
                                   "what": f"after a constructor killed before statement {k} ({case['statement']}) a second process could not open and use the database: status {st2}, {out2}, {wall2:.2f}s, {n_after} schema objects", "case": case})
        n_created = sum(1 for p in pts[:k] if p["kind"] == "create")
        if n_before != n_created:
            ctx.corr_breaks.append({"what": f"constructor killed before statement {k}: {n_before} schema objects exist, the model's opener has created {n_created}", "case": case})
        evs = ["0"] * n_created + ["x0"] + ["1"] * 17
        reqs.append((f"txn.open - 2 {','.join(evs)}", case))
        cov.add({"constructor-kill": k}, klass="constructor/" + (pts[k]["kind"] if k < len(pts) else "after-last"))
    return reqs


def waiter_proceeds(ctx, idm, cov):
    """B blocks on BEGIN IMMEDIATE behind A; A is killed inside its transaction; B must proceed promptly"""
    toks = Tokens()
    path = os.path.join(ctx.work, "c12-wait.db")
    for ext in ("", "-wal", "-shm"):
        if os.path.exists(path + ext):
            os.remove(path + ext)
    m = idm.IDManager(path)
    m.close()
    sp, sub = idm.IDSpace(8, False), idm.IDSubspace(3, 9)
    for kill_point in (1, 2, 3):
        ra, wa = os.pipe()
        pid_a = os.fork()
        if pid_a == 0:
            try:
                os.close(ra)
                cnt = {"n": 0}

                def on_point(ag, info):
                    if cnt["n"] == kill_point:
                        os.write(wa, b"x")
                        time.sleep(60)
                    cnt["n"] += 1

                ag = tc.Agent(0, 5, on_point)
                tc._tls.agent = ag
                ag.free_run = True
                ma = idm.IDManager(path)
                ag.free_run = False
                ag.begin_op(0, "get", 1000 + kill_point)
                ma.get_id(f"A{kill_point}", sp, subspace=sub)
            finally:
                os._exit(0)
        os.close(wa)
        rd, _, _ = select.select([ra], [], [], 10)
        os.close(ra)
        if not rd:
            os.kill(pid_a, signal.SIGKILL)
            os.waitpid(pid_a, 0)
            ctx.corr_breaks.append({"what": "holder child did not reach its transaction"})
            continue

        def body_b():
            tc._tls.agent = None
            t = time.time()
            mb = idm.IDManager(path)
            id_ = mb.get_id(f"B{kill_point}", sp, subspace=sub)
            mb.close()
            return {"id": id_, "wall": time.time() - t}

        rb, wb = os.pipe()
        pid_b = os.fork()
        if pid_b == 0:
            try:
                os.close(rb)
                os.write(wb, json.dumps(body_b()).encode())
            except BaseException as e:  # noqa: BLE001
                os.write(wb, json.dumps({"exc": f"{type(e).__name__}: {e}"}).encode())
            finally:
                os._exit(0)
        os.close(wb)
        early, _, _ = select.select([rb], [], [], 0.3)
        t_kill = time.time()
        os.kill(pid_a, signal.SIGKILL)
        os.waitpid(pid_a, 0)
        rd, _, _ = select.select([rb], [], [], 10)
        waited = time.time() - t_kill
        data = os.read(rb, 65536) if rd else b""
        os.close(rb)
        if not rd:
            os.kill(pid_b, signal.SIGKILL)
        os.waitpid(pid_b, 0)
        out = json.loads(data.decode()) if data else None
        case = {"case": {"name": "waiter-behind-killed-holder"}, "holder_killed_at_point": kill_point}
        if kill_point >= 1 and early:
            ctx.corr_breaks.append({"what": "a second writer was not blocked by a holder inside BEGIN IMMEDIATE", "case": case, "out": out})
        if not out or "exc" in out or waited > 2.0:
            ctx.violations.append({"signature": {"class": "others-cannot-continue", "op": "waiter-behind-killed-holder"},
                                   "what": f"a process blocked behind a holder that was killed inside its transaction did not proceed promptly: waited {waited:.2f}s, {out}", "case": case})
        rows = _sqlite3.connect(path).execute("SELECT description FROM ids_8bit").fetchall()
        if any(r[0].startswith("A") for r in rows):
            ctx.violations.append({"signature": {"class": "partial-effect", "op": "waiter-behind-killed-holder"}, "what": f"the killed holder's uncommitted row is visible: {rows}", "case": case})
        cov.add(case, klass="waiter-behind-killed-holder")


# ------------------------------------------------------------------------------ the high-level requests
def highlevel_kills(ctx, cov):
    """TupimageTerminal.assign_id(image) (allocating) and assign_id(image, force_id=X) (force-setting) — the requests a user
    makes — killed before every SQL statement they execute.  Each is ONE operation of the property: the reopened database is
    the one before the request or the one after it, nothing in between.  Runs inside a pty (TupimageTerminal needs a tty);
    the killed process is a grandchild."""
    work = ctx.work
    seed = ctx.rng.randrange(2**30)

    def in_sandbox():
        common.scrub_process_env()
        os.environ["HOME"] = work
        os.environ["XDG_STATE_HOME"] = os.path.join(work, "state")
        os.environ["XDG_CONFIG_HOME"] = os.path.join(work, "config")
        import tupimage
        import tupimage.id_manager as idm_
        from PIL import Image
        from c04 import Tokens
        undo = tc.install(idm_)
        out = []
        try:
            imgs = []
            for i, col in enumerate([(200, 10, 10), (10, 200, 10), (10, 10, 200), (9, 9, 9), (8, 8, 8), (7, 7, 7), (6, 6, 6), (5, 5, 5), (4, 4, 4)]):
                p = os.path.join(work, f"c12-hl-{i}.png")
                Image.new("RGB", (5 + i, 4), col).save(p)
                os.utime(p, ns=(1_700_000_000_000_000_000, 1_700_000_000_000_000_000))
                imgs.append(p)
            X = 13

            extra = {}

            def mk_term(path):
                return tupimage.TupimageTerminal(out_command=common.RecStream(), out_display=common.RecStream(), in_response=open("/dev/tty", "rb", buffering=0),
                                                 id_database=path, terminal_id="hl-term", session_id="hl", config="DEFAULT", id_space="8bit", id_subspace="10:20",
                                                 redetect_terminal=False, **extra)

            scenarios = [
                ("assign_id/new", [], lambda t: t.assign_id(imgs[0], cols=2, rows=1)),
                ("assign_id/hit", [("assign", 0)], lambda t: t.assign_id(imgs[0], cols=2, rows=1)),
                ("force_id/free-id", [], lambda t: t.assign_id(imgs[1], cols=2, rows=1, force_id=X)),
                ("force_id/id-holds-another-image", [("force", 0)], lambda t: t.assign_id(imgs[1], cols=2, rows=1, force_id=X)),
                ("force_id/id-holds-another-image-uploaded-to-two-terminals", [("force", 0), ("mark", "T1"), ("mark", "T2")], lambda t: t.assign_id(imgs[1], cols=2, rows=1, force_id=X)),
                ("force_id/same-image-again", [("force", 1), ("mark", "T1")], lambda t: t.assign_id(imgs[1], cols=2, rows=1, force_id=X)),
                # a subspace holding more ids than max_ids_per_subspace (the limit was lowered, or ids were force-set): whatever
                # the request evicts, it evicts in the same step in which it allocates
                ("assign_id/subspace-over-its-limit", [("assign", i) for i in range(1, 8)], lambda t: t.assign_id(imgs[0], cols=2, rows=1), {"max_ids_per_subspace": 4}),
                ("assign_id/subspace-at-its-limit", [("assign", i) for i in range(1, 5)], lambda t: t.assign_id(imgs[0], cols=2, rows=1), {"max_ids_per_subspace": 4}),
            ]
            for sc in scenarios:
                name, init, request = sc[:3]
                extra.clear()
                extra.update(sc[3] if len(sc) > 3 else {})
                def prepare(path):
                    for suffix in ("", "-wal", "-shm"):
                        try:
                            os.remove(path + suffix)
                        except OSError:
                            pass
                    ag0 = tc.Agent(0, seed + 1, None)       # the same random draws in every preparation
                    ag0.free_run = True
                    tc._tls.agent = ag0
                    t = mk_term(path)
                    for what, arg in init:
                        if what == "assign":
                            t.assign_id(imgs[arg], cols=2, rows=1)
                        elif what == "force":
                            t.assign_id(imgs[arg], cols=2, rows=1, force_id=X)
                        else:
                            t.id_manager.mark_uploaded(X, arg, size=123)
                    t.id_manager.close()

                def dump(path):
                    toks = Tokens()
                    conn = tc._real_sqlite3.connect(path)
                    try:
                        rows = []
                        for sp in idm_.IDSpace.all_values():
                            rows += [("ids", sp.namespace_name(), r[0], r[1]) for r in conn.execute(f"SELECT id, description FROM {sp.namespace_name()} ORDER BY id")]
                        rows += [("up",) + tuple(r) for r in conn.execute("SELECT id, terminal, description, size FROM upload ORDER BY id, terminal")]
                        return rows
                    finally:
                        conn.close()

                def run(path, kill_at):
                    def body():
                        counter = {"n": 0}

                        def on_point(ag, info):
                            if counter["n"] == kill_at:
                                os.kill(os.getpid(), signal.SIGKILL)
                                time.sleep(10)
                            counter["n"] += 1
                        ag = tc.Agent(0, seed, on_point)
                        tc._tls.agent = ag
                        ag.op_kind = "open"
                        ag.free_run = True
                        t = mk_term(path)
                        ag.free_run = False
                        ag.begin_op(0, "hl", 0)
                        request(t)
                        return {"points": counter["n"]}
                    return _child(body)

                base = os.path.join(work, "c12-hl.db")
                prepare(base)
                before = dump(base)
                status, payload = run(base, None)
                if payload is None or "points" not in payload:
                    out.append({"name": name, "error": f"uninterrupted run failed: {status} {payload}"})
                    continue
                after = dump(base)
                n = payload["points"]
                bad = []
                for k in range(n + 1):
                    prepare(base)
                    status, _ = run(base, k)
                    try:
                        got = dump(base)
                    except Exception as e:  # noqa
                        bad.append({"kill_before": k, "what": f"the database does not open: {e}"})
                        continue
                    if got != before and got != after:
                        bad.append({"kill_before": k, "what": "partial effect", "missing_vs_before": [r for r in before if r not in got][:4], "missing_vs_after": [r for r in after if r not in got][:4]})
                out.append({"name": name, "points": n, "bad": bad, "changed": before != after})
        finally:
            undo()
        return out

    r = common.in_pty(in_sandbox, timeout=600)
    if "ok" not in r:
        ctx.corr_breaks.append({"what": "high-level kill enumeration failed in the pty sandbox", "error": {k: v for k, v in r.items() if k != "tty"}})
        return
    for rec in r["ok"]:
        if rec.get("error"):
            ctx.corr_breaks.append({"what": "high-level kill enumeration: " + rec["error"], "case": {"name": rec["name"]}})
            continue
        for k in range(rec["points"] + 1):
            cov.add({"request": rec["name"], "kill_before": k}, klass="highlevel/" + rec["name"].split("/")[0])
        for b in rec["bad"][:2]:
            ctx.violations.append({"signature": {"class": "partial-effect", "op": "highlevel:" + rec["name"]},
                                   "what": f"TupimageTerminal {rec['name']}: after a kill before its statement {b['kill_before']} of {rec['points']} the database is neither the one before nor the one after the request ({b['what']}; "
                                           f"rows of the old state missing: {b.get('missing_vs_before')}; rows of the new state missing: {b.get('missing_vs_after')})",
                                   "case": {"case": {"name": "highlevel"}, "request": rec["name"], "kill_before": b["kill_before"]}})


def run(ctx, model):
    cov = common.Coverage("case = one operation on one prepared database killed (SIGKILL) before one statement/commit, or the constructor killed before one of its statements, or a waiter behind a killed lock holder; non-trivial = all; each judged by reopen / integrity / all-or-nothing / row well-formedness / another-process-continues and compared with the model's Kill semantics")
    if model is None:
        return cov
    tup = common.import_impl()
    idm = tup.id_manager
    undo = tc.install(idm)
    todo, oreqs = [], []
    try:
        for idx, c in enumerate(cases(ctx, idm)):
            todo += one_case(ctx, idm, c, idx, cov)
        oreqs = constructor_kills(ctx, idm, cov)
        waiter_proceeds(ctx, idm, cov)
    finally:
        undo()
    highlevel_kills(ctx, cov)
    replies = model.batch([t[0] for t in todo] + [r for r, _ in oreqs])
    for (req, got, case, c, k, n), rep in zip(todo, replies):
        if rep.startswith("ERR"):
            ctx.corr_breaks.append({"what": "model run failed", "reply": rep[:200], "case": case})
            continue
        m_store = rep.split(" # ")[0].strip()
        if got is not None and m_store != got:
            ctx.corr_breaks.append({"what": f"model and implementation differ after a kill before statement {k}/{n}", "case": case, "impl": got, "model": m_store})
    for (req, case), rep in zip(oreqs, replies[len(todo):]):
        if not rep.startswith("1 "):
            ctx.corr_breaks.append({"what": "model: a second opener after a killed one does not complete the schema", "case": case, "model": rep})
    cov.bump("kill-points", len(todo))
    return cov


def replay(ctx, model, rec):
    case = rec["case"]
    tup = common.import_impl()
    idm = tup.id_manager
    if case["case"].get("name") == "highlevel":
        before = len(ctx.violations)
        highlevel_kills(ctx, common.Coverage("replay"))
        new = ctx.violations[before:]
        del ctx.violations[before:]
        return {"violates": bool(new), "found": [v["what"][:200] for v in new]}
    if case["case"].get("name") in ("constructor", "waiter-behind-killed-holder"):
        undo = tc.install(idm)
        before = len(ctx.violations)
        try:
            if case["case"]["name"] == "constructor":
                constructor_kills(ctx, idm, common.Coverage("replay"))
            else:
                waiter_proceeds(ctx, idm, common.Coverage("replay"))
        finally:
            undo()
        new = ctx.violations[before:]
        del ctx.violations[before:]
        return {"violates": bool(new), "found": [v["what"][:200] for v in new]}
    c = revive(idm, case["case"])
    undo = tc.install(idm)
    before = len(ctx.violations)
    try:
        one_case(ctx, idm, c, 424242, common.Coverage("replay"), only_k=case["kill_before"])
    finally:
        undo()
    new = ctx.violations[before:]
    del ctx.violations[before:]
    want = rec.get("signature", {}).get("class")
    hit = [v for v in new if want is None or v["signature"].get("class") == want]
    return {"violates": bool(hit), "found": [v["what"][:300] for v in new], "observed": new[0].get("observed") if new else None}
