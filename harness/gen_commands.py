"""Extractor plug-in: graphics_command.py -> coq/Gen/CommandGen.v
Key tables of every header_to_tuple, enum value tables, budget constants of send(); the control
flow around them is compared structurally (fail-closed)."""
import ast
import os

from gen_tables import (HEADER, ExtractError, body_nodoc, coq_bytes, coq_list, dump_eq, expect, extractor, find_assign,
                        find_class, find_func, parse)


def match_holes(node, pattern_src, what):
    """Structural match of `node` against the AST of pattern_src, in which names HOLE_<x> match any
    subtree; returns {x: subtree}."""
    pat = ast.parse(pattern_src).body[0]
    if isinstance(pat, ast.Expr) and not isinstance(node, ast.Expr):
        pat = pat.value
    holes = {}

    def go(a, p):
        if isinstance(p, ast.Name) and p.id.startswith("HOLE_"):
            holes[p.id[5:]] = a
            return True
        if type(a) is not type(p):
            return False
        if isinstance(a, ast.AST):
            for f in a._fields:
                if not go(getattr(a, f, None), getattr(p, f, None)):
                    return False
            return True
        if isinstance(a, list):
            return len(a) == len(p) and all(go(x, y) for x, y in zip(a, p))
        return a == p

    expect(go(node, pat), f"{what}: shape changed\n   now: {ast.unparse(node)[:400]}\n   pattern: {pattern_src[:400]}")
    return holes


def func_src_eq(cls, name, expected_src, what=None):
    fn = find_func(cls, name)
    exp = ast.parse(expected_src).body[0]
    got = ast.Module(body=body_nodoc(fn), type_ignores=[])
    want = ast.Module(body=body_nodoc(exp), type_ignores=[])
    expect(ast.dump(got) == ast.dump(want), f"{what or cls.name + '.' + name}: body changed\n   now:\n{ast.unparse(got)[:800]}")
    # arguments (names and defaults) too
    expect(ast.dump(fn.args) == ast.dump(exp.args), f"{what or cls.name + '.' + name}: signature changed")


def tuple_table(node, what):
    """((b"k", expr), ...) -> [(k_byte, expr_node)]"""
    expect(isinstance(node, ast.Tuple), f"{what}: expected a tuple literal")
    res = []
    for e in node.elts:
        expect(isinstance(e, ast.Tuple) and len(e.elts) == 2, f"{what}: entry shape")
        k = e.elts[0]
        expect(isinstance(k, ast.Constant) and isinstance(k.value, bytes) and len(k.value) == 1, f"{what}: key must be a 1-byte literal")
        res.append((k.value[0], e.elts[1]))
    return res


def self_attr(node, what):
    expect(isinstance(node, ast.Attribute) and isinstance(node.value, ast.Name) and node.value.id == "self", f"{what}: expected self.<field>, got {ast.unparse(node)}")
    return node.attr


ENUMS = {
    "Quietness": ("quietness", {"VERBOSE": "QVerbose", "QUIET_UNLESS_ERROR": "QUnlessError", "QUIET_ALWAYS": "QAlways"}),
    "Format": ("format", {"RGB": "FRgb", "RGBA": "FRgba", "PNG": "FPng"}),
    "TransmissionMedium": ("medium", {"DIRECT": "MDirect", "FILE": "MFile", "TEMP_FILE": "MTemp", "SHARED_MEMORY": "MShm"}),
    "Compression": ("compression", {"ZLIB": "CZlib"}),
    "WhatToDelete": ("what_delete", {
        "VISIBLE_PLACEMENTS": "WVisible", "IMAGE_OR_PLACEMENT_BY_ID": "WById", "IMAGE_OR_PLACEMENT_BY_NUMBER": "WByNumber",
        "PLACEMENTS_UNDER_CURSOR": "WUnderCursor", "ANIMATION_FRAMES": "WFrames", "PLACEMENTS_AT_POSITION": "WAtPos",
        "PLACEMENTS_AT_POSITION_AND_ZINDEX": "WAtPosZ", "PLACEMENTS_AT_COLUMN": "WAtCol", "PLACEMENTS_AT_ROW": "WAtRow",
        "PLACEMENTS_AT_ZINDEX": "WAtZ"}),
}

PFIELDS = {"placement_id", "virtual", "rows", "cols", "src_x", "src_y", "src_w", "src_h", "do_not_move_cursor"}
TFIELDS = {"image_id", "image_number", "medium", "size", "offset", "quiet", "more", "format", "compression", "pix_width", "pix_height"}


@extractor
def gen_commands(repo, out):
    gc = parse(repo, "tupimage/graphics_command.py")
    t = HEADER + "From Tup Require Import Lib.CommandTypes.\n\n"

    # ---- enums
    for pyname, (coqty, members) in ENUMS.items():
        cls = find_class(gc, pyname)
        vals = {}
        for n in cls.body:
            if isinstance(n, ast.Assign) and len(n.targets) == 1 and isinstance(n.targets[0], ast.Name):
                name = n.targets[0].id
                expect(isinstance(n.value, ast.Constant), f"{pyname}.{name}: literal expected")
                vals[name] = n.value.value
        expect(set(vals) == set(members), f"{pyname}: members changed: {sorted(vals)}")
        ints = all(isinstance(v, int) for v in vals.values())
        strs = all(isinstance(v, str) for v in vals.values())
        expect(ints or strs, f"{pyname}: mixed value types")
        # __str__ is not used by the serialiser (normalize_header_value uses .value)
        arms = " | ".join(f"{members[k]} => " + (f"HInt {vals[k]}" if ints else f"HBytes {coq_bytes(vals[k].encode('ascii'))}") for k in members)
        t += f"Definition {coqty}_value (x : {coqty}) : hval := match x with {arms} end.\n"
    t += "\n"

    # ---- normalisation and generic serialisation: compared as a whole
    base = find_class(gc, "GraphicsCommand")
    func_src_eq(base, "header_to_bytes", '''
def header_to_bytes(self) -> bytes:
    return b",".join(
        k + b"=" + (v if isinstance(v, bytes) else str(v).encode("ascii"))
        for k, v in self.header_to_tuple()
    )
''')
    func_src_eq(base, "get_raw_payload", "def get_raw_payload(self) -> Optional[bytes]:\n    return None\n")
    func_src_eq(base, "get_encoded_payload", '''
def get_encoded_payload(self) -> Optional[bytes]:
    data = self.get_raw_payload()
    if data is None:
        return None
    return base64.b64encode(data)
''')
    func_src_eq(base, "content_to_bytes", '''
def content_to_bytes(self) -> bytes:
    payload = self.get_encoded_payload()
    if payload is None:
        return self.header_to_bytes()
    return self.header_to_bytes() + b";" + payload
''')
    nhv = find_func(gc, "normalize_header_value")
    exp = ast.parse('''
def normalize_header_value(value: Any) -> bytes | int:
    if isinstance(value, str):
        return value.encode("ascii")
    if isinstance(value, bool):
        return 1 if value else 0
    if isinstance(value, (int, bytes)):
        return value
    if isinstance(
        value, (Quietness, Format, TransmissionMedium, Compression, WhatToDelete)
    ):
        return normalize_header_value(value.value)
    raise ValueError(f"Unsupported header value: {value}")
''').body[0]
    expect(ast.dump(ast.Module(body=body_nodoc(nhv), type_ignores=[])) == ast.dump(ast.Module(body=body_nodoc(exp), type_ignores=[])), "normalize_header_value: body changed")
    nht = find_func(gc, "normalize_header_tuple")
    exp = ast.parse("def f(tup):\n    return tuple((k, normalize_header_value(v)) for k, v in tup if v is not None)\n").body[0]
    expect(ast.dump(ast.Module(body=body_nodoc(nht), type_ignores=[])) == ast.dump(ast.Module(body=body_nodoc(exp), type_ignores=[])), "normalize_header_tuple: body changed")

    # ---- PlacementData.to_tuple
    fn = find_func(find_class(gc, "PlacementData"), "to_tuple")
    b = body_nodoc(fn)
    expect(len(b) == 1, "PlacementData.to_tuple: one statement")
    h = match_holes(b[0], "return normalize_header_tuple(HOLE_t)", "PlacementData.to_tuple")
    ptab = [(k, self_attr(v, "PlacementData.to_tuple")) for k, v in tuple_table(h["t"], "PlacementData.to_tuple")]
    expect({f for _, f in ptab} <= PFIELDS, "PlacementData.to_tuple: unknown field")
    t += "Definition placement_keys : list (N * pfield) := " + coq_list(f"({k}, PF_{f})" for k, f in ptab) + ".\n"

    # ---- TransmitCommand.header_to_tuple
    tc = find_class(gc, "TransmitCommand")
    fn = find_func(tc, "header_to_tuple")
    b = body_nodoc(fn)
    expect(len(b) == 5, "TransmitCommand.header_to_tuple: statements")
    dump_eq(b[0], "action = None", "TransmitCommand.header_to_tuple: action init")
    dump_eq(b[1], 'if not self.omit_action:\n    action = "q" if self.query else "t" if self.placement is None else "T"', "TransmitCommand.header_to_tuple: action choice")
    h = match_holes(b[2], "tup = normalize_header_tuple(HOLE_t)", "TransmitCommand.header_to_tuple: tuple")
    ttab = []
    for k, v in tuple_table(h["t"], "TransmitCommand.header_to_tuple"):
        if isinstance(v, ast.Name) and v.id == "action":
            ttab.append((k, "action"))
        else:
            f = self_attr(v, "TransmitCommand.header_to_tuple")
            expect(f in TFIELDS, f"TransmitCommand.header_to_tuple: unknown field {f}")
            ttab.append((k, f))
    dump_eq(b[3], "if self.placement is not None:\n    tup = tup + self.placement.to_tuple()", "TransmitCommand.header_to_tuple: placement part")
    dump_eq(b[4], "return tup", "TransmitCommand.header_to_tuple: return")
    t += "Definition transmit_keys : list (N * tfield) := " + coq_list(f"({k}, TF_{f})" for k, f in ttab) + ".\n"
    func_src_eq(tc, "get_raw_payload", '''
def get_raw_payload(self) -> Optional[bytes]:
    data = self.data
    if not isinstance(data, bytes):
        data.seek(0)
        data = data.read()
    return data
''')

    # ---- MoreDataCommand
    mc = find_class(gc, "MoreDataCommand")
    fn = find_func(mc, "header_to_tuple")
    b = body_nodoc(fn)
    expect(len(b) == 1, "MoreDataCommand.header_to_tuple: one statement")
    h = match_holes(b[0], "return normalize_header_tuple(HOLE_t)", "MoreDataCommand.header_to_tuple")
    mtab = [(k, self_attr(v, "MoreDataCommand.header_to_tuple")) for k, v in tuple_table(h["t"], "MoreDataCommand.header_to_tuple")]
    expect({f for _, f in mtab} <= {"image_id", "image_number", "more"}, "MoreDataCommand.header_to_tuple: unknown field")
    t += "Definition more_keys : list (N * mfield) := " + coq_list(f"({k}, MF_{f})" for k, f in mtab) + ".\n"
    func_src_eq(mc, "get_raw_payload", "def get_raw_payload(self) -> Optional[bytes]:\n    return self.data\n")

    # ---- PutCommand
    pc = find_class(gc, "PutCommand")
    fn = find_func(pc, "header_to_tuple")
    b = body_nodoc(fn)
    expect(len(b) == 2, "PutCommand.header_to_tuple: statements")
    h = match_holes(b[0], "tup = normalize_header_tuple(HOLE_t) + PlacementData.to_tuple(self)", "PutCommand.header_to_tuple")
    dump_eq(b[1], "return tup", "PutCommand.header_to_tuple: return")
    utab = []
    put_action = None
    for k, v in tuple_table(h["t"], "PutCommand.header_to_tuple"):
        if isinstance(v, ast.Constant) and isinstance(v.value, bytes):
            expect(put_action is None, "PutCommand: two constant entries")
            put_action = v.value
            utab.append((k, "action"))
        else:
            f = self_attr(v, "PutCommand.header_to_tuple")
            expect(f in {"image_id", "image_number", "quiet"}, f"PutCommand.header_to_tuple: unknown field {f}")
            utab.append((k, f))
    expect(put_action is not None, "PutCommand: constant action entry missing")
    t += "Definition put_keys : list (N * ufield) := " + coq_list(f"({k}, UF_{f})" for k, f in utab) + ".\n"
    t += f"Definition put_action : list N := {coq_bytes(put_action)}.\n"
    expect(not any(isinstance(n, ast.FunctionDef) and n.name in ("get_raw_payload", "get_encoded_payload", "content_to_bytes", "header_to_bytes") for n in pc.body), "PutCommand overrides serialisation")

    # ---- DeleteCommand
    dc = find_class(gc, "DeleteCommand")
    fn = find_func(dc, "header_to_tuple")
    b = body_nodoc(fn)
    expect(len(b) == 3, "DeleteCommand.header_to_tuple: statements")
    dump_eq(b[0], "what_str = None", "DeleteCommand.header_to_tuple: what_str init")
    dump_eq(b[1], "if self.what is not None:\n    what_str = self.what.value\n    if self.delete_data:\n        what_str = what_str.upper()", "DeleteCommand.header_to_tuple: what_str")
    h = match_holes(b[2], "return normalize_header_tuple(HOLE_t)", "DeleteCommand.header_to_tuple: tuple")
    dtab = []
    del_action = None
    for k, v in tuple_table(h["t"], "DeleteCommand.header_to_tuple"):
        if isinstance(v, ast.Constant) and isinstance(v.value, bytes):
            expect(del_action is None, "DeleteCommand: two constant entries")
            del_action = v.value
            dtab.append((k, "action"))
        elif isinstance(v, ast.Name) and v.id == "what_str":
            dtab.append((k, "what"))
        else:
            f = self_attr(v, "DeleteCommand.header_to_tuple")
            expect(f in {"image_id", "image_number", "placement_id", "quiet"}, f"DeleteCommand.header_to_tuple: unknown field {f}")
            dtab.append((k, f))
    expect(del_action is not None, "DeleteCommand: constant action entry missing")
    t += "Definition delete_keys : list (N * dfield) := " + coq_list(f"({k}, DF_{f})" for k, f in dtab) + ".\n"
    t += f"Definition delete_action : list N := {coq_bytes(del_action)}.\n"
    expect(not any(isinstance(n, ast.FunctionDef) and n.name in ("get_raw_payload", "get_encoded_payload", "content_to_bytes", "header_to_bytes") for n in dc.body), "DeleteCommand overrides serialisation")
    expect(not any(isinstance(n, ast.FunctionDef) and n.name in ("get_encoded_payload", "content_to_bytes", "header_to_bytes", "to_bytes", "send") for c in (tc, mc) for n in c.body), "Transmit/MoreData override serialisation")

    # ---- send(): budget constants and shape.  send() is also TRANSLATED (harness/gen_sendtrans.py -> Gen/SendTr.v) and
    # Props/C05tr.v proves the model equal to its translation, so a rewrite of send() that this pin does not recognise is
    # accepted iff that proof still checks (soft tie); the four constants then come from the last validated table — the
    # proof is about the model with exactly those, and the translated term carries the source's own.
    def pin_send(t):
        fn = find_func(base, "send")
        b = body_nodoc(fn)
        expect(len(b) == 7, f"GraphicsCommand.send: statements ({len(b)})")
        dump_eq(b[0], "if max_size is None:\n    max_size = select.PIPE_BUF", "send: default max_size")
        dump_eq(b[1], "out.flush()", "send: initial flush")
        dump_eq(b[2], '''
    if not isinstance(self, TransmitCommand):
        out.write(template % self.content_to_bytes())
        out.flush()
        if callback is not None:
            callback(self)
        return
    ''', "send: non-transmit branch")
        h = match_holes(b[3], "max_base64_payload_size = (max_size - len(template) - len(self.header_to_bytes()) - HOLE_reserve)", "send: budget")
        reserve = h["reserve"]
        expect(isinstance(reserve, ast.Constant) and isinstance(reserve.value, int), "send: reserve constant")
        h = match_holes(b[4], "max_payload_size = (max_base64_payload_size // HOLE_q) * HOLE_r", "send: payload size")
        q, r = h["q"], h["r"]
        expect(isinstance(q, ast.Constant) and isinstance(r, ast.Constant), "send: quantum constants")
        iff = b[5]
        expect(isinstance(iff, ast.If) and not iff.orelse and len(iff.body) == 1 and isinstance(iff.body[0], ast.Raise), "send: too-small check")
        h = match_holes(iff.test, "max_payload_size < HOLE_m", "send: too-small test")
        m = h["m"]
        expect(isinstance(m, ast.Constant) and isinstance(m.value, int), "send: minimum constant")
        expect(isinstance(iff.body[0].exc, ast.Call) and ast.unparse(iff.body[0].exc.func) == "ValueError", "send: raises ValueError")
        dump_eq(b[6], '''
    for cmd in self.split(max_payload_size=max_payload_size):
        out.write(template % cmd.content_to_bytes())
        out.flush()
        if callback is not None:
            callback(cmd)
    ''', "send: chunk loop")
        t += f"Definition send_reserve : Z := {reserve.value}%Z.\nDefinition send_b64_quantum : Z := {q.value}%Z.\nDefinition send_raw_quantum : Z := {r.value}%Z.\nDefinition send_min_payload : Z := {m.value}%Z.\n"
        return t
    try:
        t = pin_send(t)
    except ExtractError as e:
        import re as _re
        import gen_tables as _gt
        golden_path = os.path.join(os.path.dirname(os.path.dirname(os.path.abspath(__file__))), "coq", "GenGolden", "CommandGen.v")
        with open(golden_path) as f:
            gold = f.read()
        for name in ("send_reserve", "send_b64_quantum", "send_raw_quantum", "send_min_payload"):
            m = _re.search(r"Definition %s : Z := (-?\d+)%%Z\." % name, gold)
            expect(m is not None, f"{e}  (and no validated value for {name})")
            t += f"Definition {name} : Z := {m.group(1)}%Z.\n"
        t += "(* send() was rewritten: " + str(e).splitlines()[0][:160].replace("*)", "* )") + " — covered by Props/C05tr.v *)\n"
        _gt.SOFT.append(("gen_commands", "Props/C05tr.v", ["GraphicsCommand.send"]))

    # ---- split(): which media are split.  Two accepted shapes: the original guard and the repaired one.
    fn = find_func(tc, "split")
    b = body_nodoc(fn)
    expect(len(b) >= 2 and isinstance(b[0], ast.If), "split: guard")
    guard = ast.unparse(b[0].test)
    if guard == "self.medium != TransmissionMedium.DIRECT":
        split_none = False
    elif guard == "self.medium is not None and self.medium != TransmissionMedium.DIRECT":
        split_none = True
    else:
        raise ExtractError(f"split: guard changed: {guard}")
    expect(ast.unparse(ast.Module(body=b[0].body, type_ignores=[])) == "yield self\nreturn", "split: guard body")
    rest = ast.Module(body=b[1:], type_ignores=[])
    want = ast.parse('''
original_more = self.more
data = self.data
if isinstance(data, bytes):
    data = io.BytesIO(data)
data.seek(0)
cur_chunk = data.read(max_payload_size)
next_chunk = data.read(max_payload_size)
yield self.clone_with(data=cur_chunk, more=original_more or bool(next_chunk))
while next_chunk:
    cur_chunk = next_chunk
    next_chunk = data.read(max_payload_size)
    yield MoreDataCommand(
        image_id=self.image_id,
        image_number=self.image_number,
        data=cur_chunk,
        more=original_more or bool(next_chunk),
    )
''')
    expect(ast.dump(rest) == ast.dump(want), "split: body changed")
    t += f"Definition split_when_medium_absent : bool := {'true' if split_none else 'false'}.\n"
    out.add("CommandGen.v", t)
