"""Extractor plug-in: the tail of TupimageTerminal.upload (decision, forget, transmit, record) -> Gen/UploadFlowGen.v"""
import ast

from gen_tables import HEADER, ExtractError, body_nodoc, dump_eq, expect, extractor, find_class, find_func, parse


@extractor
def gen_uploadflow(repo, out):
    tt = parse(repo, "tupimage/tupimage_terminal.py")
    fn = find_func(find_class(tt, "TupimageTerminal"), "upload")
    b = body_nodoc(fn)
    expect(len(b) >= 4, "TupimageTerminal.upload: too few statements")
    dump_eq(b[-1], "return inst", "upload: return")
    iff = b[-2]
    expect(isinstance(iff, ast.If) and not iff.orelse, "upload: final if")
    expect(ast.unparse(iff.test) == "force_upload or self.needs_uploading(inst.id)", "upload: decision expression changed")
    body = iff.body
    unmark = False
    if len(body) == 3:
        dump_eq(body[0], "self.id_manager.unmark_uploaded(inst.id, self._terminal_id)", "upload: forget step")
        unmark = True
        body = body[1:]
    expect(len(body) == 2, "upload: transmit+record statements")
    dump_eq(body[0], "size = self._upload(inst, check_response=check_response, upload_method=upload_method)", "upload: transmit step")
    rec = ast.unparse(body[1])
    if rec == "self.id_manager.mark_uploaded(inst.id, self._terminal_id, size=size)":
        records_transmitted = False
    elif rec == "self.id_manager.mark_uploaded(inst.id, self._terminal_id, size=size, description=inst.get_description())":
        records_transmitted = True
    else:
        raise ExtractError(f"upload: record step changed: {rec}")
    dump_eq(b[-3], "if self._config.redetect_terminal:\n    self.detect_terminal()", "upload: redetect")
    dump_eq(b[-4], "if force_upload is None:\n    force_upload = self._config.force_upload", "upload: force default")
    if unmark:
        im = parse(repo, "tupimage/id_manager.py")
        f2 = find_func(find_class(im, "IDManager"), "unmark_uploaded")
        src = ast.unparse(ast.Module(body=body_nodoc(f2), type_ignores=[]))
        expect("DELETE FROM upload" in src and "id=? AND terminal=?" in " ".join(src.split()), "unmark_uploaded: statement changed")
    t = HEADER + f"Definition upload_unmarks_first : bool := {'true' if unmark else 'false'}.\n"
    t += f"Definition mark_records_transmitted : bool := {'true' if records_transmitted else 'false'}.\n"
    out.add("UploadFlowGen.v", t)
