"""C19 — terminal responses are parsed completely, in order, and never invented.

Correspondence: Model.ResponseModel (receive, receive_multiple, cursor_report, py_int, utf8_ok) vs
the real GraphicsTerminal.receive_response / receive_multiple_responses / get_cursor_position
reading from a raw-mode pty whose master side is scripted (every field of GraphicsResponse, the
bytes left unread, the bytes written to out_command, tracked_cursor_position).

Spec oracle: streams are *written* by Spec.ResponseSpec.enc_response / enc_cpr from generated
components (noise, key list, message, rest); what the implementation returns is compared with
Spec.ResponseSpec.expected of those components — the right-hand side of the theorems in
Props/C19.v, independent of the model and of the code.
"""
import multiprocessing
import os
import select
import time

import common
from common import hexs, unhex

GEN_DEPS = ("gen_response",)
ASSUMPTIONS = [
    "all scripted bytes are pending on the tty before the call; 'input exhausted' in the model = the deadline passing in the code "
    "(deadline arithmetic, a response straddling the deadline and the tty line discipline are not modelled: property level is 'proof, partial')",
    "CPython's int(bytes) behaves as Model.ResponseModel.py_int (whitespace, sign, underscores, 4300-digit limit with the default "
    "sys.int_info settings) and bytes.decode('utf-8') succeeds exactly on Model.ResponseModel.utf8_ok — both compared directly on every run",
    "a str is represented in the model by its UTF-8 encoding (message, extra keys and values are compared after .encode())",
]
TRUSTED = [
    "the kernel's pty in raw mode delivers the scripted bytes unchanged and in order (tty.setraw on the slave before anything is written)",
    "Spec/ResponseSpec.v as the reading of the kitty graphics protocol's response format and of the ECMA-48 cursor position report",
]

ESC = b"\x1b"
APC_G = b"\x1b_G"
ST = b"\x1b\\"
CSI = b"\x1b["
T_SHORT, T_LONG = 0.02, 0.3
MAX_STREAM = 3500  # the pty input queue holds 4095 bytes in raw mode


# ------------------------------------------------------------------------------ implementation side (runs in pool workers)
_W = {}


def _worker_term():
    if "t" in _W:
        return _W
    import pty
    import tty

    tup = common.import_impl()
    master, slave = pty.openpty()
    tty.setraw(slave)
    inp = os.fdopen(slave, "rb", buffering=0, closefd=False)
    outc, outd = common.RecStream(), common.RecStream()
    t = tup.graphics_terminal.GraphicsTerminal(out_command=outc, out_display=outd, in_response=inp, in_userinput=inp)
    # a second terminal object on the same pty whose response stream was given as a PATH (the library opens it itself)
    tp = tup.graphics_terminal.GraphicsTerminal(out_command=outc, out_display=outd, in_response=os.ttyname(slave), in_userinput=inp)
    _W.update(t=t, tp=tp, master=master, slave=slave, outc=outc, outd=outd)
    return _W


def _drain(fd):
    buf = b""
    while True:
        r, _, _ = select.select([fd], [], [], 0)
        if not r:
            return buf
        c = os.read(fd, 65536)
        if not c:
            return buf
        buf += c


def canon_response(r):
    return {
        "i": r.image_id, "I": r.image_number, "p": r.placement_id,
        "x": [[hexs(k.encode("utf-8", "surrogatepass")), None if v is None else hexs(v.encode("utf-8", "surrogatepass"))] for k, v in r.additional_data.items()],
        "m": hexs(r.message.encode("utf-8", "surrogatepass")), "ok": bool(r.is_ok), "valid": bool(r.is_valid), "nr": hexs(r.non_response),
    }


def run_impl(task):
    """task: {mode, stream(hex), timeouts:[...]} -> {"calls": [...], "rest": hex, "wall": s}"""
    w = _worker_term()
    t, master, slave = w["tp" if task.get("path") else "t"], w["master"], w["slave"]
    _drain(slave)
    _drain(master)
    data = unhex(task["stream"])
    assert len(data) <= MAX_STREAM
    if data:
        os.write(master, data)
    t0 = time.time()
    calls = []
    mode = task["mode"]
    if mode == "recv":
        for to in task["timeouts"]:
            try:
                calls.append({"r": canon_response(t.receive_response(timeout=to))})
            except Exception as e:  # noqa
                calls.append({"exc": type(e).__name__})
    elif mode == "multi":
        try:
            calls.append({"l": [canon_response(r) for r in t.receive_multiple_responses(timeout=task["timeouts"][0])]})
        except Exception as e:  # noqa
            calls.append({"exc": type(e).__name__})
    elif mode == "cursor":
        w["outc"].writes.clear()
        t.tracked_cursor_position = ("sentinel",)
        try:
            pos = t.get_cursor_position(timeout=task["timeouts"][0])
            calls.append({"pos": list(pos)})
        except Exception as e:  # noqa
            calls.append({"exc": type(e).__name__})
        tr = t.tracked_cursor_position
        calls[-1]["tracked"] = None if tr == ("sentinel",) else list(tr)
        calls[-1]["written"] = [hexs(x) for x in w["outc"].writes]
    else:
        raise ValueError(mode)
    wall = time.time() - t0
    return {"calls": calls, "rest": hexs(_drain(slave)), "wall": round(wall, 4)}


def _run_chunk(tasks):
    return [run_impl(t) for t in tasks]


# ------------------------------------------------------------------------------ model replies
def _num(s):
    return None if s == "N" else int(s, 2)


def _fields(tokens):
    d = dict(tok.split("=", 1) for tok in tokens)
    x = []
    if d["x"] != "-":
        for kv in d["x"].split(","):
            k, v = kv.split(":")
            x.append([k, None if v == "NONE" else v])
    return {"i": _num(d["i"]), "I": _num(d["I"]), "p": _num(d["p"]), "x": x, "m": d["m"], "ok": d["ok"] == "1", "valid": d["valid"] == "1", "nr": d["nr"]}


def parse_receive(rep):
    """-> (call-result dict, rest hex)"""
    tok = rep.split(" ")
    if tok[0] == "R":
        return {"r": _fields(tok[1:-1])}, tok[-1].split("=", 1)[1]
    if tok[0] == "E":
        return {"exc": tok[1]}, tok[2].split("=", 1)[1]
    raise RuntimeError("model reply: " + rep[:200])


def parse_multi(rep):
    parts = rep.split(" | ")
    head = parts[0].split(" ")
    if head[0] == "E":
        return {"exc": "UnicodeDecodeError"}, head[1].split("=", 1)[1]
    assert head[0] == "L" and int(head[1]) == len(parts) - 1, rep[:200]
    return {"l": [_fields(p.split(" ")) for p in parts[1:]]}, head[2].split("=", 1)[1]


def parse_cursor(rep, query):
    tok = rep.split(" ")
    if tok[0] == "P":
        pos = [int(tok[1], 2), int(tok[2], 2)]
        return {"pos": pos, "tracked": pos, "written": [query]}, tok[3].split("=", 1)[1]
    return {"exc": tok[1], "tracked": None, "written": [query]}, tok[2].split("=", 1)[1]


def spec_expected(rep):
    tok = rep.split(" ")
    return tok[0], _fields(tok[1:])


# ------------------------------------------------------------------------------ generators
LETTERS = [c for c in "aAbcdfmqrsStxyzUCX0_-."]
UTF8_SAMPLES = ["é", "ж", "日本", "😀", "ࠀ", "￿", "\U00010000", "\U0010ffff", "퟿", "", "\x7f", "\x80"]


def first_at_end(pat, noise):
    return (noise + pat).find(pat) == len(noise)


def gen_noise(rng, pat=APC_G):
    for _ in range(100):
        k = rng.random()
        if k < 0.25:
            n = b""
        elif k < 0.45:
            n = bytes(rng.choice(b"abc xyz0189\r\n\t~") for _ in range(rng.randrange(1, 12)))
        elif k < 0.75:
            # pieces of introducers and terminators
            pieces = [ESC, b"\x1b_", b"_G", b"G", b"_", b"\x1b\x1b_", b"\x1b_g", b"\x1b\\", b"\\", b"\x1b[", b"\x1b[5;7R", b"\x1b]", b";OK", b"i=1", b"R", b"\x1b_\x1b", b"\x1b\x1b"]
            n = b"".join(rng.choice(pieces) for _ in range(rng.randrange(1, 5)))
        elif k < 0.85:
            n = rng.choice(UTF8_SAMPLES).encode() + rng.randbytes(rng.randrange(0, 4))
        else:
            n = rng.randbytes(rng.randrange(1, 20))
        if first_at_end(pat, n):
            return n
    return b""


def gen_number(rng):
    k = rng.random()
    if k < 0.3:
        return rng.choice([0, 1, 2, 9, 10, 255, 256, 2**24 - 1, 2**31, 2**32 - 1])
    if k < 0.9:
        return rng.randrange(2**32)
    return rng.choice([2**32, 2**63, 2**64 + 1, 10**30 + 7])


def gen_text(rng, forbid, allow_empty=True):
    """valid UTF-8 bytes without any byte of `forbid`"""
    for _ in range(100):
        k = rng.random()
        if k < 0.15 and allow_empty:
            s = ""
        elif k < 0.5:
            s = "".join(rng.choice("abcXYZ 019=:/._-+~!") for _ in range(rng.randrange(1, 10)))
        elif k < 0.8:
            s = "".join(rng.choice(["a", "=", " ", "1", "é", "ж", "日", "😀", "ࠀ", "\U0010ffff", "퟿", "", "\x7f", "\x00", "\x01"]) for _ in range(rng.randrange(1, 8)))
        else:
            s = "".join(chr(rng.choice([rng.randrange(0x20, 0x7f), rng.randrange(0x80, 0x800), rng.randrange(0x800, 0xd800), rng.randrange(0xe000, 0x10000), rng.randrange(0x10000, 0x110000)])) for _ in range(rng.randrange(1, 6)))
        b = s.encode("utf-8")
        if not any(c in forbid for c in b):
            return b
    return b"v"


def gen_items(rng, subset=None, n_extras=None):
    """-> list of item tuples ('i', n) ('I', n) ('p', n) ('x', key, value|None); keys distinct; non-empty"""
    if subset is None:
        subset = [k for k in "iIp" if rng.random() < 0.5]
    items = [(k, gen_number(rng)) for k in subset]
    if n_extras is None:
        n_extras = rng.choice([0, 0, 0, 1, 1, 2, 3])
    used = {b"i", b"I", b"p"}
    for _ in range(n_extras):
        for _ in range(50):
            k = rng.random()
            if k < 0.7:
                key = rng.choice(LETTERS).encode()
            elif k < 0.75:
                key = b""
            else:
                key = gen_text(rng, b"\x1b,;=")
            if key not in used:
                break
        else:
            continue
        used.add(key)
        v = None if rng.random() < 0.3 else gen_text(rng, b"\x1b,;")
        items.append(("x", key, v))
    if not items:
        items = [("i", gen_number(rng))]
    rng.shuffle(items)
    return items


MSG_KINDS = ["none", "OK", "empty", "error", "seps", "utf8", "esc", "nearly-OK", "intro-inside"]


def gen_msg(rng, kind=None):
    kind = kind or rng.choice(MSG_KINDS)
    if kind == "none":
        return kind, None
    if kind == "OK":
        return kind, b"OK"
    if kind == "empty":
        return kind, b""
    if kind == "error":
        return kind, rng.choice([b"ENOENT:Put command refers to non-existent image with id: 0 and number: 0", b"EINVAL:bad", b"ENODATA:Insufficient image data: 5 < 12", b"EBADF"])
    if kind == "seps":
        return kind, bytes(rng.choice(b";=,;=,:a1 ") for _ in range(rng.randrange(1, 12)))
    if kind == "utf8":
        return kind, gen_text(rng, b"", allow_empty=False) + rng.choice([b"", b";", b"=\xc3\xa9,"])
    if kind == "esc":
        for _ in range(50):
            m = b"".join(rng.choice([ESC, b"\\", b"a", b"\x1b\x1b", b"\\\x1b", b"\x1b[", b"\x1b_"]) for _ in range(rng.randrange(1, 6)))
            if first_at_end(ST, m):
                return kind, m
        return kind, b"a\x1b"
    if kind == "nearly-OK":
        return kind, rng.choice([b"OK ", b" OK", b"ok", b"O", b"OKK", b"OK;", b"OK\x00", b"KO", b"OK\n"])
    if kind == "intro-inside":
        return kind, rng.choice([b"\x1b_Gi=9;OK", b"x\x1b_G", b"\x1b_G"])
    raise ValueError(kind)


def item_token(it):
    if it[0] == "x":
        return f"x:{hexs(it[1])}:{'NONE' if it[2] is None else hexs(it[2])}"
    return f"{it[0]}:{it[1]:b}"


def py_encode_response(items, msg):
    """Independent Python transcription of Spec.enc_response (cross-checks the extracted Spec)."""
    parts = []
    for it in items:
        if it[0] == "x":
            parts.append(it[1] if it[2] is None else it[1] + b"=" + it[2])
        else:
            parts.append(it[0].encode() + b"=" + str(it[1]).encode())
    return APC_G + b",".join(parts) + (b"" if msg is None else b";" + msg) + ST


def py_expected(noise, items, msg):
    e = {"i": None, "I": None, "p": None, "x": [], "m": hexs(msg or b""), "ok": msg == b"OK", "valid": True, "nr": hexs(noise)}
    for it in items:
        if it[0] == "x":
            e["x"].append([hexs(it[1]), None if it[2] is None else hexs(it[2])])
        else:
            e[it[0]] = it[1]
    return e


def gen_unit(rng, **kw):
    noise = gen_noise(rng)
    items = gen_items(rng, kw.get("subset"), kw.get("n_extras"))
    mk, msg = gen_msg(rng, kw.get("msg_kind"))
    return {"noise": noise, "items": items, "msg": msg, "msg_kind": mk}


def gen_tail(rng):
    """bytes after the last response in which no complete response arrives -> (kind, bytes)"""
    k = rng.random()
    if k < 0.35:
        return "empty", b""
    if k < 0.6:
        for _ in range(50):
            t = gen_noise(rng)
            if APC_G not in t:
                return "junk", t
        return "junk", b"zz"
    # a truncated response
    u = gen_unit(rng)
    enc = u["noise"] + py_encode_response(u["items"], u["msg"])
    cut = rng.randrange(1, len(enc))
    return "truncated", enc[:cut]


SOUP = [ESC, b"_", b"G", b"\\", b";", b",", b"=", b"i", b"I", b"p", b"1", b"0", b"O", b"K", b"a", b"\xc3", b"\xa9", b"[", b"R", b" ", b"-", b"\x1b_G", b"\x1b\\", b"\x1b[", b"i=", b"OK"]

MALFORMED_KEYS = [
    b"i=abc", b"i=", b"i", b"I", b"p", b"i=1=2", b"i=-5", b"i=+5", b"i= 5", b"i=5 ", b"i=\t5\n", b"i=5_0", b"i=5__0", b"i=_5", b"i=5_", b"i=0x10", b"i=1e3", b"i=1.0",
    b"i=007", b"i=+-5", b"i=+ 5", b"i=\xef\xbc\x95", b"i=5\x00", b"i=1,i=2", b"i=1,i=x", b"i=x,i=1", b"I=1,I=2,I=3", b"p=1,i=2,p=3", b"a=1,a=2", b"a=1,b=2,a=3", b"a,a=1", b"a=1,a",
    b"", b",", b",,", b"=", b"==", b"=,=", b"=v", b"a=", b"a==", b"a=b=c", b"\xff=1", b"a=\xff", b"\xff", b"a=1,\xff,b=2", b"a=\xc3", b"\xc3\xa9=\xc3\xa9", b"\xed\xa0\x80=1",
    b"a=\xf4\x90\x80\x80", b"\xc0\x80", b"i =5", b" i=5", b"ii=5", b"i=5,", b",i=5", b"p=+0", b"p=-0", b"I=" + b"9" * 50, b"i=1_2_3",
]


def gen_cases(ctx):
    """-> list of case dicts: {klass, mode, stream, calls, spec?: {...}}"""
    rng = ctx.rng
    cases = []

    def add(klass, mode, stream, calls=1, **extra):
        if stream is not None and len(stream) > MAX_STREAM:
            return
        c = {"klass": klass, "mode": mode, "stream": stream, "calls": calls}
        c.update(extra)
        cases.append(c)

    # ---- 1. all key subsets x message kinds, single well-formed response (Spec oracle)
    subsets = [[k for k, on in zip("iIp", (a, b, c)) if on] for a in (0, 1) for b in (0, 1) for c in (0, 1)]
    reps = ctx.pick(2, 10)
    for _ in range(reps):
        for sub in subsets:
            for mk in MSG_KINDS:
                u = gen_unit(rng, subset=sub, msg_kind=mk, n_extras=(rng.choice([1, 2]) if not sub else None))
                rest_kind, rest = rng.choice([("empty", b""), ("junk", b"zz"), ("next", b"\x1b_Gi=2;OK\x1b\\"), ("esc", b"\x1b")])
                add(f"single/keys={''.join(sub) or '-'}/msg={mk}", "recv", None, 1, spec={"units": [u], "tail": rest, "tail_kind": rest_kind})

    # ---- 2. random well-formed responses, 1-5 in a row, read one per call and by receive_multiple_responses
    for _ in range(ctx.pick(500, 8000)):
        k = rng.choice([1, 1, 2, 3, 4, 5])
        units = [gen_unit(rng) for _ in range(k)]
        tail_kind, tail = gen_tail(rng)
        mode = rng.choice(["recv", "recv", "multi"])
        calls = k + 1 if mode == "recv" else 1
        if mode == "recv" and rng.random() < 0.3:
            calls = rng.randrange(1, k + 1)  # stop early: the remaining responses must be left unread
        add(f"stream/{mode}/n={k}/tail={tail_kind}", mode, None, calls, spec={"units": units, "tail": tail, "tail_kind": tail_kind})

    # ---- 3. truncation at every prefix length of one response (Spec oracle: invalid, everything consumed)
    for _ in range(ctx.pick(8, 80)):
        u = gen_unit(rng)
        full = u["noise"] + py_encode_response(u["items"], u["msg"])
        if len(full) > 120:
            continue
        for cut in range(len(full)):
            add("truncated/recv", "recv", full[:cut], 1, truncated_of=full)
        for cut in rng.sample(range(len(full)), min(len(full), ctx.pick(4, 10))):
            add("truncated/multi", "multi", full[:cut], 1, truncated_of=full)

    # ---- 4. malformed key lists (correspondence only)
    for keys in MALFORMED_KEYS:
        for msg in ([None, b"OK"] if ctx.quick() else [None, b"OK", b"", b"ENOENT:x", b"\xff"]):
            s = gen_noise(rng) + APC_G + keys + (b"" if msg is None else b";" + msg) + ST + rng.choice([b"", b"tail"])
            add("malformed-keys", rng.choice(["recv", "recv", "multi"]), s, 1)
    for _ in range(ctx.pick(60, 1500)):
        keys = b",".join(rng.choice(MALFORMED_KEYS + [b"a=T", b"i=12", b"I=3", b"p=4", b"q"]) for _ in range(rng.randrange(1, 5)))
        msg = rng.choice([None, b"OK", b"E:x;y", b"\xc3", b"\xc3\xa9", b"\xe0\x80\x80", b"\xed\xa0\x80", b"\xf4\x90\x80\x80", b"\xf0\x90\x80\x80"])
        s = gen_noise(rng) + APC_G + keys + (b"" if msg is None else b";" + msg) + ST + rng.choice([b"", b"tail", APC_G + b"i=1;OK" + ST])
        mode = rng.choice(["recv", "multi"])
        add("malformed-keys/random", mode, s, 2 if mode == "recv" else 1)

    # ---- 5. byte soup (correspondence only): all three entry points
    for _ in range(ctx.pick(600, 8000)):
        s = b"".join(rng.choice(SOUP) for _ in range(rng.randrange(0, 30)))
        mode = rng.choice(["recv", "recv", "multi", "cursor"])
        add(f"soup/{mode}", mode, s, rng.choice([1, 2, 3]) if mode == "recv" else 1)
    for _ in range(ctx.pick(40, 1000)):
        s = rng.randbytes(rng.randrange(0, 60))
        add("random-bytes", rng.choice(["recv", "multi", "cursor"]), s, 1)

    # ---- 6. cursor position reports
    for _ in range(ctx.pick(120, 2500)):
        for _ in range(100):
            junk = gen_noise(rng, CSI)
            if rng.random() < 0.2:
                junk = b"\x1b_Gi=1;OK\x1b\\" + junk
            if first_at_end(CSI, junk):
                break
        else:
            junk = b""
        row, col = (rng.choice([1, 2, 24, 80, 255, 1000, 65535, 2**32, 0]) if rng.random() < 0.5 else rng.randrange(1, 500) for _ in range(2))
        rest = rng.choice([b"", b"", b"x", b"\x1b[1;1R", b"R", b"\x1b_Gi=1;OK\x1b\\"])
        add("cursor/well-formed", "cursor", None, 1, cpr={"junk": junk, "row": row, "col": col, "rest": rest})
    bad_bodies = [b"", b";", b"1", b"1;", b";1", b"1;2;3", b"a;b", b"1;b", b"a;2", b" 5 ;+6", b"1_0;-6", b"-1;-1", b"0;0", b"?1;2", b"1;2;", b"\x1b[1;2", b"1\x1b[2;3", b"12;34\x00",
                  b"1;2" + b"0" * 40, b"+;-", b"__;1", b"1__0;1", b"\xff;1", b"5;6r"]
    for body in bad_bodies:
        for fin in (b"R", b""):
            add("cursor/malformed" if fin else "cursor/truncated", "cursor", gen_noise(rng, CSI) + CSI + body + fin + rng.choice([b"", b"zz"]), 1)
    for cut_src in (b"ab\x1b[12;34R", b"\x1b\x1b[7;8R"):
        for cut in range(len(cut_src)):
            add("cursor/truncated", "cursor", cut_src[:cut], 1)
    return cases


# ------------------------------------------------------------------------------ direct checks of the CPython primitives
def check_primitives(ctx, model, cov):
    rng = ctx.rng
    ints = [b"", b"0", b"00", b"-0", b"+0", b" 1", b"1 ", b"\x0b1\x0c", b"1\x00", b"\x001", b"1_", b"_1", b"1__1", b"1_1_1", b"+_1", b"--1", b"+", b"-", b" ", b"1 2", b"1\xa0", b"\xa01",
            b"9" * 4300, b"9" * 4301, b"0" * 4300, b"0" * 4301, b"1_" * 4299 + b"1", b"1_" * 4300 + b"1", b" " * 10 + b"9" * 4300 + b" " * 10, b"-" + b"9" * 4301, b"1" * 641, "٣".encode()]
    alpha = [b" ", b"\t", b"+", b"-", b"_", b"0", b"1", b"5", b"9", b"a", b"\x00", b"\x0b", b"\r", b"\x1c", b"\x85"]
    for _ in range(ctx.pick(1500, 20000)):
        ints.append(b"".join(rng.choice(alpha) for _ in range(rng.randrange(0, 8))))
    for _ in range(ctx.pick(300, 3000)):
        ints.append(rng.choice([b"", b" ", b"+", b"-"]) + str(rng.randrange(10 ** rng.randrange(1, 40))).encode() + rng.choice([b"", b" ", b"\n"]))
    reps = model.batch([f"c19.py_int {hexs(b)}" for b in ints])
    for b, rep in zip(ints, reps):
        try:
            got = int(b)
        except ValueError:
            got = None
        m = None if rep == "N" else int(rep, 2)
        cov.add({"int": hexs(b)[:60], "len": len(b)}, nontrivial=got is not None, klass="primitive/int/" + ("value" if got is not None else "ValueError"))
        if m != got:
            ctx.corr_breaks.append({"what": "CPython int(bytes) differs from Model.ResponseModel.py_int", "case": {"bytes": hexs(b)[:200], "len": len(b)},
                                    "impl": repr(got)[:80], "model": repr(m)[:80]})
    us = [b"", b"\xc2\x80", b"\xc1\xbf", b"\xc2", b"\xe0\xa0\x80", b"\xe0\x9f\xbf", b"\xed\x9f\xbf", b"\xed\xa0\x80", b"\xee\x80\x80", b"\xef\xbf\xbf", b"\xf0\x90\x80\x80", b"\xf0\x8f\xbf\xbf",
          b"\xf4\x8f\xbf\xbf", b"\xf4\x90\x80\x80", b"\xf5\x80\x80\x80", b"\x80", b"\xbf", b"\xe1\x80", b"\xf1\x80\x80", b"\xe1\x80\xc0", b"a\xc3\xa9b", b"\xf8\x88\x80\x80\x80"]
    heads = [0x00, 0x7f, 0x80, 0xbf, 0xc0, 0xc1, 0xc2, 0xdf, 0xe0, 0xe1, 0xec, 0xed, 0xee, 0xef, 0xf0, 0xf1, 0xf3, 0xf4, 0xf5, 0xff]
    conts = [0x7f, 0x80, 0x8f, 0x90, 0x9f, 0xa0, 0xbf, 0xc0, 0x41]
    for h in heads:
        for c1 in conts:
            us.append(bytes([h, c1]))
            for c2 in (0x80, 0xbf, 0x7f, 0xc0):
                us.append(bytes([h, c1, c2]))
                us.append(bytes([h, c1, c2, 0x80]))
                us.append(bytes([h, c1, c2, 0xc0]))
    for _ in range(ctx.pick(600, 10000)):
        us.append(b"".join(rng.choice([bytes([rng.choice(heads)]), bytes([rng.choice(conts)]), rng.choice(UTF8_SAMPLES).encode(), b"a"]) for _ in range(rng.randrange(1, 6))))
    reps = model.batch([f"c19.utf8_ok {hexs(b)}" for b in us])
    for b, rep in zip(us, reps):
        try:
            b.decode("utf-8")
            got = True
        except UnicodeDecodeError:
            got = False
        cov.add({"utf8": hexs(b)}, nontrivial=True, klass="primitive/utf8/" + ("valid" if got else "invalid"))
        if (rep == "1") != got:
            ctx.corr_breaks.append({"what": "CPython bytes.decode('utf-8') differs from Model.ResponseModel.utf8_ok", "case": {"bytes": hexs(b)}, "impl": got, "model": rep})


# ------------------------------------------------------------------------------ prediction by the model, execution, comparison
def build_spec_streams(model, cases):
    """Fill in stream / expected for the cases written by the Spec."""
    reqs, where = [], []
    for ci, c in enumerate(cases):
        if "spec" in c:
            for ui, u in enumerate(c["spec"]["units"]):
                reqs.append("c19.spec_response " + hexs(u["noise"]) + " " + ("NONE" if u["msg"] is None else hexs(u["msg"])) + " " + " ".join(item_token(it) for it in u["items"]))
                where.append((ci, ui))
        elif "cpr" in c:
            reqs.append(f"c19.spec_cpr {c['cpr']['row']:b} {c['cpr']['col']:b}")
            where.append((ci, None))
    problems = []
    for (ci, ui), rep in zip(where, model.batch(reqs)):
        c = cases[ci]
        if ui is None:
            cpr = c["cpr"]
            enc = unhex(rep)
            if enc != CSI + b"%d;%dR" % (cpr["row"], cpr["col"]):
                problems.append({"what": "Spec.enc_cpr differs from its Python transcription", "case": {"row": cpr["row"], "col": cpr["col"]}})
            c["stream"] = cpr["junk"] + enc + cpr["rest"]
            continue
        u = c["spec"]["units"][ui]
        enc_hex, exp = spec_expected(rep)
        u["enc"] = unhex(enc_hex)
        u["expected"] = exp
        if u["enc"] != py_encode_response(u["items"], u["msg"]) or exp != py_expected(u["noise"], u["items"], u["msg"]):
            problems.append({"what": "Spec.enc_response/expected differ from their Python transcription", "case": {"items": [item_token(i) for i in u["items"]]}})
    for c in cases:
        if "spec" in c:
            c["stream"] = b"".join(u["noise"] + u["enc"] for u in c["spec"]["units"]) + c["spec"]["tail"]
    return problems


def predict(model, cases, query_hex):
    """Model outcome for every case: c['model'] = {"calls": [...], "rest": hex}."""
    state = {i: hexs(c["stream"]) for i, c in enumerate(cases)}
    for c in cases:
        c["model"] = {"calls": [], "rest": None}
    # recv: rounds
    rnd = 0
    while True:
        idx = [i for i, c in enumerate(cases) if c["mode"] == "recv" and c["calls"] > rnd]
        if not idx:
            break
        for i, rep in zip(idx, model.batch([f"c19.receive {state[i]}" for i in idx])):
            res, rest = parse_receive(rep)
            cases[i]["model"]["calls"].append(res)
            state[i] = rest
        rnd += 1
    idx = [i for i, c in enumerate(cases) if c["mode"] == "multi"]
    for i, rep in zip(idx, model.batch([f"c19.receive_multiple {state[i]}" for i in idx])):
        res, rest = parse_multi(rep)
        cases[i]["model"]["calls"].append(res)
        state[i] = rest
    idx = [i for i, c in enumerate(cases) if c["mode"] == "cursor"]
    for i, rep in zip(idx, model.batch([f"c19.cursor_report {state[i]}" for i in idx])):
        res, rest = parse_cursor(rep, query_hex)
        cases[i]["model"]["calls"].append(res)
        state[i] = rest
    for i, c in enumerate(cases):
        c["model"]["rest"] = state[i]


def timeouts_for(c, scale=1.0):
    """Short timeout where the model says the deadline decides the outcome, long elsewhere
    (the deadline is real time and outside the model; a wrong guess only costs time)."""
    out = []
    if c["mode"] == "recv":
        for res in c["model"]["calls"]:
            short = "r" in res and not res["r"]["valid"]
            out.append((T_SHORT if short else T_LONG) * scale)
    elif c["mode"] == "multi":
        out.append(T_SHORT * scale)
    else:
        out.append((T_SHORT if c["model"]["calls"][0].get("exc") == "TimeoutError" else T_LONG) * scale)
    return out


def task_of(c, scale=1.0):
    return {"mode": c["mode"], "stream": hexs(c["stream"]), "timeouts": timeouts_for(c, scale), "path": bool(c.get("path"))}


def strip_wall(r):
    return {"calls": r["calls"], "rest": r["rest"]}


def spec_verdict(c, impl):
    """Evaluate the Spec-side statement of the theorems on what the implementation returned.
    -> None (holds / not applicable) or (class, text, expected)"""
    calls = impl["calls"]
    if "spec" in c:
        units, tail = c["spec"]["units"], c["spec"]["tail"]
        exp = [u["expected"] for u in units]
        if c["mode"] == "recv":
            n = c["calls"]
            want_calls = [{"r": e} for e in exp[:n]]
            if n > len(units):
                # the extra call finds no complete response: invalid, everything consumed and reported
                want_calls.append({"r": {"i": None, "I": None, "p": None, "x": [], "m": "-", "ok": False, "valid": False, "nr": hexs(tail)}})
                want_rest = "-"
            else:
                want_rest = hexs(b"".join(u["noise"] + u["enc"] for u in units[n:]) + tail)
            if calls != want_calls or impl["rest"] != want_rest:
                for j, (a, b) in enumerate(zip(calls, want_calls)):
                    if a != b:
                        field = "exception" if "exc" in a else next((k for k in b["r"] if a["r"].get(k) != b["r"][k]), "?")
                        return ("response-fields", f"call {j + 1} of receive_response on a well-formed stream returned a wrong `{field}`", {"calls": want_calls, "rest": want_rest})
                return ("bytes-lost-or-left", "receive_response left the wrong bytes unread after well-formed responses", {"calls": want_calls, "rest": want_rest})
        else:
            want = {"l": exp}
            if calls != [want] or impl["rest"] != "-":
                return ("multiple-responses", "receive_multiple_responses did not return exactly the well-formed responses in arrival order (or left bytes unread)", {"calls": [want], "rest": "-"})
        return None
    if "truncated_of" in c:
        inv = {"i": None, "I": None, "p": None, "x": [], "m": "-", "ok": False, "valid": False, "nr": hexs(c["stream"])}
        want = {"calls": [{"r": inv}] if c["mode"] == "recv" else [{"l": []}], "rest": "-"}
        if strip_wall(impl) != want:
            return ("truncated-response", "a truncated response was not reported as invalid with everything read returned in non_response", want)
        return None
    if "cpr" in c:
        cpr = c["cpr"]
        pos = [cpr["col"] - 1, cpr["row"] - 1]
        got = calls[0]
        if got.get("pos") != pos or got.get("tracked") != pos or impl["rest"] != hexs(cpr["rest"]):
            return ("cursor-position", "get_cursor_position did not return exactly the reported position (or consumed bytes after the report)", {"pos": pos, "rest": hexs(cpr["rest"])})
        return None
    return None


def slim_case(c):
    d = {"klass": c["klass"], "mode": c["mode"], "calls": c["calls"], "stream": hexs(c["stream"])}
    if c.get("path"):
        d["path"] = True
    if "spec" in c:
        d["spec"] = {"tail": hexs(c["spec"]["tail"]),
                     "units": [{"noise": hexs(u["noise"]), "msg": None if u["msg"] is None else hexs(u["msg"]), "items": [item_token(i) for i in u["items"]]} for u in c["spec"]["units"]]}
    if "truncated_of" in c:
        d["truncated_of"] = hexs(c["truncated_of"])
    if "cpr" in c:
        d["cpr"] = {"junk": hexs(c["cpr"]["junk"]), "row": c["cpr"]["row"], "col": c["cpr"]["col"], "rest": hexs(c["cpr"]["rest"])}
    return d


def fat_case(d):
    """inverse of slim_case (for replay)"""
    c = {"klass": d.get("klass", "replay"), "mode": d["mode"], "calls": d["calls"], "stream": unhex(d["stream"]), "path": bool(d.get("path"))}
    if "spec" in d:
        units = []
        for u in d["spec"]["units"]:
            items = []
            for tok in u["items"]:
                p = tok.split(":")
                items.append(("x", unhex(p[1]), None if p[2] == "NONE" else unhex(p[2])) if p[0] == "x" else (p[0], int(p[1], 2)))
            units.append({"noise": unhex(u["noise"]), "msg": None if u["msg"] is None else unhex(u["msg"]), "items": items})
        c["spec"] = {"units": units, "tail": unhex(d["spec"]["tail"])}
    if "truncated_of" in d:
        c["truncated_of"] = unhex(d["truncated_of"])
    if "cpr" in d:
        c["cpr"] = {"junk": unhex(d["cpr"]["junk"]), "row": d["cpr"]["row"], "col": d["cpr"]["col"], "rest": unhex(d["cpr"]["rest"])}
    return c


def preconditions_hold(c):
    """The hypotheses of the theorems, re-checked on the generated components."""
    if "spec" in c:
        for u in c["spec"]["units"]:
            if not first_at_end(APC_G, u["noise"]) or not u["items"]:
                return False
            names = [it[1] if it[0] == "x" else it[0].encode() for it in u["items"]]
            if len(set(names)) != len(names):
                return False
            for it in u["items"]:
                if it[0] == "x":
                    if any(b in it[1] for b in b"\x1b,;=") or it[1] in (b"i", b"I", b"p") or (it[2] is not None and any(b in it[2] for b in b"\x1b,;")):
                        return False
                    try:
                        it[1].decode("utf-8")
                        (it[2] or b"").decode("utf-8")
                    except UnicodeDecodeError:
                        return False
                elif len(str(it[1])) > 4300:
                    return False
            if u["msg"] is not None:
                if not first_at_end(ST, u["msg"]):
                    return False
                try:
                    u["msg"].decode("utf-8")
                except UnicodeDecodeError:
                    return False
        t = c["spec"]["tail"]
        if c["mode"] == "multi" or c["calls"] > len(c["spec"]["units"]):
            # the tail must not contain a complete response
            i = t.find(APC_G)
            if i >= 0 and ST in t[i + 3:]:
                return False
        return True
    if "cpr" in c:
        return first_at_end(CSI, c["cpr"]["junk"])
    if "truncated_of" in c:
        return len(c["stream"]) < len(c["truncated_of"]) and c["truncated_of"].startswith(c["stream"])
    return True


def run(ctx, model):
    cov = common.Coverage("case = (entry point, number of calls, scripted byte stream) or a primitive's argument; non-trivial = the stream contains a response introducer "
                          "(ESC _ G or ESC [) / the primitive accepts; distinct by hash of the case")
    if model is None:
        return cov
    common.scrub_process_env()
    common.import_impl()
    check_primitives(ctx, model, cov)

    cases = gen_cases(ctx)
    for p in build_spec_streams(model, cases):
        ctx.corr_breaks.append(p)
    cases = [c for c in cases if c["stream"] is not None and len(c["stream"]) <= MAX_STREAM]
    ctx.rng.shuffle(cases)  # every class is sampled early (the run stops after 25 differences)
    for k, c in enumerate(cases):
        c["path"] = k % 5 == 4   # every fifth case: the terminal object whose response stream was given as a path
    query_hex = model.one("c19.cursor_query")
    predict(model, cases, query_hex)
    for c in cases:
        if not preconditions_hold(c):
            cov.bump("generator-precondition-miss")
            for k in ("spec", "cpr", "truncated_of"):
                c.pop(k, None)

    # ---- run the implementation (pool of workers, each with its own pty + GraphicsTerminal)
    nproc = ctx.pick(6, 8)
    chunk = 40
    chunks = [list(range(i, min(i + chunk, len(cases)))) for i in range(0, len(cases), chunk)]
    mp = multiprocessing.get_context("fork")
    pool = mp.Pool(nproc)
    mismatches = 0
    stopped = False
    try:
        for idxs, results in zip(chunks, pool.imap(_run_chunk, [[task_of(cases[i]) for i in idxs] for idxs in chunks])):
            for i, impl in zip(idxs, results):
                c = cases[i]
                if strip_wall(impl) != c["model"]:
                    # real time is outside the model: a difference counts only if it persists with 10x longer timeouts
                    impl = pool.apply(run_impl, (task_of(c, 10.0),))
                    cov.bump("retried-with-longer-timeouts")
                judge(ctx, cov, c, impl)
                if strip_wall(impl) != c["model"]:
                    mismatches += 1
            if mismatches > 25:
                stopped = True
                break
    finally:
        pool.terminate()
        pool.join()
    if stopped:
        ctx.notes.append("stopped early: more than 25 differences between model and implementation")
    deadline_scenarios(ctx, cov)
    highlevel_pending(ctx, cov)
    return cov


def deadline_scenarios(ctx, cov):
    """The timeout is a DEADLINE for the whole call: bytes that keep arriving (at intervals shorter than the timeout) without
    completing a response must not keep the call alive, and a response completed after the deadline is not this call's."""
    import pty
    import threading
    import tty
    tup = common.import_impl()
    for name, tail in (("noise only", b""), ("response completed after the deadline", b"\x1b_Gi=9;OK\x1b\\")):
        master, slave = pty.openpty()
        tty.setraw(slave)
        inp = os.fdopen(slave, "rb", buffering=0, closefd=False)
        t = tup.graphics_terminal.GraphicsTerminal(out_command=common.RecStream(), out_display=common.RecStream(), in_response=inp, in_userinput=inp)
        stop = threading.Event()

        def feeder():
            t0 = time.time()
            while time.time() - t0 < 2.6 and not stop.is_set():
                os.write(master, b"x")
                time.sleep(0.12)
            if tail and not stop.is_set():
                os.write(master, tail)
        th = threading.Thread(target=feeder, daemon=True)
        th.start()
        t0 = time.time()
        try:
            r = t.receive_response(timeout=0.5)
            got = {"valid": bool(r.is_valid), "image_id": r.image_id}
        except Exception as e:  # noqa: BLE001
            got = {"exc": type(e).__name__}
        wall = time.time() - t0
        stop.set()
        th.join(timeout=5)
        os.close(master)
        os.close(slave)
        cov.add({"scenario": name, "wall": round(wall, 2), "result": got}, klass="deadline/" + name.split()[0])
        if wall > 1.6 or got.get("valid"):
            ctx.violations.append({"signature": {"class": "deadline-not-honoured", "mode": "recv"},
                                   "what": f"receive_response(timeout=0.5) while a byte arrives every 0.12 s ({name}): returned after {wall:.2f} s with {got}; "
                                           "the result must be marked invalid once 0.5 s have passed",
                                   "case": {"kind": "deadline", "scenario": name}})


def highlevel_pending(ctx, cov):
    """Responses that have ARRIVED but have not been read yet survive whatever else the high-level object does in between
    (size queries, id assignment, an upload that fails because the window size is unknown): the next receive_response calls
    return them, in order.  Run on terminals whose window size is 0x0 (a fresh pty, a serial console) and 80x24."""
    work = ctx.work

    def child():
        import pty
        import tty
        common.scrub_process_env()
        os.environ["HOME"] = work
        os.environ["XDG_STATE_HOME"] = os.path.join(work, "state")
        os.environ["XDG_CONFIG_HOME"] = os.path.join(work, "config")
        import tupimage
        from PIL import Image
        img = os.path.join(work, "c19-hl.png")
        Image.new("RGB", (4, 4), (1, 2, 3)).save(img)
        master, slave = pty.openpty()
        tty.setraw(slave)
        inp = os.fdopen(slave, "rb", buffering=0, closefd=False)
        t = tupimage.TupimageTerminal(out_command=common.RecStream(), out_display=common.RecStream(), in_response=inp, id_database=os.path.join(work, "c19-hl.db"),
                                      config="DEFAULT", upload_method="direct", redetect_terminal=False, num_tmux_layers=0)
        os.write(master, b"noise\x1b_Gi=31;OK\x1b\\more\x1b_Gi=32,p=5;ENOENT:gone\x1b\\")
        did = []
        for name, f in (("get_max_cols_and_rows", lambda: t.get_max_cols_and_rows()), ("get_cell_size", lambda: t.get_cell_size()),
                        ("assign_id", lambda: t.assign_id(img)), ("upload", lambda: t.upload(img)), ("get_optimal_cols_and_rows", lambda: t.get_optimal_cols_and_rows(10, 10))):
            try:
                f()
                did.append([name, "ok"])
            except Exception as e:  # noqa: BLE001
                did.append([name, type(e).__name__])
        got = []
        for _ in range(2):
            r_ = t.term.receive_response(timeout=0.3)
            got.append([bool(r_.is_valid), r_.image_id, r_.placement_id, r_.message, r_.non_response.hex()])
        return {"did": did, "got": got}

    for geom in ((0, 0, 0, 0), (24, 80, 640, 384)):
        r = common.in_pty(child, rows=geom[0], cols=geom[1], xpx=geom[2], ypx=geom[3], timeout=120)
        if "ok" not in r:
            ctx.corr_breaks.append({"what": "pending-responses scenario failed in the pty sandbox", "error": {k: v for k, v in r.items() if k != "tty"}})
            continue
        o = r["ok"]
        cov.add({"pending-responses": list(geom), "calls": o["did"]}, klass="highlevel/pending-responses/" + ("no-winsize" if geom[0] == 0 else "80x24"))
        want = [[True, 31, None, "OK", b"noise".hex()], [True, 32, 5, "ENOENT:gone", b"more".hex()]]
        if o["got"] != want:
            ctx.violations.append({"signature": {"class": "response-lost", "mode": "recv", "path": "TupimageTerminal"},
                                   "what": f"two responses had arrived; after the high-level calls {o['did']} on a terminal with window size {geom[1]}x{geom[0]} the next two receive_response calls "
                                           f"return {o['got']} instead of {want}",
                                   "case": {"kind": "pending", "geometry": list(geom)}})


def judge(ctx, cov, c, impl):
    nontrivial = APC_G in c["stream"] or (c["mode"] == "cursor" and CSI in c["stream"])
    cov.add({"mode": c["mode"], "calls": c["calls"], "stream": hexs(c["stream"]), "path": bool(c.get("path"))}, nontrivial=nontrivial, klass=c["klass"])
    if c.get("path"):
        cov.bump("response-stream-given-as-path")
    sc = slim_case(c)
    if strip_wall(impl) != c["model"]:
        ctx.corr_breaks.append({"what": f"{c['mode']}: implementation differs from Model.ResponseModel", "case": sc, "impl": strip_wall(impl), "model": c["model"]})
    v = spec_verdict(c, impl)
    if v is not None:
        klass, text, want = v
        ctx.violations.append({"signature": {"class": klass, "mode": c["mode"]}, "what": ("[response stream given as a path] " if c.get("path") else "") + text, "case": sc, "observed": strip_wall(impl), "expected_by_spec": want})


def replay(ctx, model, rec):
    common.scrub_process_env()
    common.import_impl()
    if rec.get("case", {}).get("kind") == "pending":
        n0 = len(ctx.violations)
        highlevel_pending(ctx, common.Coverage("replay"))
        mine = ctx.violations[n0:]
        del ctx.violations[n0:]
        return {"violates": bool(mine), "violations": [v["what"] for v in mine][:3]}
    if rec.get("case", {}).get("kind") == "deadline":
        n0 = len(ctx.violations)
        deadline_scenarios(ctx, common.Coverage("replay"))
        mine = ctx.violations[n0:]
        del ctx.violations[n0:]
        return {"violates": bool(mine), "violations": [v["what"] for v in mine][:3]}
    c = fat_case(rec["case"])
    cases = [c]
    probs = build_spec_streams(model, cases)
    predict(model, cases, model.one("c19.cursor_query"))
    if not preconditions_hold(c):
        return {"violates": False, "note": "the recorded case does not satisfy the theorem's hypotheses"}
    impl = run_impl(task_of(c, 10.0))
    v = spec_verdict(c, impl)
    return {"violates": v is not None, "verdict": v, "observed": strip_wall(impl), "model": c["model"], "spec_problems": probs}
