"""Encoding of the library's command objects as token lists for ocaml/drv_cmd.ml, and generators."""
import io

from common import hexs


def o(x, f=str):
    return "_" if x is None else f(x)


def ob(x):
    return "_" if x is None else ("1" if x else "0")


def placement_tokens(p):
    return [o(p.placement_id), ob(p.virtual), o(p.rows), o(p.cols), ob(p.do_not_move_cursor), o(p.src_x), o(p.src_y), o(p.src_w), o(p.src_h)]


def data_bytes(d):
    if isinstance(d, bytes):
        return d
    pos = d.tell()
    d.seek(0)
    b = d.read()
    d.seek(pos)
    return b


def tokens(gc, c):
    """gc = tupimage.graphics_command module; c = command object -> list of tokens"""
    if isinstance(c, gc.TransmitCommand):
        t = ["T", o(c.image_id), o(c.image_number), o(c.medium, lambda m: m.value), hexs(data_bytes(c.data)), o(c.size), o(c.offset),
             o(c.quiet, lambda q: str(q.value)), ob(c.more), o(c.format, lambda f: str(f.value)), o(c.compression, lambda z: z.value),
             o(c.pix_width), o(c.pix_height), ob(c.query), "1" if c.omit_action else "0"]
        if c.placement is None:
            t.append("_")
        else:
            t.append("P")
            t += placement_tokens(c.placement)
        return t
    if isinstance(c, gc.MoreDataCommand):
        return ["M", o(c.image_id), o(c.image_number), hexs(data_bytes(c.data)), ob(c.more)]
    if isinstance(c, gc.PutCommand):
        return ["U", o(c.image_id), o(c.image_number), o(c.quiet, lambda q: str(q.value))] + placement_tokens(c)
    if isinstance(c, gc.DeleteCommand):
        return ["D", o(c.image_id), o(c.image_number), o(c.placement_id), o(c.quiet, lambda q: str(q.value)), o(c.what, lambda w: w.value), ob(c.delete_data)]
    raise TypeError(c)


BOUNDARY = [0, 1, 2**24 - 1, 2**32 - 1]


class Gen:
    def __init__(self, rng, gc):
        self.rng = rng
        self.gc = gc

    def num(self):
        r = self.rng
        return r.choice(BOUNDARY) if r.random() < 0.6 else r.choice([r.randrange(2**32), r.randrange(10), r.randrange(300), 9, 10, 99, 100, 4294967295])

    def payload(self, kind=None):
        r = self.rng
        kind = kind or r.choice(["empty", "binary", "filename", "small"])
        if kind == "empty":
            return b""
        if kind == "binary":
            return r.randbytes(r.choice([1, 2, 3, 4, 5, 6, 30, 100]))
        if kind == "filename":
            return r.choice([b"/tmp/tty-graphics-protocol-abc.png", "/home/u/картинка 1.png".encode(), b"a;b,c=d\x1b\\.png"])
        return r.randbytes(r.randrange(0, 8))

    FIELDS_T = ["image_id", "image_number", "medium", "size", "offset", "quiet", "more", "format", "compression", "pix_width", "pix_height", "query"]
    FIELDS_P = ["placement_id", "virtual", "rows", "cols", "do_not_move_cursor", "src_x", "src_y", "src_w", "src_h"]
    FIELDS_M = ["image_id", "image_number", "more"]
    FIELDS_U = ["image_id", "image_number", "quiet"] + FIELDS_P
    FIELDS_D = ["image_id", "image_number", "placement_id", "quiet", "what", "delete_data"]

    def value(self, field):
        r, gc = self.rng, self.gc
        if field in ("more", "query", "virtual", "do_not_move_cursor", "delete_data"):
            return r.random() < 0.5
        if field == "medium":
            return r.choice(list(gc.TransmissionMedium))
        if field == "quiet":
            return r.choice(list(gc.Quietness))
        if field == "format":
            return r.choice(list(gc.Format))
        if field == "compression":
            return gc.Compression.ZLIB
        if field == "what":
            return r.choice(list(gc.WhatToDelete))
        return self.num()

    def transmit(self, present, ppresent=None, data=None, omit_action=False):
        gc = self.gc
        kw = {f: self.value(f) for f in present}
        pl = None
        if ppresent is not None:
            pl = gc.PlacementData(**{f: self.value(f) for f in ppresent})
        return gc.TransmitCommand(data=self.payload() if data is None else data, placement=pl, omit_action=omit_action, **kw)

    def more(self, present):
        return self.gc.MoreDataCommand(data=self.payload(), **{f: self.value(f) for f in present})

    def put(self, present):
        return self.gc.PutCommand(**{f: self.value(f) for f in present})

    def delete(self, present):
        return self.gc.DeleteCommand(**{f: self.value(f) for f in present})

    def subset(self, fields):
        r = self.rng
        mode = r.random()
        if mode < 0.15:
            return []
        if mode < 0.3:
            return list(fields)
        if mode < 0.45:
            return r.sample(fields, min(len(fields), r.choice([1, 2])))
        if mode < 0.6:
            return [f for f in fields if f not in r.sample(fields, 1)]
        return [f for f in fields if r.random() < 0.5]

    def random_command(self):
        r = self.rng
        k = r.random()
        if k < 0.45:
            pp = self.subset(self.FIELDS_P) if r.random() < 0.5 else None
            return self.transmit(self.subset(self.FIELDS_T), pp, omit_action=r.random() < 0.1)
        if k < 0.6:
            return self.more(self.subset(self.FIELDS_M))
        if k < 0.8:
            return self.put(self.subset(self.FIELDS_U))
        return self.delete(self.subset(self.FIELDS_D))
