"""C14 — IDs are displayed using only the terminal features their ID space allows.

Correspondence: TupimageTerminal.display_only (integer ID; under a pty sandbox, display stream
recorded write by write) vs Model.display_only for IDs taken from IDSpace.all_ids of each of the five
spaces (exhaustive for the two 8-bit spaces, a large sample of the 16-bit space, boundary + random
for the 24/32-bit spaces), both fewer_diacritics values, backgrounds "none"/names/#rrggbb/ints,
abs_pos / use_line_feeds variants.
Spec oracle on the implementation's bytes: the Spec lexer's token stream is scanned for a true-colour
foreground (SGR 38;2), a 256-colour foreground (38;5) and the largest number of diacritics on a
placeholder cell (Spec/IdFeatureSpec.v); membership of the ID in the space is decided by the Spec's
byte-level reading (cross-check of id_manager.py); a fraction of the cases is also rendered and
decoded (C07)."""
import os

import common
import placeholder_common as pc
from common import hexs, unhex

GEN_DEPS = ("gen_placeholder",)
EXTRA_PROPS = ()
ASSUMPTIONS = [
    "the five ID spaces are read by features as in coq/Spec/IdFeatureSpec.v (byte 3 non-zero iff third diacritic; colour part zero / one non-zero byte / a non-zero middle byte)",
    "features used are read off the token stream of coq/Spec/TermSpec.v's lexer: SGR 38;2 / 38;5 and diacritics following U+10EEEE",
    "display path = display_only for an integer ID with placement 0 (what upload_and_display/display_only print for an ImageInstance after resolving its ID)",
    "Pillow's ImageColor.getrgb is not modelled",
]
TRUSTED = ["ocaml/drv_c07.ml", "the pty sandbox of harness/common.py"]

SPACES = [(0, True), (8, True), (24, True), (8, False), (24, False)]
BGS = ["none", "red", "#102030", 0, 7, 255, None]


def ids_for(tup, rng, bits, third, ctx):
    sp = tup.IDSpace(bits, third)
    if (bits, third) in ((0, True), (8, False)):
        return list(sp.all_ids()), True
    if (bits, third) == (8, True):
        n = ctx.pick(3000, 20000)
        ids = list(sp.all_ids())
        assert len(ids) == 255 * 255
        edge = [i for i in ids if (i & 0xFF) in (1, 255) or (i >> 24) in (1, 255)]
        return rng.sample(edge, min(len(edge), 400)) + rng.sample(ids, n), False
    out = []
    vals = [0, 1, 255]
    for b3 in ([0] if not third else [1, 255, rng.randrange(1, 256)]):
        for b2 in vals + [rng.randrange(256)]:
            for b1 in vals + [rng.randrange(256)]:
                if b1 == 0 and b2 == 0:
                    continue
                for b0 in vals + [rng.randrange(256)]:
                    out.append((b3 << 24) | (b2 << 16) | (b1 << 8) | b0)
    for _ in range(ctx.pick(700, 15000)):
        b3 = rng.randrange(1, 256) if third else 0
        while True:
            mid = rng.randrange(1 << 16)
            if mid:
                break
        out.append((b3 << 24) | (mid << 8) | rng.randrange(256))
    # the generator of the library itself
    for _ in range(50):
        out.append(sp.gen_random_id())
    return out, False


def bg_arg(bg):
    from PIL import ImageColor

    if bg is None or (isinstance(bg, str) and bg.lower() == "none"):
        return "none"      # config default background is "none"
    if isinstance(bg, int):
        return f"int:{bg}"
    return "rgb:%d,%d,%d" % ImageColor.getrgb(bg)[:3]


def run(ctx, model):
    cov = common.Coverage("case = (space, id, rectangle, fewer_diacritics, background, abs_pos, use_line_feeds); non-trivial = every case; distinct by hash of the case")
    if model is None:
        return cov
    common.scrub_process_env()
    tup = common.import_impl()
    rng = ctx.rng
    cases = []
    for bits, third in SPACES:
        ids, exhaustive = ids_for(tup, rng, bits, third, ctx)
        cov.bump(f"space={bits},{third}/ids={'exhaustive' if exhaustive else 'sampled'}", len(ids))
        for k, i in enumerate(ids):
            r = rng.random()
            c0 = 0 if r < 0.6 else rng.choice([1, 3, 295])
            c1 = c0 + rng.choice([1, 2, 3, 5])
            r0 = 0 if rng.random() < 0.7 else rng.choice([1, 7, 295, 296])
            r1 = min(297, r0 + rng.choice([1, 2, 3]))
            variant = rng.random()
            pos, lf = None, False
            if variant < 0.15:
                pos = [rng.choice([0, 2, 5]), rng.choice([0, 1])]
            elif variant < 0.3:
                lf = True
            cases.append({"bits": bits, "third": third, "id": i, "c0": c0, "r0": r0, "c1": c1, "r1": r1, "fewer": bool(k % 2) if exhaustive else rng.random() < 0.5,
                          "bg": rng.choice(BGS), "pos": pos, "lf": lf, "final": "bottom-right" if rng.random() < 0.8 else None})
        if exhaustive:   # both fewer_diacritics values for every ID of the enumerable spaces
            extra = [dict(c, fewer=not c["fewer"]) for c in cases if c["bits"] == bits and c["third"] == third]
            cases += extra

    def child():
        common.scrub_process_env()
        os.environ["HOME"] = ctx.work
        os.environ["XDG_STATE_HOME"] = os.path.join(ctx.work, "state")
        os.environ["XDG_CONFIG_HOME"] = os.path.join(ctx.work, "config")
        import tupimage
        disp, cmd = common.RecStream(), common.RecStream()
        t = tupimage.TupimageTerminal(out_command=cmd, out_display=disp, in_response=open("/dev/tty", "rb", buffering=0),
                                      id_database=os.path.join(ctx.work, "c14.db"))
        out = []
        for c in cases:
            disp.writes.clear()
            cmd.writes.clear()
            kw = {}
            if c["final"] is not None:
                kw["final_cursor_pos"] = c["final"]
            if c["pos"] is not None:
                kw["abs_pos"] = tuple(c["pos"])
            try:
                t.display_only(c["id"], start_col=c["c0"], start_row=c["r0"], end_col=c["c1"], end_row=c["r1"], fewer_diacritics=c["fewer"],
                               background=c["bg"], use_line_feeds=c["lf"], **kw)
                out.append(["OK", [w.hex() for w in disp.writes], len(cmd.writes)])
            except Exception as e:  # noqa
                out.append([type(e).__name__, str(e)[:200], 0])
        return out

    r = common.in_pty(child, timeout=ctx.pick(300, 1800))
    if "ok" not in r:
        ctx.corr_breaks.append({"what": "TupimageTerminal.display_only failed in the pty sandbox", "error": {k: v for k, v in r.items() if k != "tty"}})
        return cov
    res = r["ok"]
    reqs = []
    for c, (st, writes, ncmd) in zip(cases, res):
        pos = "-" if c["pos"] is None else f"{c['pos'][0]},{c['pos'][1]}"
        reqs.append(f"c14.display_only {c['id']} {c['c0']} {c['r0']} {c['c1']} {c['r1']} {int(c['fewer'])} {bg_arg(c['bg'])} {pos} {int(c['lf'])} {pc.PH}")
        data = b"".join(bytes.fromhex(w) for w in writes) if st == "OK" else b""
        reqs.append(f"c14.scan {hexs(data)}")
        reqs.append(f"c14.in_space {c['bits']} {int(c['third'])} {c['id']}")
    reps = model.batch(reqs)
    render_todo = []
    for k, (c, (st, writes, ncmd)) in enumerate(zip(cases, res)):
        rep, scan, insp = reps[3 * k], reps[3 * k + 1], reps[3 * k + 2]
        space = f"{c['bits']},{c['third']}"
        cov.add(c, klass=f"space={space}/fewer={c['fewer']}/{'abs' if c['pos'] else ('lf' if c['lf'] else 'cursor')}/bg={'none' if c['bg'] in (None, 'none') else type(c['bg']).__name__}")
        if st != "OK":
            ctx.corr_breaks.append({"what": "display_only raised", "case": c, "impl": [st, writes]})
            continue
        if ncmd:
            ctx.corr_breaks.append({"what": "display_only wrote to the command stream", "case": c})
        mst, mw = pc.parse_model_reply(rep)
        iw = [bytes.fromhex(w) for w in writes]
        # with the default final_cursor_pos ("top-left"...) further cursor movement follows the placeholder
        if mst != "OK" or (iw != mw if c["final"] == "bottom-right" else iw[:len(mw)] != mw):
            ctx.corr_breaks.append({"what": "display stream of display_only differs from Model.display_only", "case": c,
                                    "impl": [hexs(x)[:200] for x in iw[:5]], "model": [mst, None if mw is None else [hexs(x)[:200] for x in mw[:5]]]})
        if insp != "1":
            ctx.violations.append({"signature": {"class": "id-not-in-feature-space", "space": space},
                                   "what": f"ID {c['id']:#x} produced by IDSpace({space}) is not in that space by the byte-level reading", "case": {"kind": "display", "case": c}})
        feats = dict(x.split("=") for x in scan.split(" "))
        bad = None
        if feats["truecolor_fg"] == "1" and c["bits"] != 24:
            bad = ("truecolor-in-non-24bit-space", "a true-colour foreground (SGR 38;2) is emitted")
        elif c["bits"] != 24 and feats["fg256"] != "1":
            bad = ("no-256-colour-form", "no 256-colour foreground (SGR 38;5) is emitted")
        elif int(feats["max_diacritics"]) >= 3 and not c["third"]:
            bad = ("third-diacritic-in-space-without", "a placeholder cell carries a third diacritic")
        if bad:
            ctx.violations.append({"signature": {"class": bad[0], "space": space},
                                   "what": f"ID {c['id']:#x} of space ({space}), fewer_diacritics={c['fewer']}: {bad[1]}", "case": {"kind": "display", "case": c}, "scan": feats})
        if c["final"] == "bottom-right" and rng.random() < 0.15:
            render_todo.append((c, b"".join(iw)))
    # decoding to the full ID (C07 oracle on the display path)
    reqs, meta = [], []
    for c, data in render_todo:
        w, h = c["c1"] - c["c0"], c["r1"] - c["r0"]
        H = rng.choice([1, 2, 5, 24])
        if c["pos"] is not None:
            x0, y0 = c["pos"]
            H = max(H, y0 + h)
            W = x0 + w + rng.choice([0, 2])
            cur = (0, 0)
            scrolls = False
        else:
            x0 = 0 if c["lf"] else rng.choice([0, 1, 4])
            y0 = rng.randrange(H)
            W = x0 + w + rng.choice([0, 2])
            cur = (x0, y0)
            scrolls = True
        reqs.append(pc.render_request(W, H, cur[0], cur[1], c["lf"], data))
        meta.append((c, W, H, x0, y0, scrolls))
    for (c, W, H, x0, y0, scrolls), rep in zip(meta, model.batch(reqs)):
        rr = pc.parse_render(rep)
        exp = pc.expected_cells(dict(c, pid=0), W, H, x0, y0, scrolls=scrolls)
        d = pc.first_diff(exp, rr["cells"])
        cov.bump("oracle/decode")
        if d is not None:
            ctx.violations.append({"signature": {"class": "decode-mismatch", "space": f"{c['bits']},{c['third']}"},
                                   "what": f"display_only output does not decode to the full ID: {d}", "case": {"kind": "display", "case": c, "screen": [W, H, x0, y0]}})
    # the space an id is taken from (and the features used to print it) after id_space was re-assigned on the live terminal
    # object is the one of a terminal constructed with the new value
    import c08_cli
    c08_cli.reconfigure_equivalence(ctx, cov, ctx.pick(16, 80), must_change=["id_space", "fewer_diacritics"])
    c08_cli.cli_equivalence(ctx, cov, ctx.pick(24, 80), env_rate=0.8)     # ... and the command line prints ids like the library call
    c08_cli.cli_id_scenarios(ctx, cov)                                     # `display id:N`, also under a configuration for another id space
    return cov


def replay(ctx, model, rec):
    if rec.get("case", {}).get("kind") == "reconfigure":
        import c08_cli
        n0 = len(ctx.violations)
        c08_cli.reconfigure_equivalence(ctx, common.Coverage("replay"), 60, must_change=["id_space", "fewer_diacritics"])
        mine = ctx.violations[n0:]
        del ctx.violations[n0:]
        return {"violates": bool(mine), "violations": [v["what"] for v in mine][:3]}
    case = rec["case"]
    if case.get("kind") != "display":
        return {"violates": False, "note": "unknown replay kind"}
    c = case["case"]

    def child():
        common.scrub_process_env()
        os.environ["HOME"] = ctx.work
        import tupimage
        disp = common.RecStream()
        t = tupimage.TupimageTerminal(out_command=common.RecStream(), out_display=disp, in_response=open("/dev/tty", "rb", buffering=0),
                                      id_database=os.path.join(ctx.work, "c14r.db"))
        kw = {"final_cursor_pos": "bottom-right"}
        if c["pos"] is not None:
            kw["abs_pos"] = tuple(c["pos"])
        t.display_only(c["id"], start_col=c["c0"], start_row=c["r0"], end_col=c["c1"], end_row=c["r1"], fewer_diacritics=c["fewer"],
                       background=c["bg"], use_line_feeds=c["lf"], **kw)
        return disp.getvalue().hex()

    r = common.in_pty(child)
    if "ok" not in r:
        return {"violates": True, "note": "display_only failed", "error": {k: v for k, v in r.items() if k != "tty"}}
    data = bytes.fromhex(r["ok"])
    feats = dict(x.split("=") for x in model.one(f"c14.scan {hexs(data)}").split(" "))
    insp = model.one(f"c14.in_space {c['bits']} {int(c['third'])} {c['id']}")
    bad = (feats["truecolor_fg"] == "1" and c["bits"] != 24) or (c["bits"] != 24 and feats["fg256"] != "1") or (int(feats["max_diacritics"]) >= 3 and not c["third"]) or insp != "1"
    out = {"violates": bool(bad), "scan": feats, "in_space": insp}
    if "screen" in case:
        W, H, x0, y0 = case["screen"]
        cur = (0, 0) if c["pos"] is not None else (x0, y0)
        rr = pc.parse_render(model.one(pc.render_request(W, H, cur[0], cur[1], c["lf"], data)))
        d = pc.first_diff(pc.expected_cells(dict(c, pid=0), W, H, x0, y0, scrolls=c["pos"] is None), rr["cells"])
        out["decode_diff"] = d
        out["violates"] = out["violates"] or d is not None
    return out
