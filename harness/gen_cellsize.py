"""Extractor plug-in for C15: the numeric literals and the exact statement shape of
TupimageTerminal.get_cell_size / get_max_cols_and_rows / get_optimal_cols_and_rows /
build_image_instance (sizing part) and GraphicsTerminal._get_sizes / get_size / get_cell_size
-> coq/Gen/CellSizeGen.v.

Every integer literal of the two sizing functions is read from the current source (they are
consumed by Model/CellSize.v and, through `src_*` lemmas, by the proofs); everything that is
control flow is compared statement by statement with the text the model was transcribed from.
Two shapes of get_optimal_cols_and_rows are recognised: with and without the statements that
cap an explicitly given dimension at its limit (fixes/C15-explicit-over-limit.patch); which one
is present is emitted as `caps_explicit`, the model follows it, the theorems need it to be true.
"""
import ast
import os

from gen_tables import extractor, parse, find_class, find_func, find_assign, body_nodoc, dump_eq, expect, HEADER

MAX_SRC = '''
def get_max_cols_and_rows(self, *, max_cols: Optional[int] = None, max_rows: Optional[int] = None) -> Tuple[int, int]:
    if max_rows is None and self._config.max_rows != "auto":
        max_rows = self._config.max_rows
    if max_cols is None and self._config.max_cols != "auto":
        max_cols = self._config.max_cols
    if max_rows is None or max_cols is None:
        term_size = self.term.get_size()
        if term_size is None:
            max_cols = max_cols or {nosize_max_cols}
            max_rows = max_rows or {nosize_max_rows}
        else:
            max_cols = max_cols or term_size[0]
            max_rows = max_rows or min(term_size[1], {term_rows_cap})
    max_rows = max({min_max_rows}, max_rows)
    max_cols = max({min_max_cols}, max_cols)
    max_rows = min({hard_max_rows}, max_rows)
    return max_cols, max_rows
'''
MAX_NAMES = ["nosize_max_cols", "nosize_max_rows", "idx0", "idx1", "term_rows_cap", "min_max_rows", "min_max_cols", "hard_max_rows"]

OPT_HEAD = '''
def get_optimal_cols_and_rows(self, width: float, height: float, *, cols: Optional[int] = None, rows: Optional[int] = None,
                              max_cols: Optional[int] = None, max_rows: Optional[int] = None, scale: Optional[float] = None) -> Tuple[int, int]:
    if cols is not None and rows is not None:
        return cols, rows
    if cols is not None and cols <= 0:
        raise ValueError(f"cols must be positive: {{cols}}")
    if rows is not None and rows <= 0:
        raise ValueError(f"rows must be positive: {{rows}}")
    max_cols, max_rows = self.get_max_cols_and_rows(max_cols=max_cols, max_rows=max_rows)
'''
OPT_CAP = '''
    if cols is not None:
        cols = min(cols, max_cols)
    if rows is not None:
        rows = min(rows, max_rows)
'''
OPT_TAIL = '''
    cell_width, cell_height = self.get_cell_size()
    local_scale = scale or self._config.scale
    effective_scale = self._config.global_scale * (local_scale if local_scale is not None else 1.0)
    width *= effective_scale
    height *= effective_scale
    cols_auto_computed = cols is None
    rows_auto_computed = rows is None
    if cols is None and rows is None:
        cols = math.ceil(width / cell_width)
        rows = math.ceil(height / cell_height)
    elif cols is None:
        cols = math.ceil(rows * cell_height * width / (height * cell_width))
    elif rows is None:
        rows = math.ceil(cols * cell_width * height / (width * cell_height))
    if cols_auto_computed and cols > max_cols:
        cols = max_cols
        rows = math.ceil(cols * cell_width * height / (width * cell_height))
    if rows_auto_computed and rows > max_rows:
        rows = max_rows
        cols = math.ceil(rows * cell_height * width / (height * cell_width))
    cols = max({final_min_cols}, min(cols, max_cols))
    rows = max({final_min_rows}, min(rows, max_rows))
    return cols, rows
'''

# since the repair of F-C15b: a derived dimension is computed from the unscaled size
OPT_TAIL_ASPECT = '''
    cell_width, cell_height = self.get_cell_size()
    local_scale = scale or self._config.scale
    effective_scale = self._config.global_scale * (local_scale if local_scale is not None else 1.0)
    orig_width, orig_height = width, height
    width *= effective_scale
    height *= effective_scale
    cols_auto_computed = cols is None
    rows_auto_computed = rows is None
    if cols is None and rows is None:
        cols = math.ceil(width / cell_width)
        rows = math.ceil(height / cell_height)
    elif cols is None:
        cols = math.ceil(rows * cell_height * orig_width / (orig_height * cell_width))
    elif rows is None:
        rows = math.ceil(cols * cell_width * orig_height / (orig_width * cell_height))
    if cols_auto_computed and cols > max_cols:
        cols = max_cols
        rows = math.ceil(cols * cell_width * orig_height / (orig_width * cell_height))
    if rows_auto_computed and rows > max_rows:
        rows = max_rows
        cols = math.ceil(rows * cell_height * orig_width / (orig_height * cell_width))
    cols = max({final_min_cols}, min(cols, max_cols))
    rows = max({final_min_rows}, min(rows, max_rows))
    return cols, rows
'''

CELL_SRC = '''
def get_cell_size(self) -> Tuple[int, int]:
    if self._config.cell_size == "auto":
        cell_size = self.term.get_cell_size()
        if cell_size is None:
            return self._config.default_cell_size
        return cell_size
    return self._config.cell_size
'''

GT_SIZES = '''
def _get_sizes(self, fileno) -> Tuple[int, int, int, int]:
    try:
        return struct.unpack("HHHH", fcntl.ioctl(fileno, termios.TIOCGWINSZ, struct.pack("HHHH", 0, 0, 0, 0)))
    except OSError:
        return 0, 0, 0, 0
'''
GT_SIZE = '''
def get_size(self) -> Tuple[int, int]:
    for fileno in self._get_all_filenos():
        lines, cols, _, _ = self._get_sizes(fileno)
        if lines != 0 and cols != 0:
            return (cols, lines)
    raise ValueError("Could not determine terminal size")
'''
GT_CELL = '''
def get_cell_size(self) -> Optional[Tuple[int, int]]:
    for fileno in self._get_all_filenos():
        lines, cols, width, height = self._get_sizes(fileno)
        if lines != 0 and cols != 0 and width != 0 and height != 0:
            return (width // cols, height // lines)
    return None
'''
BUILD_IF = '''
if cols is None or rows is None:
    if isinstance(image, str):
        open_image = Image.open(image)
        width, height = open_image.size
        open_image.close()
    else:
        width, height = image.size
    cols, rows = self.get_optimal_cols_and_rows(width, height, cols=cols, rows=rows, max_cols=max_cols, max_rows=max_rows, scale=scale)
'''


def _int_consts(fn):
    """int literals of a function body in source order (bool excluded)."""
    res = []
    for n in ast.walk(ast.Module(body=body_nodoc(fn), type_ignores=[])):
        if isinstance(n, ast.Constant) and isinstance(n.value, int) and not isinstance(n.value, bool):
            res.append((n.lineno, n.col_offset, n.value))
    return [v for _, _, v in sorted(res)]


def _same_function(fn, src, what):
    exp = ast.parse(src).body[0]
    expect(ast.dump(fn.args) == ast.dump(exp.args), f"{what}: signature changed: {ast.unparse(fn.args)}")
    got, want = body_nodoc(fn), body_nodoc(exp)
    for i, (g, w) in enumerate(zip(got, want)):
        expect(ast.dump(g) == ast.dump(w), f"{what}: statement {i + 1} changed\n   now: {ast.unparse(g)[:300]}\n   was: {ast.unparse(w)[:300]}")
    expect(len(got) == len(want), f"{what}: {len(got)} statements, expected {len(want)}")


@extractor
def gen_cellsize(repo, out):
    try:
        _gen_cellsize(repo, out)
    except Exception:
        # fail-closed, but never leave a table generated from some *other* tree behind: fall back to the
        # last validated table (coq/GenGolden), so that the model-as-validated is what gets compared
        # with the changed code; the caller reports the broken tie.
        golden = os.path.join(os.path.dirname(os.path.abspath(__file__)), "..", "coq", "GenGolden", "CellSizeGen.v")
        if os.path.exists(golden):
            with open(golden) as f:
                out.add("CellSizeGen.v", f.read())
        raise


def _gen_cellsize(repo, out):
    tt = parse(repo, "tupimage/tupimage_terminal.py")
    gt = parse(repo, "tupimage/graphics_terminal.py")
    T = find_class(tt, "TupimageTerminal")
    G = find_class(gt, "GraphicsTerminal")

    # --- get_max_cols_and_rows: literals in source order, then the whole function against the template
    fn = find_func(T, "get_max_cols_and_rows")
    ints = _int_consts(fn)
    expect(len(ints) == len(MAX_NAMES), f"get_max_cols_and_rows: {len(ints)} integer literals, expected {len(MAX_NAMES)}: {ints}")
    c = dict(zip(MAX_NAMES, ints))
    expect(c["idx0"] == 0 and c["idx1"] == 1, "get_max_cols_and_rows: term_size[0] / term_size[1] indices changed")
    _same_function(fn, MAX_SRC.format(**c), "get_max_cols_and_rows")

    # --- get_optimal_cols_and_rows
    fn = find_func(T, "get_optimal_cols_and_rows")
    ints = _int_consts(fn)
    expect(len(ints) == 4 and ints[0] == 0 and ints[1] == 0, f"get_optimal_cols_and_rows: integer literals changed: {ints}")
    c2 = {"final_min_cols": ints[2], "final_min_rows": ints[3]}
    nstmt = len(body_nodoc(fn))
    aspect = "orig_width" in ast.unparse(fn)
    tail = (OPT_TAIL_ASPECT if aspect else OPT_TAIL).format(**c2)
    if nstmt == len(ast.parse(OPT_HEAD.format() + tail).body[0].body):
        caps = False
        _same_function(fn, OPT_HEAD.format() + tail, "get_optimal_cols_and_rows (explicit dimensions not capped)")
    else:
        caps = True
        _same_function(fn, OPT_HEAD.format() + OPT_CAP + tail, "get_optimal_cols_and_rows (explicit dimensions capped)")
    c.update(c2)

    # --- the rest is shape only
    _same_function(find_func(T, "get_cell_size"), CELL_SRC, "TupimageTerminal.get_cell_size")
    _same_function(find_func(G, "_get_sizes"), GT_SIZES, "GraphicsTerminal._get_sizes")
    _same_function(find_func(G, "get_size"), GT_SIZE, "GraphicsTerminal.get_size")
    _same_function(find_func(G, "get_cell_size"), GT_CELL, "GraphicsTerminal.get_cell_size")
    b = body_nodoc(find_func(T, "build_image_instance"))
    expect(len(b) == 3, "build_image_instance: statements")
    dump_eq(b[1], BUILD_IF, "build_image_instance: sizing branch")

    # --- config defaults (TupimageConfig dataclass)
    C = find_class(tt, "TupimageConfig")
    dcs = find_assign(C, "default_cell_size")
    expect(isinstance(dcs, ast.Tuple) and len(dcs.elts) == 2 and all(isinstance(e, ast.Constant) and type(e.value) is int for e in dcs.elts),
           "TupimageConfig.default_cell_size: expected a pair of int literals")
    for name, want in (("cell_size", "auto"), ("max_rows", "auto"), ("max_cols", "auto"), ("scale", 1.0), ("global_scale", 1.0)):
        v = find_assign(C, name)
        expect(isinstance(v, ast.Constant) and v.value == want and type(v.value) is type(want), f"TupimageConfig.{name}: default changed: {ast.unparse(v)}")

    t = HEADER + "Open Scope Z_scope.\n"
    for k in ("nosize_max_cols", "nosize_max_rows", "term_rows_cap", "min_max_rows", "min_max_cols", "hard_max_rows", "final_min_cols", "final_min_rows"):
        t += f"Definition {k} : Z := {c[k]}.\n"
    t += f"Definition default_cell_w : Z := {dcs.elts[0].value}.\nDefinition default_cell_h : Z := {dcs.elts[1].value}.\n"
    t += "(* does get_optimal_cols_and_rows cap an explicitly given dimension at its limit before using it? *)\n"
    t += f"Definition caps_explicit : bool := {'true' if caps else 'false'}.\n"
    t += "(* is a dimension that is derived from the other one computed from the UNSCALED image size? *)\n"
    t += f"Definition aspect_unscaled : bool := {'true' if aspect else 'false'}.\n"
    out.add("CellSizeGen.v", t)
