"""Extractor plug-in for C08: the literals and the shape of the code that decides what is transmitted and what is
printed -> Gen/SystemGen.v.

Read from tupimage/tupimage_terminal.py, each function compared *structurally* with a template in which only the
named holes may vary (everything else: fail-closed):
  TupimageTerminal.__init__            the inside_ssh test (which variables)
  _get_image_path_and_mtime            what the description of an in-memory image covers (bytes only | mode+size+bytes)
  upload (head)                        whether an ImageInstance whose id is bound to something else is bound again
  get_supported_formats                the automatic format list
  get_max_upload_size                  which limit belongs to which medium
  _upload                              order of the tests, the "auto" rule, which medium each branch announces, the
                                       temp-file prefix, quiet/format/placement fields of the inline command
  _transmit_file                       the fields of the by-name command and of the inline-file command
  upload_and_display, display_only     the placeholder is printed for the instance's id with its cols/rows
"""
import ast

from gen_tables import HEADER, ExtractError, coq_bool, coq_bytes, coq_list, expect, extractor, find_class, find_func, parse


def match(t, a, binds, where):
    """structural comparison of template AST t with actual AST a; Names HOLE_x in t bind to any expression"""
    if isinstance(t, ast.Name) and t.id.startswith("HOLE_"):
        if t.id in binds:
            expect(ast.dump(binds[t.id]) == ast.dump(a), f"{where}: {t.id} differs between occurrences")
        else:
            binds[t.id] = a
        return
    expect(type(t) is type(a), f"{where}: shape changed near `{ast.unparse(a)[:120] if isinstance(a, ast.AST) else a}` (expected {type(t).__name__})")
    for field in t._fields:
        if field in ("ctx", "type_comment", "kind", "returns", "decorator_list", "type_params"):
            continue
        tv, av = getattr(t, field, None), getattr(a, field, None)
        if isinstance(t, ast.arg) and field == "annotation":
            continue
        if isinstance(tv, list):
            expect(isinstance(av, list) and len(tv) == len(av), f"{where}: number of {field} changed near `{ast.unparse(a)[:160]}`")
            for x, y in zip(tv, av):
                if isinstance(x, ast.AST):
                    match(x, y, binds, where)
                else:
                    expect(x == y, f"{where}: {field} changed")
        elif isinstance(tv, ast.AST):
            expect(isinstance(av, ast.AST), f"{where}: {field} missing")
            match(tv, av, binds, where)
        else:
            expect(tv == av, f"{where}: {field} changed: {av!r} (was {tv!r})")


def strip_doc(fn):
    b = fn.body
    if b and isinstance(b[0], ast.Expr) and isinstance(b[0].value, ast.Constant) and isinstance(b[0].value.value, str):
        fn.body = b[1:]
    return fn


def match_func(fn, template_src, where):
    t = ast.parse(template_src).body[0]
    binds = {}
    match(strip_doc(t), strip_doc(fn), binds, where)
    return binds


MEDIA = {"DIRECT": "MDirect", "FILE": "MFile", "TEMP_FILE": "MTemp", "SHARED_MEMORY": "MShm"}


def medium_of(node, what):
    s = ast.unparse(node)
    expect(s.startswith("TransmissionMedium.") and s.split(".", 1)[1] in MEDIA, f"{what}: expected a TransmissionMedium member, got {s}")
    return MEDIA[s.split(".", 1)[1]]


def str_of(node, what):
    expect(isinstance(node, ast.Constant) and isinstance(node.value, str), f"{what}: expected a string literal, got {ast.unparse(node)[:60]}")
    return node.value


def int_of(node, what):
    expect(isinstance(node, ast.Constant) and isinstance(node.value, int) and not isinstance(node.value, bool), f"{what}: expected an int literal")
    return node.value


T_UPLOAD = '''
def _upload(self, inst, *, check_response=None, upload_method=None):
    if check_response is None:
        check_response = self._config.check_response
    if upload_method is None:
        upload_method = self._config.upload_method
    if upload_method == HOLE_AUTO:
        if self.inside_ssh:
            upload_method = HOLE_AUTO_SSH
        else:
            upload_method = HOLE_AUTO_PLAIN
    if isinstance(upload_method, str):
        upload_method = TransmissionMedium.from_string(upload_method)
    if upload_method not in [TransmissionMedium.FILE, TransmissionMedium.DIRECT]:
        raise ValueError(f"Unsupported upload method: {upload_method}")

    if check_response:
        raise NotImplementedError("Checking the response is not yet implemented")

    max_upload_size = self.get_max_upload_size(upload_method)

    if inst.image is None:
        if not inst.is_file_available():
            raise FileNotFoundError(
                f"Image file {inst.path} with mtime {inst.mtime} does not"
                " exist or was overwritten"
            )
        image_object = Image.open(inst.path)
        if self._is_format_supported(image_object.format):
            size = os.path.getsize(inst.path)
            if size <= max_upload_size:
                image_object.close()
                self._transmit_file(inst.path, inst, HOLE_USER_MEDIUM)
                return size
    else:
        image_object = inst.image

    bits = HOLE_RGB_BITS if image_object.mode == HOLE_RGB else HOLE_OTHER_BITS
    width, height = image_object.size
    image_bytes = width * height * (bits / 8)
    if image_bytes > max_upload_size:
        ratio = math.sqrt(max_upload_size / image_bytes)
        width = max(1, math.floor(width * ratio))
        height = max(1, math.floor(height * ratio))
        image_object = image_object.resize((width, height))

    if upload_method == TransmissionMedium.FILE:
        with tempfile.NamedTemporaryFile("wb", delete=False, prefix=HOLE_PREFIX) as f:
            image_object.save(
                f,
                format=(
                    image_object.format
                    if self._is_format_supported(image_object.format)
                    else HOLE_FALLBACK_FORMAT
                ),
            )
            f.flush()
            size = f.tell()
            f.close()
            self._transmit_file(f.name, inst, HOLE_TEMP_MEDIUM)
            return size
    elif upload_method == TransmissionMedium.DIRECT:
        bytesio = io.BytesIO()
        image_object.save(bytesio, format=HOLE_INLINE_FORMAT)
        size = bytesio.tell()
        self.term.send_command(
            TransmitCommand(
                image_id=inst.id,
                medium=HOLE_INLINE_MEDIUM,
                quiet=HOLE_QUIET,
                format=HOLE_FORMAT,
                pix_width=image_object.width,
                pix_height=image_object.height,
            )
            .set_placement(virtual=HOLE_VIRTUAL, rows=HOLE_ROWS, cols=HOLE_COLS)
            .set_data(bytesio)
        )
        return size
'''

T_TRANSMIT_FILE = '''
def _transmit_file(self, filename, inst, upload_method):
    if (
        upload_method == TransmissionMedium.FILE
        or upload_method == TransmissionMedium.TEMP_FILE
    ):
        self.term.send_command(
            TransmitCommand(
                image_id=inst.id,
                medium=upload_method,
                quiet=HOLE_QUIET,
                format=HOLE_FORMAT,
            )
            .set_placement(virtual=HOLE_VIRTUAL, rows=HOLE_ROWS, cols=HOLE_COLS)
            .set_filename(filename)
        )
    elif upload_method == TransmissionMedium.DIRECT:
        with open(inst.path, "rb") as f:
            self.term.send_command(
                TransmitCommand(
                    image_id=inst.id,
                    medium=HOLE_INLINE_MEDIUM,
                    quiet=HOLE_QUIET,
                    format=HOLE_FORMAT,
                )
                .set_placement(virtual=HOLE_VIRTUAL, rows=HOLE_ROWS, cols=HOLE_COLS)
                .set_data(f)
            )
'''

T_MAX_SIZE = '''
def get_max_upload_size(self, upload_method):
    if upload_method in [TransmissionMedium.FILE, TransmissionMedium.TEMP_FILE]:
        return self._config.file_max_size
    elif upload_method == TransmissionMedium.DIRECT:
        return self._config.stream_max_size
    else:
        raise ValueError(f"Unsupported upload method: {upload_method}")
'''

T_FORMATS = '''
def get_supported_formats(self):
    if self._config.supported_formats == "auto":
        formats = HOLE_AUTO_FORMATS
        if self._terminal_name.startswith(HOLE_ST):
            formats.append(HOLE_ST_FORMAT)
    else:
        formats = self._config.supported_formats
    return [f.lower() for f in formats]
'''

T_IS_SUPPORTED = '''
def _is_format_supported(self, format):
    return format is not None and format.lower() in self.get_supported_formats()
'''

T_UPLOAD_AND_DISPLAY = '''
def upload_and_display(self, image, *, cols=None, rows=None, max_cols=None, max_rows=None, scale=None, id_space=None,
                       id_subspace=None, force_id=None, force_upload=None, check_response=None, upload_method=None,
                       fewer_diacritics=None, background=None, abs_pos=None, final_cursor_pos=None, use_line_feeds=False):
    inst = self.upload(image, cols=cols, rows=rows, max_cols=max_cols, max_rows=max_rows, scale=scale, id_space=id_space,
                       id_subspace=id_subspace, force_id=force_id, force_upload=force_upload, check_response=check_response,
                       upload_method=upload_method)
    return self.display_only(inst, fewer_diacritics=fewer_diacritics, background=background, abs_pos=abs_pos,
                             final_cursor_pos=final_cursor_pos, use_line_feeds=use_line_feeds)
'''

T_INSTANCE_BRANCH = '''
if isinstance(id, ImageInstance):
    start_col = start_col or 0
    start_row = start_row or 0
    end_col = end_col or HOLE_END_COL
    end_row = end_row or HOLE_END_ROW
    if not allow_expansion:
        end_col = min(end_col, id.cols)
        end_row = min(end_row, id.rows)
    id = HOLE_ID
'''

T_UPLOAD_HEAD_OLD = '''
if isinstance(image, ImageInstance):
    inst = image
    if cols is not None or rows is not None:
        raise ValueError("Cannot specify cols or rows when uploading an ImageInstance")
    if force_id is not None:
        raise ValueError("Cannot specify force_id when uploading an ImageInstance")
    if inst.id is None:
        raise ValueError("Cannot upload an ImageInstance without an ID")
else:
    inst = self.assign_id(image, cols=cols, rows=rows, max_cols=max_cols, max_rows=max_rows, scale=scale,
                          id_space=id_space, id_subspace=id_subspace, force_id=force_id)
'''

T_UPLOAD_HEAD_REBIND = '''
if isinstance(image, ImageInstance):
    inst = image
    if cols is not None or rows is not None:
        raise ValueError("Cannot specify cols or rows when uploading an ImageInstance")
    if force_id is not None:
        raise ValueError("Cannot specify force_id when uploading an ImageInstance")
    if inst.id is None:
        raise ValueError("Cannot upload an ImageInstance without an ID")
    info = self.id_manager.get_info(inst.id)
    if info is None or info.description != inst.get_description():
        self.id_manager.set_id(inst.id, inst.get_description())
else:
    inst = self.assign_id(image, cols=cols, rows=rows, max_cols=max_cols, max_rows=max_rows, scale=scale,
                          id_space=id_space, id_subspace=id_subspace, force_id=force_id)
'''

T_DIGEST_NEW = '''
if True:
    md5 = hashlib.md5(f"{image.mode}:{image.size[0]}x{image.size[1]}:".encode())
    md5.update(image.tobytes())
    md5sum = md5.hexdigest()
    return (f":tupimage:{md5sum}", datetime.datetime.fromtimestamp(0))
'''
T_DIGEST_OLD = '''
if True:
    md5sum = hashlib.md5(image.tobytes()).hexdigest()
    return (f":tupimage:{md5sum}", datetime.datetime.fromtimestamp(0))
'''

T_ASSIGN_TAIL = '''
if True:
    descr = inst.get_description()
    if force_id is not None:
        self.id_manager.set_id(force_id, descr)
        inst.id = force_id
        return inst
    id_space = self.get_id_space(id_space)
    id_subspace = self.get_subspace(id_subspace)
    inst.id = self.id_manager.get_id(descr, id_space, subspace=id_subspace)
    return inst
'''


def try_match_block(stmts, template_src, where):
    t = ast.parse(template_src).body[0]
    binds = {}
    tb = t.body if isinstance(t, ast.If) and ast.unparse(t.test) == "True" else [t]
    expect(len(tb) == len(stmts), f"{where}: number of statements changed")
    for x, y in zip(tb, stmts):
        match(x, y, binds, where)
    return binds


QUIET = {"tupimage.Quietness.QUIET_ALWAYS": "QAlways", "tupimage.Quietness.QUIET_UNLESS_ERROR": "QUnlessError", "tupimage.Quietness.VERBOSE": "QVerbose"}
FORMAT = {"tupimage.Format.PNG": "FPng", "tupimage.Format.RGB": "FRgb", "tupimage.Format.RGBA": "FRgba"}


def tx_fields(b, where):
    q, f = ast.unparse(b["HOLE_QUIET"]), ast.unparse(b["HOLE_FORMAT"])
    expect(q in QUIET, f"{where}: quiet={q}")
    expect(f in FORMAT, f"{where}: format={f}")
    v = b["HOLE_VIRTUAL"]
    expect(isinstance(v, ast.Constant) and isinstance(v.value, bool), f"{where}: virtual= is not a literal")
    r, c = ast.unparse(b["HOLE_ROWS"]), ast.unparse(b["HOLE_COLS"])
    if (r, c) == ("inst.rows", "inst.cols"):
        straight = True
    elif (r, c) == ("inst.cols", "inst.rows"):
        straight = False
    else:
        raise ExtractError(f"{where}: placement rows={r}, cols={c}")
    return QUIET[q], FORMAT[f], v.value, straight


@extractor
def gen_system(repo, out):
    tt = parse(repo, "tupimage/tupimage_terminal.py")
    cls = find_class(tt, "TupimageTerminal")

    # ---- inside_ssh
    init = find_func(cls, "__init__")
    ssh = None
    for n in ast.walk(init):
        if isinstance(n, ast.AnnAssign) and ast.unparse(n.target) == "self.inside_ssh":
            ssh = n.value
    expect(ssh is not None, "__init__: self.inside_ssh assignment not found")
    expect(isinstance(ssh, ast.BoolOp) and isinstance(ssh.op, ast.Or), "__init__: inside_ssh is not an `or` of tests")
    ssh_vars = []
    for v in ssh.values:
        b = {}
        match(ast.parse("os.environ.get(HOLE_V) is not None").body[0].value, v, b, "__init__: inside_ssh test")
        ssh_vars.append(str_of(b["HOLE_V"], "inside_ssh variable"))

    # ---- description of in-memory images
    fn = find_func(cls, "_get_image_path_and_mtime")
    body = strip_doc(fn).body
    expect(len(body) == 1 and isinstance(body[0], ast.If) and ast.unparse(body[0].test) == "isinstance(image, str)", "_get_image_path_and_mtime: outer test")
    els = body[0].orelse
    try:
        try_match_block(els, T_DIGEST_NEW, "_get_image_path_and_mtime (in-memory branch)")
        digest_covers_shape = True
    except ExtractError:
        try_match_block(els, T_DIGEST_OLD, "_get_image_path_and_mtime (in-memory branch)")
        digest_covers_shape = False
    file_branch = ast.unparse(ast.Module(body=body[0].body, type_ignores=[]))
    expect("os.path.abspath(image), datetime.datetime.fromtimestamp(os.path.getmtime(image))" in file_branch.replace("(\n", "(").replace("\n", " ") or
           "os.path.getmtime(image)" in file_branch, "_get_image_path_and_mtime: file branch no longer reads the mtime")

    # ---- assign_id tail: description -> get_id
    fn = find_func(cls, "assign_id")
    ab = strip_doc(fn).body
    expect(len(ab) == 7 and ast.unparse(ab[0]).startswith("inst = self.build_image_instance(image, id=0, cols=cols, rows=rows"), "assign_id: head changed")
    try_match_block(ab[1:], T_ASSIGN_TAIL, "assign_id")

    # ---- upload head
    fn = find_func(cls, "upload")
    ub = strip_doc(fn).body
    expect(len(ub) == 5, "upload: number of statements changed")
    try:
        try_match_block([ub[0]], T_UPLOAD_HEAD_REBIND, "upload (ImageInstance branch)")
        rebinds = True
    except ExtractError:
        try_match_block([ub[0]], T_UPLOAD_HEAD_OLD, "upload (ImageInstance branch)")
        rebinds = False

    # ---- formats, limits
    b = match_func(find_func(cls, "get_supported_formats"), T_FORMATS, "get_supported_formats")
    af = b["HOLE_AUTO_FORMATS"]
    expect(isinstance(af, ast.List), "get_supported_formats: automatic list is not a list literal")
    auto_formats = [str_of(x, "automatic format") for x in af.elts]
    st_prefix = str_of(b["HOLE_ST"], "terminal-name prefix")
    st_format = str_of(b["HOLE_ST_FORMAT"], "extra format")
    match_func(find_func(cls, "_is_format_supported"), T_IS_SUPPORTED, "_is_format_supported")
    match_func(find_func(cls, "get_max_upload_size"), T_MAX_SIZE, "get_max_upload_size")

    # ---- _upload
    b = match_func(find_func(cls, "_upload"), T_UPLOAD, "_upload")
    auto_word = str_of(b["HOLE_AUTO"], "_upload: the automatic method's name")
    auto_ssh = medium_of(b["HOLE_AUTO_SSH"], "_upload: auto inside ssh")
    auto_plain = medium_of(b["HOLE_AUTO_PLAIN"], "_upload: auto outside ssh")
    um = ast.unparse(b["HOLE_USER_MEDIUM"])
    user_medium = "resolved" if um == "upload_method" else medium_of(b["HOLE_USER_MEDIUM"], "_upload: medium of the user's own file")
    temp_medium = medium_of(b["HOLE_TEMP_MEDIUM"], "_upload: medium of the library's temporary file")
    inline_medium = medium_of(b["HOLE_INLINE_MEDIUM"], "_upload: medium of the inline transmission")
    prefix = str_of(b["HOLE_PREFIX"], "_upload: temp-file prefix")
    rgb_bits, other_bits = int_of(b["HOLE_RGB_BITS"], "bits"), int_of(b["HOLE_OTHER_BITS"], "bits")
    expect(str_of(b["HOLE_RGB"], "mode") == "RGB", "_upload: mode literal")
    expect(str_of(b["HOLE_FALLBACK_FORMAT"], "fallback format") == "PNG" and str_of(b["HOLE_INLINE_FORMAT"], "inline format") == "PNG", "_upload: PNG is no longer the encoding of converted images")
    q1, f1, v1, s1 = tx_fields(b, "_upload inline command")

    # ---- _transmit_file
    b2 = match_func(find_func(cls, "_transmit_file"), T_TRANSMIT_FILE, "_transmit_file")
    q2, f2, v2, s2 = tx_fields(b2, "_transmit_file")
    expect((q1, f1, v1) == (q2, f2, v2), "the inline and the by-name commands no longer carry the same quiet/format/virtual fields")
    inline_file_medium = medium_of(b2["HOLE_INLINE_MEDIUM"], "_transmit_file: inline medium")
    expect(inline_file_medium == inline_medium, "_transmit_file: inline medium differs from _upload's")

    # ---- upload_and_display, display_only
    match_func(find_func(cls, "upload_and_display"), T_UPLOAD_AND_DISPLAY, "upload_and_display")
    fn = find_func(cls, "display_only")
    db = strip_doc(fn).body
    expect(isinstance(db[1], ast.If) and db[1].orelse and isinstance(db[1].orelse[0], ast.If), "display_only: dispatch on the kind of id")
    inst_branch = db[1].orelse[0]
    b3 = {}
    t = ast.parse(T_INSTANCE_BRANCH).body[0]
    match(t.test, inst_branch.test, b3, "display_only: ImageInstance test")
    expect(len(t.body) == len(inst_branch.body), "display_only: ImageInstance branch statements")
    for x, y in zip(t.body, inst_branch.body):
        match(x, y, b3, "display_only: ImageInstance branch")
    ec, er, idd = ast.unparse(b3["HOLE_END_COL"]), ast.unparse(b3["HOLE_END_ROW"]), ast.unparse(b3["HOLE_ID"])
    expect(idd == "id.id", f"display_only prints id {idd}")
    if (ec, er) == ("id.cols", "id.rows"):
        print_straight = True
    elif (ec, er) == ("id.rows", "id.cols"):
        print_straight = False
    else:
        raise ExtractError(f"display_only: end_col={ec}, end_row={er}")
    calls = [n for n in ast.walk(fn) if isinstance(n, ast.Call) and ast.unparse(n.func) == "self.term.print_placeholder"]
    expect(len(calls) == 2, "display_only: print_placeholder call sites")
    for c in calls:
        kw = {k.arg: ast.unparse(k.value) for k in c.keywords}
        expect(kw.get("image_id") == "id" and kw.get("end_col") == "end_col" and kw.get("end_row") == "end_row" and kw.get("start_col") == "start_col"
               and kw.get("start_row") == "start_row", "display_only: arguments of print_placeholder changed")

    def umed(m):
        return m

    t = HEADER + "From Tup Require Import Lib.CommandTypes.\n\n"
    t += f"Definition ssh_variables : list (list N) := {coq_list(coq_bytes(x) for x in ssh_vars)}.\n"
    t += f"Definition auto_word : list N := {coq_bytes(auto_word)}.\n"
    t += f"Definition auto_ssh_medium : medium := {auto_ssh}.\n"
    t += f"Definition auto_plain_medium : medium := {auto_plain}.\n"
    t += "(* the medium announced for the user's own file, given the resolved upload method *)\n"
    t += f"Definition user_file_medium (resolved : medium) : medium := {'resolved' if user_medium == 'resolved' else user_medium}.\n"
    t += f"Definition temp_file_medium : medium := {temp_medium}.\n"
    t += f"Definition inline_medium : medium := {inline_medium}.\n"
    t += f"Definition temp_prefix : list N := {coq_bytes(prefix)}.\n"
    t += f"Definition rgb_bits : Z := {rgb_bits}%Z.\nDefinition other_bits : Z := {other_bits}%Z.\n"
    t += f"Definition tx_quiet : quietness := {q1}.\nDefinition tx_format : format := {f1}.\nDefinition tx_virtual : bool := {coq_bool(v1)}.\n"
    t += f"Definition inline_rows_cols_straight : bool := {coq_bool(s1)}.\n"
    t += f"Definition byname_rows_cols_straight : bool := {coq_bool(s2)}.\n"
    t += f"Definition print_rows_cols_straight : bool := {coq_bool(print_straight)}.\n"
    t += f"Definition auto_formats : list (list N) := {coq_list(coq_bytes(x) for x in auto_formats)}.\n"
    t += f"Definition st_name_prefix : list N := {coq_bytes(st_prefix)}.\nDefinition st_extra_format : list N := {coq_bytes(st_format)}.\n"
    t += f"Definition digest_covers_shape : bool := {coq_bool(digest_covers_shape)}.\n"
    t += f"Definition upload_rebinds_stale_instance : bool := {coq_bool(rebinds)}.\n"
    out.add("SystemGen.v", t)
