"""C07 — printed Unicode placeholders decode to exactly the requested cells.

Correspondence: Model.PlaceholderModel (to_lines, to_stream_with_linefeeds, to_stream, print_placeholder)
vs ImagePlaceholder / GraphicsTerminal.print_placeholder: the exception type or the exact list of
lines / stream.write() arguments, on all 160 modes x 4 styles in every tier.
Spec oracle: the implementation's bytes are fed to the *extracted* Spec terminal (Spec/TermSpec.v) and
decoded by Spec/PlaceholderSpec.v; the decoded cell map must be exactly the requested rectangle at the
expected position (after scrolling), nothing else."""
import os

import common
import placeholder_common as pc
from common import hexs, unhex

GEN_DEPS = ("gen_placeholder",)
EXTRA_PROPS = ()
ASSUMPTIONS = [
    "a conforming terminal is the one in coq/Spec/TermSpec.v (cells, pending wrap, IND/LF scroll at the bottom row, CSI s/u, CUB, CUP, SGR 38/48/58, zero-width = Mn/Me)",
    "the protocol's decoding rules are those in coq/Spec/PlaceholderSpec.v; its diacritic table is golden/rowcolumn-diacritics.txt (cross-checked against unicodedata at every build)",
    "line-feed style: the stream reaches the terminal through a tty with ONLCR (LF -> CR LF), cursor initially in column 0",
    "relative-move style: the rectangle must not touch the right margin (documented as unreliable in the source)",
    "Python's bytes % ints = Lib/PyFmtD.fmt_d, str.encode = Lib/Utf8.utf8_encode, & and >> = N.land / N.shiftr (compared on every case)",
]
TRUSTED = ["ocaml/drv_c07.ml (argument parsing, formatting closures, printing of the rendered screen)"]


def byte_class_id(rng):
    while True:
        v = 0
        for k in range(4):
            v |= rng.choice([0, 1, 255, rng.randrange(256)]) << (8 * k)
        if v:
            return v


def gen_rect(rng, blank_rows_ok):
    r = rng.random()
    if r < 0.45:
        c0 = 0
    elif r < 0.75:
        c0 = rng.choice([1, 2, rng.randrange(1, 40)])
    else:
        c0 = rng.choice([290, 294, 295, 296])
    r = rng.random()
    if r < 0.7:
        c1 = c0 + rng.choice([1, 2, 3, rng.randrange(1, 13)])
    elif r < 0.85:
        c1 = max(c0 + 1, rng.choice([296, 297, 298, 300]))
        if c1 - c0 > 16 and rng.random() < 0.7:
            c0 = c1 - rng.randrange(1, 10)
    else:
        c1 = max(c0 + 1, rng.choice([296, 297, 298, 400]))
    r = rng.random()
    if r < 0.5:
        r0 = 0
    elif r < 0.8:
        r0 = rng.randrange(0, 30)
    else:
        r0 = rng.choice([290, 294, 295, 296])
    r = rng.random()
    if r < 0.75:
        r1 = r0 + rng.choice([1, 2, 3, rng.randrange(1, 9)])
        if not blank_rows_ok:
            r1 = min(r1, 297)
    elif r < 0.9 or not blank_rows_ok:
        r1 = max(r0 + 1, rng.choice([296, 297]))
        if r1 - r0 > 12:
            r0 = r1 - rng.randrange(1, 8)
    else:
        r1 = max(r0 + 1, rng.choice([298, 299, 305]))
        if r1 - r0 > 12:
            r0 = r1 - rng.randrange(1, 10)
    return c0, r0, c1, r1


def gen_case(rng, mode, style, api=None):
    c0, r0, c1, r1 = gen_rect(rng, blank_rows_ok=rng.random() < 0.15)
    r = rng.random()
    if r < 0.6:
        fmt = {"kind": "N"}
    elif r < 0.92:
        fmt = pc.gen_fmt(rng, bg_only=True, allow_none=False)
    else:
        fmt = pc.gen_fmt(rng, bg_only=False, allow_none=False)
    use_save, use_lf = {"sr": (True, False), "rel": (False, False), "lf": (rng.random() < 0.5, True), "abs": (rng.random() < 0.7, False)}[style]
    c = {
        "api": api or rng.choice(["to_stream", "to_stream", "to_stream", "print_placeholder"]),
        "id": byte_class_id(rng) if rng.random() < 0.7 else rng.randrange(1, 2**32),
        "pid": rng.choice([0, 0, 1, 255, 256, 2**24 - 1, rng.randrange(2**24)]),
        "c0": c0, "r0": r0, "c1": c1, "r1": r1,
        "mode": list(mode), "fmt": fmt, "style": style, "use_save": use_save, "use_lf": use_lf,
        "pos": [rng.choice([0, 1, 5, rng.randrange(60)]), rng.choice([0, 1, rng.randrange(24)])] if style == "abs" else None,
    }
    if c["api"] == "print_placeholder":
        if rng.random() < 0.5:
            c["base"] = None
            c["override"] = [True] * 6
        else:
            ov = [rng.random() < 0.5 for _ in range(6)]
            vals = [c["id"], c["pid"], c["c0"], c["r0"], c["c1"], c["r1"]]
            c["base"] = [v if not o else rng.choice([0, 1, 7, v + 1]) for v, o in zip(vals, ov)]
            c["override"] = ov
    return c


def pick_screen(rng, c):
    """a screen and start position satisfying the fit conditions of the theorem (None: none tried fits)"""
    w, h = c["c1"] - c["c0"], c["r1"] - c["r0"]
    style = c["style"]
    for _ in range(8):
        H = rng.choice([1, 2, 5, 24])
        if style == "abs":
            if h > H:
                continue
            x0, y0 = c["pos"]
            if y0 + h > H:
                continue
            W = x0 + w + rng.choice([0, 1, 3])
            cur = (rng.randrange(W), rng.randrange(H))
        else:
            y0 = rng.randrange(H) if rng.random() < 0.5 else max(0, H - 1 - rng.randrange(h + 1))
            x0 = 0 if style == "lf" else rng.choice([0, 0, 1, 5])
            W = x0 + w + rng.choice([1, 3] if style == "rel" else [0, 0, 1, 3])
            cur = (x0, y0)
        if pc.screen_fits(style, W, H, x0, y0, w, h):
            return {"W": W, "H": H, "x0": x0, "y0": y0, "cur": list(cur)}
    return None


def oracle_check(c, scr, data, rendered):
    """-> None or a dict describing how the rendering violates the statement of C07"""
    exp = pc.expected_cells(c, scr["W"], scr["H"], scr["x0"], scr["y0"], scrolls=c["style"] != "abs")
    d = pc.first_diff(exp, rendered["cells"])
    if d is not None:
        return d
    # nothing but the rectangle was painted (rows >= 297 are spaces and are part of the rectangle)
    return None


def classify(c, status):
    w, h = c["c1"] - c["c0"], c["r1"] - c["r0"]
    idc = "".join("0" if ((c["id"] >> (8 * k)) & 255) == 0 else ("F" if ((c["id"] >> (8 * k)) & 255) == 255 else "x") for k in (3, 2, 1, 0))
    return (f"{c['api']}/{c['style']}/{status}/id={idc}"
            f"/cols={'>297' if c['c1'] > 297 else ('=297' if c['c1'] == 297 else '<297')}"
            f"/rows={'>297' if c['r1'] > 297 else ('=297' if c['r1'] == 297 else '<297')}")


def in_domain(c):
    """the inputs the theorems quantify over: the call must produce output"""
    return (1 <= c["id"] < 2**32 and 0 <= c["pid"] < 2**24 and 0 <= c["c0"] < c["c1"] and 0 <= c["r0"] < c["r1"] and c["c0"] < pc.TABLE_LEN
            and 1 <= c["mode"][3] <= 4 and 0 <= c["mode"][4] <= 4 and not (c.get("pos") is not None and c.get("use_lf")))


def compare(ctx, cov, cases, impl_res, model_reps, what):
    ok_idx = []
    for i, (c, (ist, iw), rep) in enumerate(zip(cases, impl_res, model_reps)):
        mst, mw = pc.parse_model_reply(rep)
        cov.add({k: c[k] for k in ("api", "id", "pid", "c0", "r0", "c1", "r1", "mode", "fmt", "style", "use_save", "use_lf", "pos") if k in c},
                nontrivial=ist == "OK", klass=classify(c, ist))
        if ist != mst or iw != mw:
            k = None
            if iw is not None and mw is not None:
                k = next((j for j in range(min(len(iw), len(mw))) if iw[j] != mw[j]), min(len(iw), len(mw)))
            ctx.corr_breaks.append({"what": f"{what}: implementation and Model.PlaceholderModel differ", "case": c,
                                    "impl": [ist, None if iw is None else [hexs(x)[:300] for x in iw[:6]]],
                                    "model": [mst, None if mw is None else [hexs(x)[:300] for x in mw[:6]]], "first_differing_write": k})
        if ist == "OK":
            ok_idx.append(i)
        elif in_domain(c):
            ctx.violations.append({"signature": {"class": "raises-on-legal-input", "exception": ist},
                                   "what": f"{c['api']} raises {ist} for a legal placeholder (id, placement id, rectangle with start column < 297, constructible mode)",
                                   "case": {"kind": "call", "case": c}})
    return ok_idx


def invalid_cases(rng):
    base = {"api": "to_lines", "id": 5, "pid": 0, "c0": 0, "r0": 0, "c1": 2, "r1": 2, "mode": [1, 0, 1, 4, 4], "fmt": {"kind": "N"}, "style": "sr", "use_save": True, "use_lf": False, "pos": None}
    out = []
    for upd in ({"id": 0}, {"id": 2**32}, {"id": 2**32 - 1}, {"pid": 2**24}, {"pid": 2**24 - 1}, {"c0": 2}, {"c0": 3}, {"r0": 2}, {"r0": 5},
                {"c0": 297, "c1": 299}, {"c0": 296, "c1": 299}, {"c0": 300, "c1": 301, "r0": 297, "r1": 299}, {"c0": 300, "c1": 301, "r0": 296, "r1": 299},
                {"c0": 297, "c1": 298, "mode": [1, 0, 1, 1, 0]}, {"c0": 0, "c1": 298, "mode": [1, 0, 1, 1, 0]},
                {"api": "to_stream", "pos": [1, 1], "use_lf": True, "style": "abs"}, {"api": "to_stream", "id": 0}):
        out.append(dict(base, **upd))
    return out


def run(ctx, model):
    cov = common.Coverage("case = (api, id, pid, rectangle, mode, formatting, style); non-trivial = the call returns output; distinct by hash of the case")
    if model is None:
        return cov
    common.scrub_process_env()
    tup = common.import_impl()
    rng = ctx.rng

    # ---- 1. all 160 modes x 4 styles, n cases each
    n_per = ctx.pick(8, 300)
    cases = []
    for mode in pc.ALL_MODES:
        for style in pc.STYLES:
            for _ in range(n_per):
                cases.append(gen_case(rng, mode, style))
    # ---- 2. to_lines / to_stream_with_linefeeds directly, with and without no_escape, other placeholder chars
    for mode in pc.ALL_MODES:
        for _ in range(ctx.pick(2, 40)):
            c = gen_case(rng, mode, "sr", api=rng.choice(["to_lines", "with_linefeeds"]))
            c["no_escape"] = rng.random() < 0.5
            if rng.random() < 0.3:
                c["mode"] = list(mode) + [rng.choice([[0x58], [0xE9], [0x20AC], [0x10EEEE, 0x305], [0x1F600]])]
            cases.append(c)
    cases += invalid_cases(rng)

    # negative arguments cannot be expressed in the model (N): the implementation must reject them
    for kw in ({"image_id": -1}, {"placement_id": -1}, {"start_col": -1}, {"start_row": -1}):
        args = dict(image_id=1, placement_id=0, start_col=0, start_row=0, end_col=1, end_row=1)
        args.update(kw)
        try:
            tup.ImagePlaceholder(**args).to_lines()
            ctx.corr_breaks.append({"what": "negative field accepted by validate()", "case": kw})
        except ValueError:
            cov.bump("negative-field-rejected")
    # a mode with first level NONE cannot be constructed
    for a, b, c_, l1, l2 in [(1, 0, 1, 0, l2) for l2 in range(5)]:
        try:
            pc.make_mode(tup, (a, b, c_, l1, l2))
            impl_ok = True
        except ValueError:
            impl_ok = False
        if impl_ok != (model.one(f"c07.mode_constructible {pc.m_args((a, b, c_, l1, l2))}") == "1"):
            ctx.corr_breaks.append({"what": "ImagePlaceholderMode construction differs from Model.mode_constructible", "case": [a, b, c_, l1, l2]})
        cov.bump("mode-first-level-NONE")

    impl_res = [pc.run_impl(tup, c) for c in cases]
    reps = model.batch([pc.model_request(c) for c in cases])
    ok_idx = compare(ctx, cov, cases, impl_res, reps, "placeholder output")

    # ---- 3. Spec oracle on the implementation's bytes
    frac = ctx.pick(0.35, 0.25)
    todo = []
    for i in ok_idx:
        c = cases[i]
        if c["api"] not in ("to_stream", "print_placeholder") or c["r1"] > pc.TABLE_LEN or not pc.fmt_is_bg_only(c["fmt"]):
            continue
        w, h = c["c1"] - c["c0"], c["r1"] - c["r0"]
        if w > 16 or h > 12 or rng.random() > frac:
            continue
        scr = pick_screen(rng, c)
        if scr is None:
            continue
        todo.append((i, scr))
    reqs = [pc.render_request(s["W"], s["H"], s["cur"][0], s["cur"][1], cases[i]["style"] == "lf", b"".join(impl_res[i][1])) for i, s in todo]
    rend = model.batch(reqs)
    for (i, scr), rep in zip(todo, rend):
        c = cases[i]
        r = pc.parse_render(rep)
        h = c["r1"] - c["r0"]
        scrolled = c["style"] != "abs" and scr["y0"] + h > scr["H"]
        cov.bump(f"oracle/{c['style']}/H={scr['H']}/{'scrolls' if scrolled else 'fits'}")
        bad = oracle_check(c, scr, None, r)
        if bad is not None:
            ctx.violations.append({
                "signature": {"class": "decode-mismatch", "style": c["style"]},
                "what": f"style {c['style']}: cell (y,x)={bad['cell_yx']} decodes to {bad['decoded']}, the statement requires {bad['expected']}",
                "case": {"kind": "render", "case": c, "screen": scr}, "observed": bad, "impl_bytes": hexs(b"".join(impl_res[i][1]))[:2000]})
    cov.bump("oracle-evaluations", len(todo))
    # ---- 3b. the same placeholder printed twice side by side: the second copy starts right of cells that hold the SAME image
    # id / placement id / row, so every rule by which a terminal INHERITS a missing diacritic from the cell on the left is
    # live for its first column (on an empty screen those rules never fire for a first column)
    twice = []
    for i, scr in todo:
        c = cases[i]
        w, h = c["c1"] - c["c0"], c["r1"] - c["r0"]
        if c["style"] in ("abs", "lf") or scr["y0"] + h > scr["H"]:
            continue
        if c["mode"][3] < 2:
            continue    # first_column_diacritic_level ROW: the caller chose to leave the first column's column number to inheritance
        one = b"".join(impl_res[i][1])
        cup = b"\x1b[%d;%dH" % (scr["y0"] + 1, scr["x0"] + w + 1)
        wide = dict(scr, W=scr["x0"] + 2 * w + 1)      # room for the second copy; the first one is not at the right margin any more
        twice.append((i, wide, one + cup + one))
    rend2 = model.batch([pc.render_request(s["W"], s["H"], s["cur"][0], s["cur"][1], cases[i]["style"] == "lf", data) for i, s, data in twice]) if twice else []
    for (i, scr, data), rep in zip(twice, rend2):
        c = cases[i]
        w = c["c1"] - c["c0"]
        exp = pc.expected_cells(c, scr["W"], scr["H"], scr["x0"], scr["y0"], scrolls=False)
        exp.update(pc.expected_cells(c, scr["W"], scr["H"], scr["x0"] + w, scr["y0"], scrolls=False))
        d = pc.first_diff(exp, pc.parse_render(rep)["cells"])
        cov.bump(f"oracle/twice-side-by-side/{c['style']}")
        if d is not None:
            ctx.violations.append({
                "signature": {"class": "decode-mismatch", "style": c["style"], "scenario": "same placeholder twice side by side"},
                "what": f"style {c['style']}, the same placeholder printed twice side by side: cell (y,x)={d['cell_yx']} decodes to {d['decoded']}, the statement requires {d['expected']}",
                "case": {"kind": "render-twice", "case": c, "screen": scr}, "observed": d, "impl_bytes": hexs(data)[:2000]})
    highlevel_display(ctx, model, cov)
    if len(todo) * 10 < len(ok_idx):
        ctx.notes.append(f"Spec oracle ran on {len(todo)} of {len(ok_idx)} successful cases (< 10 %)")
    return cov


def highlevel_display(ctx, model, cov):
    """The high-level path: TupimageTerminal.display_only(id, start/end col/row) — what upload_and_display and the CLI print
    through — for rectangles up to and beyond the 297 addressable columns / rows.  The bytes it writes are rendered by the
    Spec terminal on a screen wide enough, and every requested cell must decode to (id, 0, row, col)."""
    rng = ctx.rng
    cases = []
    for c0, c1 in [(0, 1), (0, 5), (0, 296), (0, 297), (0, 298), (0, 305), (290, 297), (290, 300), (296, 299), (3, 310), (100, 298)]:
        for r0, r1 in [(0, 1), (0, 3), (2, 4), (295, 297)]:
            for i in (rng.choice([1, 255, 0x1234]), rng.choice([0x01000000, 0xFF0000FF, 0x7F123456])):
                cases.append({"id": i, "pid": 0, "c0": c0, "c1": c1, "r0": r0, "r1": r1, "style": "sr", "fewer": rng.random() < 0.3})
    if ctx.quick():
        cases = [c for k, c in enumerate(cases) if k % 2 == 0 or c["c1"] > 296]
    for c in cases:
        c["arg"] = "int"
    # the other two kinds of argument: an ImagePlaceholder (its rectangle and placement id are the defaults, explicit
    # values override them, allow_expansion=False clips to it) and an ImageInstance (cols x rows from 0,0)
    for _ in range(ctx.pick(24, 200)):
        pw, phh = rng.choice([1, 3, 7, 298, 300]), rng.choice([1, 2, 4])
        ps_c, ps_r = rng.choice([0, 0, 2]), rng.choice([0, 0, 1])
        pid = rng.choice([0, 5, 0xABCDEF])
        ec = rng.choice([None, None, ps_c + pw + 2, max(ps_c + 1, ps_c + pw - 1)])
        er = rng.choice([None, None, ps_r + phh + 1])
        sc = rng.choice([None, None, ps_c + 1]) if pw > 1 else None
        allow = rng.random() < 0.6
        kind = rng.choice(["ph", "inst"])
        i = rng.choice([7, 0x1234, 0x01000000, 0xFE00AB01])
        if kind == "inst":
            ps_c = ps_r = 0
            pid = 0
        c0 = sc if sc else ps_c
        c1 = ec if ec else ps_c + pw
        r0, r1 = ps_r, (er if er else ps_r + phh)
        if not allow:
            c1, r1 = min(c1, ps_c + pw), min(r1, ps_r + phh)
        if c1 <= c0 or r1 <= r0:
            continue
        cases.append({"id": i, "pid": pid, "c0": c0, "c1": c1, "r0": r0, "r1": r1, "style": "sr", "fewer": rng.random() < 0.3, "arg": kind,
                      "given": {"ps_c": ps_c, "ps_r": ps_r, "pw": pw, "ph": phh, "sc": sc, "ec": ec, "er": er, "allow": allow}})
    # the same call on terminals configured with tmux layers (the placeholder itself is never wrapped, but the terminal object
    # is another one), small rectangles that are later rendered with their right edge exactly on the right margin
    for k in range(ctx.pick(60, 400)):
        w, hh = rng.choice([1, 2, 5, 28]), rng.choice([1, 2, 3])
        c0, r0 = rng.choice([0, 0, 3]), rng.choice([0, 1])
        cases.append({"id": rng.choice([7, 0x1234, 0x01000000, 0xFE00AB01]), "pid": 0, "c0": c0, "c1": c0 + w, "r0": r0, "r1": r0 + hh, "style": "sr",
                      "fewer": rng.random() < 0.3, "arg": "int", "layers": k % 3, "margin": {"x0": rng.choice([0, 1, 12]), "y0": rng.choice([0, 3, 30])}})
    # the same image displayed twice side by side on the same rows (horizontal tiling) through the high-level call, with and
    # without fewer_diacritics: the mode is the library's choice here, so both copies must decode
    for k in range(ctx.pick(40, 300)):
        w, hh = rng.choice([1, 2, 3, 6]), rng.choice([1, 2, 3])
        cases.append({"id": rng.choice([7, 0x1234, 0xABCDEF, 0x01000000, 0xFE00AB01]), "pid": 0, "c0": 0, "c1": w, "r0": 0, "r1": hh, "style": "sr",
                      "fewer": k % 2 == 0, "arg": "int", "layers": 0, "twice": {"x0": rng.choice([0, 2, 10]), "y0": rng.choice([0, 1, 20])}})
    work = ctx.work

    def child():
        common.scrub_process_env()
        os.environ["HOME"] = work
        os.environ["XDG_STATE_HOME"] = os.path.join(work, "state")
        os.environ["XDG_CONFIG_HOME"] = os.path.join(work, "config")
        bindir = os.path.join(work, "bin-c07")
        os.makedirs(bindir, exist_ok=True)
        with open(os.path.join(bindir, "tmux"), "w") as f:
            f.write("#!/bin/sh\necho 'fake-term||||77||||88_sess'\n")
        os.chmod(os.path.join(bindir, "tmux"), 0o755)
        os.environ["PATH"] = bindir + ":" + os.environ.get("PATH", "")
        import tupimage
        disp = common.RecStream()
        tty_in = open("/dev/tty", "rb", buffering=0)
        terms = {n: tupimage.TupimageTerminal(out_command=common.RecStream(), out_display=disp, in_response=tty_in,
                                              id_database=os.path.join(work, f"c07-hl-{n}.db"), config="DEFAULT", num_tmux_layers=n, redetect_terminal=False)
                 for n in (1, 2)}
        terms[0] = tupimage.TupimageTerminal(out_command=common.RecStream(), out_display=disp, in_response=tty_in,
                                             id_database=os.path.join(work, "c07-hl.db"), config="DEFAULT")
        out = []
        from tupimage.placeholder import ImagePlaceholder
        from tupimage.tupimage_terminal import ImageInstance
        import datetime as _dt
        for c in cases:
            disp.writes.clear()
            t = terms[c.get("layers", 0)]
            try:
                if c.get("twice"):
                    tw = c["twice"]
                    for dx in (0, c["c1"] - c["c0"]):
                        t.display_only(c["id"], start_col=c["c0"], start_row=c["r0"], end_col=c["c1"], end_row=c["r1"], fewer_diacritics=c["fewer"], abs_pos=(tw["x0"] + dx, tw["y0"]))
                elif c["arg"] == "int":
                    t.display_only(c["id"], start_col=c["c0"], start_row=c["r0"], end_col=c["c1"], end_row=c["r1"], fewer_diacritics=c["fewer"])
                else:
                    g = c["given"]
                    if c["arg"] == "ph":
                        obj = ImagePlaceholder(image_id=c["id"], placement_id=c["pid"], start_col=g["ps_c"], start_row=g["ps_r"], end_col=g["ps_c"] + g["pw"], end_row=g["ps_r"] + g["ph"])
                    else:
                        obj = ImageInstance(id=c["id"], path=":mem", mtime=_dt.datetime.fromtimestamp(0), cols=g["pw"], rows=g["ph"])
                    t.display_only(obj, start_col=g["sc"], end_col=g["ec"], end_row=g["er"], allow_expansion=g["allow"], fewer_diacritics=c["fewer"])
                out.append(["OK", b"".join(bytes(w) for w in disp.writes).hex()])
            except Exception as e:  # noqa
                out.append([type(e).__name__, str(e)[:200]])
        return out

    r = common.in_pty(child, rows=40, cols=340, xpx=2720, ypx=640, timeout=300)
    if "ok" not in r:
        ctx.corr_breaks.append({"what": "TupimageTerminal.display_only failed in the pty sandbox", "error": {k: v for k, v in r.items() if k != "tty"}})
        return
    scr = {"W": 340, "H": 40, "x0": 0, "y0": 0, "cur": [0, 0]}
    ok = [(c, bytes.fromhex(res[1])) for c, res in zip(cases, r["ok"]) if res[0] == "OK"]
    for c, res in zip(cases, r["ok"]):
        if res[0] != "OK":
            ctx.violations.append({"signature": {"class": "legal-input-raises", "path": "display_only"}, "what": f"display_only raised {res[0]}: {res[1]}", "case": {"kind": "highlevel", "case": c}})
    def screen_of(c):
        if "margin" not in c:
            return scr
        m = c["margin"]
        return {"W": m["x0"] + (c["c1"] - c["c0"]), "H": 40, "x0": m["x0"], "y0": m["y0"], "cur": [m["x0"], m["y0"]]}
    reps = model.batch([pc.render_request(screen_of(c)["W"], screen_of(c)["H"], screen_of(c)["x0"], screen_of(c)["y0"], False, data) for c, data in ok]) if ok else []
    for (c, data), rep in zip(ok, reps):
        if c.get("twice"):
            tw = c["twice"]
            w_ = c["c1"] - c["c0"]
            cov.bump("highlevel/twice-side-by-side/" + ("fewer" if c["fewer"] else "default"))
            exp = pc.expected_cells(c, 340, 40, tw["x0"], tw["y0"], scrolls=False)
            exp.update(pc.expected_cells(c, 340, 40, tw["x0"] + w_, tw["y0"], scrolls=False))
            d = pc.first_diff(exp, pc.parse_render(rep)["cells"])
            if d is not None:
                ctx.violations.append({"signature": {"class": "decode-mismatch", "style": "display_only", "scenario": "same image twice side by side"},
                                       "what": f"TupimageTerminal.display_only(fewer_diacritics={c['fewer']}) of the same {w_}x{c['r1'] - c['r0']} image twice side by side (abs_pos {tw['x0']},{tw['y0']} and "
                                               f"{tw['x0'] + w_},{tw['y0']}): cell (y,x)={d['cell_yx']} decodes to {d['decoded']}, the statement requires {d['expected']}",
                                       "case": {"kind": "highlevel", "case": c}, "observed": d})
            continue
        if "margin" in c:
            sc_ = screen_of(c)
            h_ = c["r1"] - c["r0"]
            cov.bump(f"highlevel/right-margin/layers={c['layers']}")
            scrolls = False
            exp = pc.expected_cells(c, sc_["W"], sc_["H"], sc_["x0"], sc_["y0"], scrolls=False)
            d = pc.first_diff(exp, pc.parse_render(rep)["cells"])
            if d is not None:
                ctx.violations.append({"signature": {"class": "decode-mismatch", "style": "display_only", "scenario": "right edge on the right margin"},
                                       "what": f"TupimageTerminal(num_tmux_layers={c['layers']}).display_only of a {c['c1'] - c['c0']}x{h_} rectangle printed at column {sc_['x0']}, row {sc_['y0']} of a "
                                               f"{sc_['W']}x{sc_['H']} screen (right edge on the margin{', scrolling' if scrolls else ''}): cell (y,x)={d['cell_yx']} decodes to {d['decoded']}, "
                                               f"the statement requires {d['expected']}",
                                       "case": {"kind": "highlevel", "case": c}, "observed": d})
            continue
        cov.add({"path": "display_only", "arg": c["arg"], "rect": [c["c0"], c["r0"], c["c1"], c["r1"]], "id": c["id"]},
                klass=f"highlevel/{c['arg']}/cols={'>297' if c['c1'] > 297 else '<=297'}/rows={'=297' if c['r1'] == 297 else '<297'}")
        bad = oracle_check(c, scr, None, pc.parse_render(rep))
        if bad is not None:
            ctx.violations.append({"signature": {"class": "decode-mismatch", "style": "display_only"},
                                   "what": f"TupimageTerminal.display_only: cell (y,x)={bad['cell_yx']} decodes to {bad['decoded']}, the statement requires {bad['expected']}",
                                   "case": {"kind": "highlevel", "case": c}, "observed": bad})


def replay(ctx, model, rec):
    case = rec["case"]
    tup = common.import_impl()
    if case.get("kind") == "highlevel":
        import c07 as _c07
        n0 = len(ctx.violations)
        _c07.highlevel_display(ctx, model, common.Coverage("replay"))
        mine = ctx.violations[n0:]
        del ctx.violations[n0:]
        return {"violates": bool(mine), "violations": [v["what"] for v in mine][:3], "note": "the high-level display cases of this seed are re-run"}
    if case.get("kind") == "render":
        c, scr = case["case"], case["screen"]
        st, writes = pc.run_impl(tup, c)
        if st != "OK":
            return {"violates": True, "note": f"implementation raised {st}"}
        rep = model.one(pc.render_request(scr["W"], scr["H"], scr["cur"][0], scr["cur"][1], c["style"] == "lf", b"".join(writes)))
        bad = oracle_check(c, scr, None, pc.parse_render(rep))
        return {"violates": bad is not None, "observed": bad}
    if case.get("kind") == "call":
        st, _ = pc.run_impl(tup, case["case"])
        return {"violates": st != "OK", "implementation": st}
    return {"violates": False, "note": "unknown replay kind"}
