"""C11 — tmux pass-through wrapping is exactly invertible.
Correspondence: Model.TmuxTemplate (template, emit, detect_*) vs GraphicsTerminal /
GraphicsCommand.send / TupimageTerminal on generated commands, n layers, TMUX/TERM combinations.
Search oracle: Spec.TmuxSpec.layers_ok on the implementation's bytes."""
import io
import os

import common
from common import hexs, unhex

GEN_DEPS = ("gen_tmux",)
ASSUMPTIONS = [
    "tmux's DCS pass-through removal is the scanner in coq/Spec/TmuxSpec.v (ESC ESC -> ESC, ESC \\ terminates)",
    "Python's bytes %-formatting with one %b and bytes.replace behave as coq/Lib/PyFmt.v (compared on every case)",
]
TRUSTED = ["fake `tmux` executable on PATH for the TupimageTerminal constructor when detection is on"]


def gen_commands(ctx, tup):
    """Yield (label, command) of every type, with payloads, some large enough to be chunked."""
    rng = ctx.rng
    gc = tup.graphics_command
    vals = [0, 1, 255, 2**24 - 1, 2**32 - 1]

    def rv():
        return rng.choice(vals + [rng.randrange(2**32)])

    def opt(x):
        return x if rng.random() < 0.5 else None

    n = ctx.pick(60, 600)
    for i in range(n):
        kind = rng.choice(["transmit-direct", "transmit-direct-big", "transmit-file", "transmit-nomedium", "more", "put", "delete"])
        if kind.startswith("transmit"):
            placement = None
            if rng.random() < 0.5:
                placement = gc.PlacementData(placement_id=opt(rv()), virtual=opt(True), rows=opt(rv()), cols=opt(rv()),
                                             do_not_move_cursor=opt(rng.random() < 0.5), src_x=opt(rv()), src_y=opt(rv()), src_w=opt(rv()), src_h=opt(rv()))
            if kind == "transmit-direct":
                medium, data = gc.TransmissionMedium.DIRECT, rng.randbytes(rng.choice([0, 1, 2, 3, 50, 200]))
            elif kind == "transmit-direct-big":
                medium, data = gc.TransmissionMedium.DIRECT, rng.randbytes(rng.choice([700, 3000, 9000]))
                if rng.random() < 0.3:
                    data = io.BytesIO(data)
            elif kind == "transmit-file":
                medium, data = rng.choice([gc.TransmissionMedium.FILE, gc.TransmissionMedium.TEMP_FILE, gc.TransmissionMedium.SHARED_MEMORY]), b"/tmp/\x1b some file \xff%b%%.png"
            else:
                medium, data = None, rng.randbytes(rng.choice([0, 5, 100]))
            cmd = gc.TransmitCommand(image_id=opt(rv()), image_number=opt(rv()), medium=medium, data=data, size=opt(rv()), offset=opt(rv()),
                                     quiet=opt(rng.choice(list(gc.Quietness))), more=opt(rng.random() < 0.5), format=opt(rng.choice(list(gc.Format))),
                                     compression=opt(gc.Compression.ZLIB), pix_width=opt(rv()), pix_height=opt(rv()), query=opt(rng.random() < 0.5),
                                     placement=placement, omit_action=rng.random() < 0.1)
        elif kind == "more":
            cmd = gc.MoreDataCommand(image_id=opt(rv()), image_number=opt(rv()), data=rng.randbytes(rng.choice([0, 1, 30])), more=opt(rng.random() < 0.5))
        elif kind == "put":
            cmd = gc.PutCommand(image_id=opt(rv()), image_number=opt(rv()), quiet=opt(rng.choice(list(gc.Quietness))), placement_id=opt(rv()),
                                virtual=opt(True), rows=opt(rv()), cols=opt(rv()), do_not_move_cursor=opt(rng.random() < 0.5))
        else:
            cmd = gc.DeleteCommand(image_id=opt(rv()), image_number=opt(rv()), placement_id=opt(rv()), quiet=opt(rng.choice(list(gc.Quietness))),
                                   what=opt(rng.choice(list(gc.WhatToDelete))), delete_data=opt(rng.random() < 0.5))
        yield kind, cmd


def check_emission(ctx, model, tup, cov):
    gc = tup.graphics_command
    GT = tup.graphics_terminal.GraphicsTerminal
    max_layers = ctx.pick(4, 6)
    # 1. templates
    reqs, impl = [], []
    for n in range(max_layers + 1):
        t = GT(out_command=common.RecStream(), out_display=common.RecStream(), in_response=io.BytesIO(), in_userinput=io.BytesIO(), num_tmux_layers=n)
        impl.append(t.get_graphics_command_template())
        reqs.append(f"c11.template {n}")
    for n, (rep, got) in enumerate(zip(model.batch(reqs), impl)):
        cov.add({"template_layers": n}, klass="template")
        if unhex(rep) != got:
            ctx.corr_breaks.append({"what": "get_graphics_command_template differs from Model.TmuxTemplate.template", "layers": n,
                                    "impl": hexs(got), "model": rep})
    # 2. emitted commands, every write of every command
    cases = []
    for kind, cmd in gen_commands(ctx, tup):
        for n in range(max_layers + 1):
            if ctx.quick() and ctx.rng.random() < 0.4 and n not in (0, 1):
                continue
            out = common.RecStream()
            t = GT(out_command=out, out_display=common.RecStream(), in_response=io.BytesIO(), in_userinput=io.BytesIO(),
                   num_tmux_layers=n, max_command_size=ctx.rng.choice([None, 4096, 1024, 700]))
            sent = []
            try:
                # same call send_command makes, with a callback so that each chunk's command object is seen
                cmd.send(out, template=t.get_graphics_command_template(), max_size=t.max_command_size, callback=sent.append)
            except ValueError as e:
                cov.bump("rejected-too-small")
                continue
            # and through the terminal object itself: must write the same bytes
            out2 = common.RecStream()
            t.out_command = out2
            t.send_command(cmd)
            if out2.writes != out.writes:
                ctx.corr_breaks.append({"what": "send_command writes differ from command.send with the terminal's template", "layers": n, "kind": kind})
            if len(sent) != len(out.writes):
                ctx.corr_breaks.append({"what": "number of writes != number of chunk callbacks", "layers": n, "kind": kind})
                continue
            for w, c in zip(out.writes, sent):
                cases.append((kind, n, w, c.content_to_bytes(), c.to_bytes(gc.GraphicsCommand.DEFAULT_TEMPLATE), len(out.writes)))
    reqs = []
    for kind, n, w, content, plain, nchunks in cases:
        reqs.append(f"c11.emit {n} {hexs(content)}")
        reqs.append(f"c11.spec_layers_ok {n} {hexs(w)} {hexs(plain)}")
    reps = model.batch(reqs)
    for i, (kind, n, w, content, plain, nchunks) in enumerate(cases):
        m_emit, ok = reps[2 * i], reps[2 * i + 1]
        case = {"kind": kind, "layers": n, "content": hexs(content)[:80], "written_len": len(w), "chunks": nchunks}
        cov.add(case, nontrivial=n > 0, klass=f"{kind}/n={n}/{'chunked' if nchunks > 1 else 'single'}")
        if b"\x1b" in content:
            ctx.corr_breaks.append({"what": "command content contains ESC (hypothesis of C11_unwrap_n not met)", "case": case})
        if unhex(m_emit) != w:
            ctx.corr_breaks.append({"what": "bytes written differ from Model.TmuxTemplate.emit", "case": case, "impl": hexs(w)[:400], "model": m_emit[:400]})
        if ok != "1":
            ctx.violations.append({
                "signature": {"class": "tmux-unwrap-mismatch", "layers": n},
                "what": f"removing {n} tmux layer(s) from the emitted bytes by tmux's rule does not give the command sent without tmux (or a lone ESC occurs inside a wrapper)",
                "case": {"kind": "emit", "layers": n, "written": hexs(w), "expected_plain": hexs(plain)},
            })


class _FailingData(io.BytesIO):
    """payload stream whose k-th read() fails (the image file disappears / EIO while the transmission is under way)"""

    def __init__(self, data, fail_at, exc):
        super().__init__(data)
        self.fail_at, self.exc, self.reads = fail_at, exc, 0

    def read(self, *a):
        self.reads += 1
        if self.reads == self.fail_at:
            raise self.exc
        return super().read(*a)


def check_faulted(ctx, model, tup, cov):
    """A chunked transmission that FAILS under way (the payload stream raises, the per-chunk callback raises, the process
    is interrupted): whatever reached the command stream with n layers configured must still be, write for write, the
    n-fold wrapping of what reaches it with no tmux configured under the same fault — nothing bare, nothing extra."""
    gc = tup.graphics_command
    GT = tup.graphics_terminal.GraphicsTerminal
    rng = ctx.rng

    def attempt(n, data, max_size, fault):
        out = common.RecStream()
        t = GT(out_command=out, out_display=common.RecStream(), in_response=io.BytesIO(), in_userinput=io.BytesIO(), num_tmux_layers=n, max_command_size=None)
        kind, k = fault
        exc = {"EIO": OSError(5, "Input/output error"), "KeyboardInterrupt": KeyboardInterrupt(), "ValueError": ValueError("closed file")}
        raised = None
        # the limit is the one that gives the same payload split for every n: the template's length is added
        limit = max_size + len(t.get_graphics_command_template())
        try:
            if kind == "callback":
                calls = []

                def cb(c):
                    calls.append(c)
                    if len(calls) == k:
                        raise exc["EIO"]
                gc.TransmitCommand(image_id=77, medium=gc.TransmissionMedium.DIRECT, format=gc.Format.PNG, data=data).send(
                    out, template=t.get_graphics_command_template(), max_size=limit, callback=cb)
            else:
                t.max_command_size = limit
                t.send_command(gc.TransmitCommand(image_id=77, medium=gc.TransmissionMedium.DIRECT,
                                                  format=gc.Format.PNG, data=_FailingData(data, k, exc[kind])))
        except BaseException as e:  # noqa: BLE001
            raised = type(e).__name__
        return out.writes, raised

    reqs, meta = [], []
    for _ in range(ctx.pick(40, 400)):
        max_size = rng.choice([64, 100, 300])
        nchunks = rng.randrange(2, 7)
        payload_per_chunk = ((max_size - 40) // 4) * 3
        data = rng.randbytes(payload_per_chunk * nchunks + rng.randrange(0, 5))
        fault = rng.choice([("EIO", rng.randrange(1, nchunks + 3)), ("KeyboardInterrupt", rng.randrange(2, nchunks + 2)), ("ValueError", rng.randrange(2, nchunks + 2)),
                            ("callback", rng.randrange(1, nchunks + 1))])
        plain, raised0 = attempt(0, data, max_size, fault)
        for n in (1, 2, 3):
            wrapped, raised = attempt(n, data, max_size, fault)
            case = {"layers": n, "fault": list(fault), "data_len": len(data), "max_size": max_size, "writes": len(wrapped), "writes_without_tmux": len(plain), "raised": raised}
            cov.add(case, klass=f"faulted/{fault[0]}/n={n}/" + ("raised" if raised else "completed"))
            if len(wrapped) != len(plain) or raised != raised0:
                ctx.violations.append({"signature": {"class": "tmux-unwrap-mismatch", "layers": n, "scenario": "transmission failing under way"},
                                       "what": f"a chunked transmission failing under way ({fault[0]} at step {fault[1]}): {len(wrapped)} writes reach the command stream with {n} tmux layer(s) "
                                               f"configured, {len(plain)} with none (raised: {raised} / {raised0})",
                                       "case": {"kind": "faulted", **case, "written": [hexs(w)[:300] for w in wrapped[-2:]]}})
                continue
            for w, p0 in zip(wrapped, plain):
                reqs.append(f"c11.spec_layers_ok {n} {hexs(w)} {hexs(p0)}")
                meta.append((case, w, p0))
    for (case, w, p0), ok in zip(meta, model.batch(reqs)):
        if ok != "1":
            ctx.violations.append({"signature": {"class": "tmux-unwrap-mismatch", "layers": case["layers"], "scenario": "transmission failing under way"},
                                   "what": f"a chunked transmission failing under way ({case['fault'][0]} at step {case['fault'][1]}): removing {case['layers']} tmux layer(s) from a write "
                                           "does not give the write made with no tmux configured",
                                   "case": {"kind": "emit", "layers": case["layers"], "written": hexs(w), "expected_plain": hexs(p0), "scenario": case}})
            break


def check_reconfiguration(ctx, model, tup, cov):
    """One terminal object used for several commands while its layer count changes in between (attribute
    assignment, detect_tmux under a changed environment, clone_with): every command must be wrapped with the layer
    count in force when it is sent."""
    gc = tup.graphics_command
    GT = tup.graphics_terminal.GraphicsTerminal
    rng = ctx.rng
    saved = {k: os.environ.get(k) for k in ("TMUX", "TERM")}
    cases = []
    try:
        for _ in range(ctx.pick(60, 600)):
            out = common.RecStream()
            t = GT(out_command=out, out_display=common.RecStream(), in_response=io.BytesIO(), in_userinput=io.BytesIO(), num_tmux_layers=rng.randrange(0, 3))
            steps = []
            for _ in range(rng.randrange(2, 6)):
                how = rng.choice(["keep", "assign", "detect", "clone"])
                if how == "assign":
                    t.num_tmux_layers = rng.randrange(0, 4)
                elif how == "detect":
                    os.environ["TMUX"] = rng.choice(["", "/tmp/tmux-1/default,1,0"])
                    os.environ["TERM"] = rng.choice(["xterm", "screen-256color", "tmux"])
                    t.detect_tmux()
                elif how == "clone":
                    t = t.clone_with(num_tmux_layers=rng.randrange(0, 4))
                n = t.num_tmux_layers
                kind, cmd = next(iter(gen_commands_one(ctx, tup)))
                before = len(out.writes)
                try:
                    t.send_command(cmd)
                except ValueError:
                    continue
                # the template the object hands out must also be the n-layer one
                tmpl = t.get_graphics_command_template()
                for w in out.writes[before:]:
                    cases.append((how, n, w, tmpl, kind))
                steps.append(how)
    finally:
        for k, v in saved.items():
            if v is None:
                os.environ.pop(k, None)
            else:
                os.environ[k] = v
    reqs = []
    for how, n, w, tmpl, kind in cases:
        reqs.append(f"c11.spec_unwrapn {n} {hexs(w)}")
        reqs.append(f"c11.template {n}")
    reps = model.batch(reqs)
    for i, (how, n, w, tmpl, kind) in enumerate(cases):
        un, mt = reps[2 * i], reps[2 * i + 1]
        case = {"reconfigured_by": how, "layers_in_force": n, "kind": kind, "written": hexs(w)[:200]}
        cov.add(case, nontrivial=how != "keep", klass=f"reconfigure/{how}/n={n}")
        inner = unhex(un) if un != "NONE" else None
        ok = inner is not None and inner.startswith(b"\x1b_G") and inner.endswith(b"\x1b\\") and b"\x1b" not in inner[3:-2]
        if not ok:
            ctx.violations.append({"signature": {"class": "stale-tmux-wrapping-after-reconfiguration", "how": how},
                                   "what": f"after the layer count was changed ({how}) to {n}, the next command is not wrapped {n} time(s): removing {n} layers by tmux's rule does not give a bare graphics command",
                                   "case": {"kind": "emit", "layers": n, "written": hexs(w), "expected_plain": hexs(inner or b"")}})
        if unhex(mt) != tmpl:
            ctx.corr_breaks.append({"what": "template after reconfiguration differs from Model.TmuxTemplate.template", "case": case})


def gen_commands_one(ctx, tup):
    saved = ctx.tier
    for kind, cmd in gen_commands(ctx, tup):
        yield kind, cmd
        return


TMUX_VALUES = [None, "", "/tmp/tmux-1000/default,4242,0", "x"]
TERM_VALUES = [None, "", "xterm-256color", "screen", "screen-256color", "tmux-256color", "xterm-tmux", "st-screen-x", "SCREEN", "scree", "tmu", "linux"]


def check_detection(ctx, model, tup, cov):
    GT = tup.graphics_terminal.GraphicsTerminal
    rng = ctx.rng
    terms = list(TERM_VALUES)
    for _ in range(ctx.pick(20, 300)):
        s = "".join(rng.choice("screntmux-25_") for _ in range(rng.randrange(0, 12)))
        terms.append(s)
    saved = {k: os.environ.get(k) for k in ("TMUX", "TERM")}
    cases = []
    try:
        for tm in TMUX_VALUES:
            for te in terms:
                for layers in (0, 1, 3):
                    for k, v in (("TMUX", tm), ("TERM", te)):
                        if v is None:
                            os.environ.pop(k, None)
                        else:
                            os.environ[k] = v
                    t = GT(out_command=common.RecStream(), out_display=common.RecStream(), in_response=io.BytesIO(), in_userinput=io.BytesIO(), num_tmux_layers=layers)
                    t.detect_tmux()
                    cases.append((tm, te, layers, t.num_tmux_layers))
    finally:
        for k, v in saved.items():
            if v is None:
                os.environ.pop(k, None)
            else:
                os.environ[k] = v
    reqs = [f"c11.detect_terminal {'NONE' if tm is None else hexs(tm.encode())} {hexs((te or '').encode())} {layers}" for tm, te, layers, _ in cases]
    for (tm, te, layers, got), rep in zip(cases, model.batch(reqs)):
        case = {"site": "GraphicsTerminal.detect_tmux", "TMUX": tm, "TERM": te, "layers_before": layers}
        cov.add(case, nontrivial=bool(tm), klass="detect-terminal")
        expected_on = bool(tm) and (("screen" in (te or "")) or ("tmux" in (te or "")))
        if (got > 0) != expected_on:
            ctx.violations.append({"signature": {"class": "tmux-detection", "site": "detect_tmux"},
                                   "what": f"tmux auto-detection {'on' if got else 'off'} for TMUX={tm!r} TERM={te!r}", "case": {"kind": "detect_terminal", **case}})
        elif expected_on and layers >= 1 and got != layers:
            # n layers were configured (nested tmux) and tmux is indeed there: detection confirms, it does not reconfigure;
            # commands sent afterwards must still be wrapped n times
            ctx.violations.append({"signature": {"class": "configured-layers-lost", "site": "detect_tmux"},
                                   "what": f"{layers} tmux layers were configured; after detect_tmux() inside tmux (TMUX={tm!r} TERM={te!r}) commands are wrapped {got} times", "case": {"kind": "detect_terminal", **case}})
        if int(rep) != got:
            ctx.corr_breaks.append({"what": "detect_tmux differs from Model.detect_terminal", "case": case, "impl": got, "model": rep})

    # high-level constructor (needs a tty and, when detection is on, a `tmux` executable)
    bindir = os.path.join(ctx.work, "bin")
    os.makedirs(bindir, exist_ok=True)
    with open(os.path.join(bindir, "tmux"), "w") as f:
        f.write("#!/bin/sh\necho 'fake-term||||77||||88_$1'\n")
    os.chmod(os.path.join(bindir, "tmux"), 0o755)
    hl_terms = TERM_VALUES if ctx.quick() else terms[:60]
    hl_cases = [(tm, te) for tm in TMUX_VALUES for te in hl_terms]

    def child():
        common.scrub_process_env()
        os.environ["PATH"] = bindir + ":" + os.environ.get("PATH", "")
        os.environ["HOME"] = ctx.work
        os.environ["XDG_STATE_HOME"] = os.path.join(ctx.work, "state")
        os.environ["XDG_CONFIG_HOME"] = os.path.join(ctx.work, "config")
        import tupimage
        res = []
        for tm, te in hl_cases:
            for k, v in (("TMUX", tm), ("TERM", te)):
                if v is None:
                    os.environ.pop(k, None)
                else:
                    os.environ[k] = v
            t = tupimage.TupimageTerminal(out_command=common.RecStream(), out_display=common.RecStream(), in_response=open("/dev/tty", "rb", buffering=0),
                                          id_database=os.path.join(ctx.work, "hl.db"))
            res.append([t._config.num_tmux_layers, t.term.num_tmux_layers, t.term.get_graphics_command_template().hex()])
        return res

    r = common.in_pty(child)
    if "ok" not in r:
        ctx.corr_breaks.append({"what": "TupimageTerminal constructor failed in the pty sandbox", "error": {k: v for k, v in r.items() if k != "tty"}})
        return
    reqs = []
    for tm, te in hl_cases:
        reqs.append(f"c11.detect_highlevel {'NONE' if tm is None else hexs(tm.encode())} {hexs((te or '').encode())}")
    reps = model.batch(reqs)
    treqs = model.batch([f"c11.template {int(x)}" for x in reps])
    for (tm, te), (cfg_layers, term_layers, tmpl), rep, mt in zip(hl_cases, r["ok"], reps, treqs):
        case = {"site": "TupimageTerminal.__init__", "TMUX": tm, "TERM": te}
        cov.add(case, nontrivial=bool(tm), klass="detect-highlevel")
        expected_on = bool(tm) and (("screen" in (te or "")) or ("tmux" in (te or "")))
        if (cfg_layers > 0) != expected_on or cfg_layers != term_layers:
            ctx.violations.append({"signature": {"class": "tmux-detection", "site": "TupimageTerminal"},
                                   "what": f"high-level tmux auto-detection gives {cfg_layers}/{term_layers} layers for TMUX={tm!r} TERM={te!r}",
                                   "case": {"kind": "detect_highlevel", **case}})
        if int(rep) != cfg_layers or mt != tmpl:
            ctx.corr_breaks.append({"what": "TupimageTerminal auto num_tmux_layers/template differs from the model", "case": case, "impl": [cfg_layers, tmpl], "model": [rep, mt]})


def check_highlevel_explicit(ctx, model, cov):
    """A TupimageTerminal CONFIGURED with n >= 1 layers (not "auto"), in environments where the `tmux` executable answers,
    answers nothing, fails, or does not exist: if the constructor returns, the terminal wraps with n layers — whatever
    the helper program said; it may refuse to construct, it may not silently drop the configured wrapping."""
    work = ctx.work
    kinds = {"answers": "#!/bin/sh\necho 'fake-term||||77||||88_sess'\n", "silent": "#!/bin/sh\nexit 0\n", "fails": "#!/bin/sh\necho 'no server running' >&2\nexit 1\n",
             "garbage": "#!/bin/sh\necho 'x||||y'\n", "absent": None}
    cases = [(kind, n, tm) for kind in kinds for n in (1, 2, 3) for tm in (None, "/tmp/tmux-0/default,1,0")]

    def child():
        common.scrub_process_env()
        os.environ["HOME"] = work
        os.environ["XDG_STATE_HOME"] = os.path.join(work, "state")
        os.environ["XDG_CONFIG_HOME"] = os.path.join(work, "config")
        import tupimage
        gc = tupimage.graphics_command
        res = []
        path0 = os.environ.get("PATH", "")
        for kind, n, tm in cases:
            bindir = os.path.join(work, "bin-" + kind)
            os.makedirs(bindir, exist_ok=True)
            if kinds[kind] is not None:
                with open(os.path.join(bindir, "tmux"), "w") as f:
                    f.write(kinds[kind])
                os.chmod(os.path.join(bindir, "tmux"), 0o755)
                os.environ["PATH"] = bindir + ":" + path0
            else:
                os.environ["PATH"] = bindir      # nothing called tmux anywhere on the PATH
            if tm is None:
                os.environ.pop("TMUX", None)
            else:
                os.environ["TMUX"] = tm
            os.environ["TERM"] = "screen-256color"
            out = common.RecStream()
            try:
                t = tupimage.TupimageTerminal(out_command=out, out_display=common.RecStream(), in_response=open("/dev/tty", "rb", buffering=0),
                                              id_database=os.path.join(work, f"hle-{kind}-{n}.db"), config="DEFAULT", num_tmux_layers=n)
                t.term.send_command(gc.DeleteCommand(image_id=5, what=gc.WhatToDelete.IMAGE_OR_PLACEMENT_BY_ID))
                res.append(["OK", t.num_tmux_layers, t.term.num_tmux_layers, b"".join(bytes(w) for w in out.writes).hex()])
            except Exception as e:  # noqa
                res.append(["EXC", type(e).__name__, str(e)[:100], ""])
            finally:
                os.environ["PATH"] = path0
        return res

    r = common.in_pty(child, timeout=300)
    if "ok" not in r:
        ctx.corr_breaks.append({"what": "explicitly configured TupimageTerminal runs failed in the pty sandbox", "error": {k: v for k, v in r.items() if k != "tty"}})
        return
    ok = [(c, res) for c, res in zip(cases, r["ok"]) if res[0] == "OK"]
    reps = model.batch([f"c11.spec_unwrapn {c[1]} {res[3]}" for c, res in ok]) if ok else []
    bare = None
    for (c, res), rep in zip(ok, reps):
        kind, n, tm = c
        case = {"site": "TupimageTerminal(num_tmux_layers=n)", "tmux_program": kind, "layers": n, "TMUX": tm}
        cov.add(case, klass=f"highlevel-explicit/{kind}")
        inner = None if rep in ("NONE", "") else bytes.fromhex(rep)
        if res[1] != n or res[2] != n or inner is None or not inner.startswith(b"\x1b_G") or b"\x1bP" in inner:
            ctx.violations.append({"signature": {"class": "configured-layers-lost", "site": "TupimageTerminal.__init__", "tmux_program": kind},
                                   "what": f"TupimageTerminal(num_tmux_layers={n}) with a `tmux` program that {kind} (TMUX={tm!r}) reports {res[1]}/{res[2]} layers and its command "
                                           f"{'does not unwrap ' + str(n) + ' times' if inner is None else 'unwraps to ' + repr(inner[:40])}",
                                   "case": {"kind": "highlevel_explicit", **case}})
    for c, res in zip(cases, r["ok"]):
        if res[0] != "OK":
            cov.add({"site": "TupimageTerminal(num_tmux_layers=n)", "tmux_program": c[0], "layers": c[1], "TMUX": c[2], "raises": res[1]}, klass=f"highlevel-explicit/{c[0]}/raises")


def check_highlevel_setter(ctx, model, cov):
    """`t.num_tmux_layers = n` on a live TupimageTerminal whose wrapping count and configuration have come apart before the
    assignment — the GraphicsTerminal was changed directly (attribute, detect_tmux), or the configuration object is shared
    with another terminal that was assigned to: afterwards the terminal reports n and wraps n times, also when n is what
    the configuration already said."""
    work = ctx.work
    rng = ctx.rng
    plan = []
    for _ in range(ctx.pick(40, 300)):
        plan.append({"a": rng.randrange(0, 4), "how": rng.choice(["term-attribute", "shared-config", "detect"]), "b": rng.randrange(0, 4), "n": rng.randrange(0, 4)})
    for a in range(4):                       # the assignment repeats the configured value
        for b in range(4):
            plan.append({"a": a, "how": "term-attribute", "b": b, "n": a})
            plan.append({"a": a, "how": "shared-config", "b": b, "n": b})

    def child():
        common.scrub_process_env()
        os.environ["HOME"] = work
        os.environ["XDG_STATE_HOME"] = os.path.join(work, "state")
        os.environ["XDG_CONFIG_HOME"] = os.path.join(work, "config")
        import tupimage
        gc = tupimage.graphics_command
        tty_in = open("/dev/tty", "rb", buffering=0)
        bindir = os.path.join(work, "bin-hls")
        os.makedirs(bindir, exist_ok=True)
        with open(os.path.join(bindir, "tmux"), "w") as f:
            f.write("#!/bin/sh\necho 'fake-term||||77||||88_sess'\n")
        os.chmod(os.path.join(bindir, "tmux"), 0o755)
        os.environ["PATH"] = bindir + ":" + os.environ.get("PATH", "")
        from PIL import Image
        img_path = os.path.join(work, "hls.png")
        Image.new("RGB", (5, 4), (9, 8, 7)).save(img_path)
        img_mem = Image.new("RGB", (3, 3), (1, 2, 3))
        res = []
        for k, c in enumerate(plan):
            out = common.RecStream()

            def mk(o, **kw):
                return tupimage.TupimageTerminal(out_command=o, out_display=common.RecStream(), in_response=tty_in, id_database=os.path.join(work, "hls.db"),
                                                 redetect_terminal=False, **kw)
            try:
                if c["how"] == "shared-config":
                    cfg = tupimage.TupimageConfig()
                    cfg.override_from_dict({"num_tmux_layers": c["a"]})
                    first = mk(common.RecStream(), config=cfg)
                    t = mk(out, config=cfg)
                    first.num_tmux_layers = c["b"]
                else:
                    t = mk(out, config="DEFAULT", num_tmux_layers=c["a"])
                    if c["how"] == "term-attribute":
                        t.term.num_tmux_layers = c["b"]
                    else:
                        os.environ["TMUX"] = "/tmp/tmux-1/default,1,0" if c["b"] % 2 else ""
                        os.environ["TERM"] = "screen-256color"
                        t.term.detect_tmux()
                        os.environ.pop("TMUX", None)
                        os.environ["TERM"] = "xterm-256color"
                t.num_tmux_layers = c["n"]
                t.term.send_command(gc.DeleteCommand(image_id=5, what=gc.WhatToDelete.IMAGE_OR_PLACEMENT_BY_ID))
                # and what the high-level routes put on the stream themselves: an inline upload of an image file, of an
                # in-memory image, a file-name upload — every write must be wrapped like the command above
                t.upload_method = ["direct", "file", "direct"][k % 3]
                t.upload(img_path if k % 2 else img_mem, force_upload=True)
                res.append(["OK", t.num_tmux_layers, ",".join(bytes(w).hex() for w in out.writes if w)])
            except Exception as e:  # noqa
                res.append(["EXC", type(e).__name__ + ": " + str(e)[:100], ""])
        return res

    r = common.in_pty(child, timeout=300)
    if "ok" not in r:
        ctx.corr_breaks.append({"what": "high-level setter runs failed in the pty sandbox", "error": {k: v for k, v in r.items() if k != "tty"}})
        return
    ok = [(c, res) for c, res in zip(plan, r["ok"]) if res[0] == "OK"]
    flat = [(i, w) for i, (c, res) in enumerate(ok) for w in res[2].split(",") if w]
    flat_reps = model.batch([f"c11.spec_unwrapn {ok[i][0]['n']} {w}" for i, w in flat]) if flat else []
    worst = {}
    for (i, w), rep in zip(flat, flat_reps):
        inner_ = None if rep in ("NONE", "") else bytes.fromhex(rep)
        good = inner_ is not None and inner_.startswith(b"\x1b_G") and b"\x1bP" not in inner_
        if not good and i not in worst:
            worst[i] = rep
    for i, (c, res) in enumerate(ok):
        rep = worst.get(i, "1b5f47")
        cov.add(dict(c, site="TupimageTerminal.num_tmux_layers setter"), klass=f"highlevel-setter/{c['how']}")
        inner = None if rep in ("NONE", "") else bytes.fromhex(rep)
        if res[1] != c["n"] or i in worst:
            ctx.violations.append({"signature": {"class": "configured-layers-lost", "site": "TupimageTerminal.num_tmux_layers setter", "how": c["how"]},
                                   "what": f"terminal built with {c['a']} layer(s), then {c['how']} -> {c['b']}, then `t.num_tmux_layers = {c['n']}`, a delete command and an upload: it reports {res[1]} and "
                                           f"one of its writes {'does not unwrap ' + str(c['n']) + ' times' if inner is None else 'unwraps to ' + repr(inner[:40])}",
                                   "case": {"kind": "highlevel_setter", **c}})
            break
    for c, res in zip(plan, r["ok"]):
        if res[0] != "OK":
            ctx.corr_breaks.append({"what": "high-level setter scenario raised", "case": c, "error": res[1]})
            break


def run(ctx, model):
    cov = common.Coverage("case = (command kind, layers, content bytes) or (site, TMUX, TERM, layers); non-trivial = at least one tmux layer / TMUX set; distinct by hash of the case")
    if model is None:
        return cov
    common.scrub_process_env()
    tup = common.import_impl()
    check_emission(ctx, model, tup, cov)
    check_faulted(ctx, model, tup, cov)
    check_reconfiguration(ctx, model, tup, cov)
    check_detection(ctx, model, tup, cov)
    check_highlevel_explicit(ctx, model, cov)
    check_highlevel_setter(ctx, model, cov)
    # a live TupimageTerminal whose num_tmux_layers is re-assigned: it must behave like one constructed with the new count
    import c08_cli
    c08_cli.reconfigure_equivalence(ctx, cov, ctx.pick(24, 120), must_change=["num_tmux_layers"])
    # the command line wraps like the library call in the same environment / with the same configuration file
    c08_cli.cli_equivalence(ctx, cov, ctx.pick(24, 80), env_rate=0.8)
    return cov


def replay(ctx, model, rec):
    case = rec["case"]
    tup = common.import_impl()
    if case["kind"] == "emit":
        ok = model.one(f"c11.spec_layers_ok {case['layers']} {case['written']} {case['expected_plain']}")
        return {"violates": ok != "1", "spec_layers_ok": ok}
    return {"violates": False, "note": "re-run the check to replay detection cases"}
