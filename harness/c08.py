"""C08 — after upload-and-display the terminal shows the requested image in the cells.  (proof, PARTIAL)

Random histories of assign_id / upload / upload_and_display / upload_and_display(ImageInstance, possibly stale) /
get_image_instance+upload_and_display(id) / file rewrites on 1..3 TupimageTerminal objects (distinct terminal ids, own
command and display streams) sharing one id database, in a pty sandbox, with a patched clock (constant during a call)
and deterministic `secrets`.  Tiny subspaces force recycling; both upload methods + "auto" with and without an SSH
variable; supported / unsupported formats; small limits so that big images are downscaled and files are converted.

Oracle = an independent terminal simulator: the command stream is un-wrapped (extracted Spec/TmuxSpec.unwrapn) and
parsed (extracted Spec/KittyProtoSpec.parse_escape), chunks (m=1) are accumulated, t=f / t=t names are opened at the
moment of the write (the stream object snapshots the named file; t=t names must carry the library prefix and must
not be a user's file), payloads are decoded with Pillow; the display stream of each call is rendered by the extracted
Spec terminal + placeholder decoder (c07.render).  At every print the simulator's store must hold, under the printed
id, the requested image (pixels equal after decoding; downscaled only if over the configured limit) with the
printed rows x cols; the medium policy is judged on every transmission.
Correspondence = the same history through Model/SystemModel.step_gen (events per call, upload table and id tables
after every call)."""
import base64
import datetime as _dt
import hashlib
import io
import json
import os
import random as _random
import re

import common
from c04 import BASE, Clock, from_us, install_clock, to_us

GEN_DEPS = ("gen_system", "gen_uploadflow", "gen_idmanager", "gen_idspace", "gen_commands", "gen_tmux", "gen_placeholder")
EXTRA_PROPS = ("C08wire",)
ASSUMPTIONS = [
    "(path, mtime) determines a file's content (premise req_ok / world_ok of the theorems; the harness never rewrites a file without a new mtime)",
    "md5 is collision-free on the images used; json.dumps/json.loads of descriptions is an exact codec (codec_ok)",
    "Pillow decodes what it encoded (checked here on every payload, not proved); resize is compared against Pillow's own resize",
    "sequential histories; the clock is constant during one call and strictly increasing between calls",
    "the terminal keeps the last complete transmission per id (retention/eviction is C04)",
]
TRUSTED = ["harness/c08.py terminal simulator (snapshot of named files at write time, Pillow decode)", "patched tupimage.id_manager.datetime / secrets / IDSpace.gen_random_id (recording)", "ocaml/drv_c08.ml (description codec = interning table)", "ocaml/drv_c07.ml render, drv_cmd.ml spec_parse, drv_c11.ml spec_unwrapn"]

MODES = {"RGB": 0, "RGBA": 1, "L": 2}
FMTS = {"png": 1, "jpeg": 2, "bmp": 3}
SPACE_NAMES = {"8bit": "8.0", "8bit_diacritic": "0.1", "16bit": "8.1", "24bit": "24.0", "32bit": "24.1"}
SSH_VARS_SPEC = ["SSH_CLIENT", "SSH_TTY", "SSH_CONNECTION"]  # the property text
PREFIX_SPEC = "tty-graphics-protocol-"


# ------------------------------------------------------------------------------ the image pool (pure function of a seed)
def _noise(rnd, mode, size):
    from PIL import Image

    n = size[0] * size[1] * {"RGB": 3, "RGBA": 4, "L": 1}[mode]
    return Image.frombytes(mode, size, bytes(rnd.randrange(256) for _ in range(n)))


def summary(im):
    return [im.mode, list(im.size), hashlib.md5(im.tobytes()).hexdigest()]


def make_pool(seed):
    """-> (mem, files).  mem: list of PIL images; files: list of dict(name, variants=[(format, PIL image as saved, bytes)])"""
    from PIL import Image

    rnd = _random.Random(seed)
    raw12 = bytes(rnd.randrange(256) for _ in range(12))
    mem = [
        Image.frombytes("RGB", (4, 1), raw12),      # 0  \ same raw bytes,
        Image.frombytes("RGB", (1, 4), raw12),      # 1  / different shape
        Image.frombytes("L", (12, 1), raw12),       # 2    same raw bytes, different mode
        _noise(rnd, "RGBA", (3, 2)),                # 3
        _noise(rnd, "L", (5, 5)),                   # 4
        _noise(rnd, "RGB", (30, 30)),               # 5    2700 bytes: over the small stream limit
        Image.new("RGB", (4, 1), (0, 0, 0)),        # 6  \ black 4x1 and 1x4
        Image.new("RGB", (1, 4), (0, 0, 0)),        # 7  /
    ]
    specs = [("a.png", "PNG", "RGB", (5, 4)), ("b.png", "PNG", "RGBA", (3, 3)), ("c.jpg", "JPEG", "RGB", (8, 6)),
             ("d.bmp", "BMP", "RGB", (4, 4)), ("big.png", "PNG", "RGB", (40, 30)), ("e.png", "PNG", "L", (6, 2))]
    files = []
    for name, fmt, mode, size in specs:
        variants = []
        for v in range(2):
            im = _noise(rnd, mode, size if v == 0 else (size[0] + 1, size[1]))
            b = io.BytesIO()
            im.save(b, format=fmt)
            data = b.getvalue()
            dec = Image.open(io.BytesIO(data))
            dec.load()
            variants.append((fmt, dec, data))
        files.append({"name": name, "variants": variants})
    return mem, files


class PixTokens:
    def __init__(self):
        self.d = {}

    def tok(self, im):
        k = im.tobytes()
        if k not in self.d:
            self.d[k] = len(self.d) + 1
        return self.d[k]


def img_tok(pt, im):
    return f"{pt.tok(im)},{im.size[0]},{im.size[1]},{MODES[im.mode]}"


# ------------------------------------------------------------------------------ the child: run histories on the real code
class TermStream(common.RecStream):
    """command stream of one terminal: records every write and, at that moment, opens the file a t=f / t=t command names"""

    def __init__(self, log):
        super().__init__()
        self.log = log

    def write(self, b):
        b = bytes(b)
        snap = None
        m = re.search(rb"_G([^;\x1b]*);([A-Za-z0-9+/=]*)", b)
        if m and re.search(rb"(^|,)t=[ft](,|$)", m.group(1)):
            try:
                name = base64.b64decode(m.group(2)).decode("utf-8", "surrogateescape")
                with open(name, "rb") as f:
                    data = f.read()
                snap = {"name": name, "data": data.hex()}
                if re.search(rb"(^|,)t=t(,|$)", m.group(1)) and os.path.basename(name).startswith(PREFIX_SPEC):
                    os.remove(name)  # what a terminal does with a temporary file
                    snap["removed"] = True
            except Exception as e:  # noqa
                snap = {"name": None, "error": type(e).__name__ + ": " + str(e)[:100]}
        self.log.append({"w": b.hex(), "snap": snap})
        return len(b)


def child_main(work, jobs):
    """jobs: list of dict(seed, pool_seed, n_steps, sampling).  -> list of history logs"""
    common.scrub_process_env()
    os.environ["HOME"] = work
    os.environ["XDG_STATE_HOME"] = os.path.join(work, "state")
    os.environ["XDG_CONFIG_HOME"] = os.path.join(work, "config")
    os.environ["TMPDIR"] = os.path.join(work, "tmp")
    os.makedirs(os.environ["TMPDIR"], exist_ok=True)
    import sqlite3
    import tempfile

    tempfile.tempdir = None
    tupimage = common.import_impl()
    import tupimage.id_manager as idm
    from idm_common import FakeSecrets

    out = []
    tty_in = open("/dev/tty", "rb", buffering=0)
    for job in jobs:
        out.append(run_history(work, job, tupimage, idm, FakeSecrets, tty_in, sqlite3))
    return out


def run_history(work, job, tupimage, idm, FakeSecrets, tty_in, sqlite3):
    rng = _random.Random(job["seed"])
    mem, files = make_pool(job["pool_seed"])
    hdir = os.path.join(work, f"h{job['seed']}")
    os.makedirs(hdir, exist_ok=True)
    db = os.path.join(hdir, "ids.db")
    clock = Clock()
    clock.now_us = 10**9
    saved = (idm.datetime, idm.secrets, idm.IDSpace.gen_random_id)
    install_clock(idm, clock)
    idm.secrets = FakeSecrets(_random.Random(rng.randrange(2**60)))
    samples = []
    orig_gen = saved[2]

    def gen_random_id(self_sp, subspace=idm.IDSubspace()):
        v = orig_gen(self_sp, subspace)
        samples.append(v)
        return v

    idm.IDSpace.gen_random_id = gen_random_id
    log = {"job": job, "steps": [], "terms": [], "files": []}
    try:
        # ---- files
        paths = [os.path.join(hdir, f["name"]) for f in files] + [os.path.join(hdir, "missing.png")]
        cur_variant = [0] * len(files)
        mtime_us = [1_700_000_000_000_000 + 1_000_000 * i + 1000 * rng.randrange(1, 900) for i in range(len(files))]

        def write_file(i):
            fmt, im, data = files[i]["variants"][cur_variant[i]]
            with open(paths[i], "wb") as f:
                f.write(data)
            os.utime(paths[i], ns=(mtime_us[i] * 1000, mtime_us[i] * 1000))
            return {"op": "write", "path": i, "variant": cur_variant[i], "mtime": int(round(os.path.getmtime(paths[i]) * 1e6)), "size": len(data)}

        for i in range(len(files)):
            log["steps"].append(write_file(i))
        # ---- terminals
        nterm = rng.choice([1, 2, 2, 3])
        terms = []
        spaces = job["spaces"]
        for k in range(nterm):
            cfg = {
                "method": rng.choice(["auto", "auto", "file", "direct"]),
                "ssh": rng.choice([None, None, "SSH_CLIENT", "SSH_TTY", "SSH_CONNECTION"]),
                "stream_max": rng.choice([2000, 2000, 2 * 1024 * 1024]),
                "file_max": rng.choice([2500, 100, 10 * 1024 * 1024]),
                "formats": rng.choice(["auto", "auto-st", ["png", "jpeg"], ["PNG", "BMP"], ["png"]]),
                "nmax": rng.choice([1, 2, 1024, 1024]), "bmax": rng.choice([300, 5000, 20 * 1024 * 1024, 20 * 1024 * 1024]), "seconds": rng.choice([5, 3600, 3600]),
                "mcs": rng.choice([4096, 4096, 300, 700]), "layers": rng.choice([0, 0, 0, 1]),
                "force": rng.random() < 0.07,
            }
            cmd_log = []
            cmd = TermStream(cmd_log)
            disp = common.RecStream()
            if cfg["ssh"]:
                os.environ[cfg["ssh"]] = "1.2.3.4 5 6"
            t = tupimage.TupimageTerminal(
                out_command=cmd, out_display=disp, in_response=tty_in, id_database=db, terminal_id=f"term{k}", session_id="sess",
                terminal_name=("st-256color" if cfg["formats"] == "auto-st" else "xterm"), config="DEFAULT",
                upload_method=cfg["method"], stream_max_size=cfg["stream_max"], file_max_size=cfg["file_max"],
                supported_formats=("auto" if isinstance(cfg["formats"], str) else cfg["formats"]),
                reupload_max_uploads_ago=cfg["nmax"], reupload_max_bytes_ago=cfg["bmax"], reupload_max_seconds_ago=cfg["seconds"],
                max_command_size=cfg["mcs"], num_tmux_layers=cfg["layers"], force_upload=cfg["force"], redetect_terminal=False,
                id_space=spaces[0][0], id_subspace=spaces[0][1])
            if cfg["ssh"]:
                del os.environ[cfg["ssh"]]
            terms.append((t, cmd_log, disp, cfg))
            log["terms"].append(cfg)
        conn = sqlite3.connect(db)

        def dump_ids():
            st = {}
            for sp in idm.IDSpace.all_values():
                for r in conn.execute(f"SELECT id, description, atime FROM {sp.namespace_name()}"):
                    st[str(r[0])] = [r[1], to_us(_dt.datetime.fromisoformat(r[2]))]
            return st

        def dump_up():
            return sorted([r[0], r[1], r[2], r[3], to_us(_dt.datetime.fromisoformat(r[4]))] for r in conn.execute("SELECT id, terminal, description, size, upload_time FROM upload"))

        stash = []  # (ImageInstance, model description of it)
        recent = []
        known_ids = []
        for _ in range(job["n_steps"]):
            clock.now_us += rng.choice([1, 7, 1000, 10**6, 10**6, 7 * 10**6])
            kind = rng.choices(["display", "upload", "assign", "inst", "redisplay", "write", "delete"], [40, 10, 12, 16, 10, 8, 2])[0]
            if kind == "inst" and not stash:
                kind = "display"
            if kind == "redisplay" and not known_ids:
                kind = "display"
            if kind == "write":
                i = rng.randrange(len(files))
                cur_variant[i] = 1 - cur_variant[i]
                mtime_us[i] += 1_000_000 * rng.randrange(1, 50) + 1000 * rng.randrange(1, 900)
                log["steps"].append(write_file(i))
                continue
            if kind == "delete":
                i = rng.randrange(len(files))
                if os.path.exists(paths[i]):
                    os.remove(paths[i])
                log["steps"].append({"op": "delete", "path": i})
                continue
            k = rng.randrange(nterm)
            t, cmd_log, disp, cfg = terms[k]
            step = {"op": kind, "term": k, "now": clock.now_us}
            kw = {}
            if rng.random() < 0.12:
                kw["force_upload"] = True
            if rng.random() < 0.2:
                kw["upload_method"] = rng.choice(["file", "direct", "auto", "f", "stream", "t"])
            step["kw"] = dict(kw)
            n_cmd, n_disp = len(cmd_log), len(disp.writes)
            samples.clear()
            pre = dump_ids()
            res = None
            exc = None
            try:
                if kind in ("display", "upload", "assign"):
                    if recent and rng.random() < 0.4:
                        sp, sub, sj, cols, rows = rng.choice(recent)     # ask again for something asked before (maybe on another terminal)
                        step["subject"] = list(sj)
                        image = mem[sj[1]] if sj[0] == "mem" else paths[sj[1]]
                    else:
                        sp, sub = rng.choice(spaces)
                        if rng.random() < 0.5:
                            mi = rng.randrange(len(mem))
                            image = mem[mi]
                            step["subject"] = ["mem", mi]
                            auto_ok = True
                        else:
                            pi = rng.randrange(len(paths)) if rng.random() < 0.93 else len(paths) - 1
                            image = paths[pi]
                            step["subject"] = ["file", pi]
                            auto_ok = os.path.exists(image)
                        if auto_ok and rng.random() < 0.2:
                            cols = rows = None
                        else:
                            cols, rows = rng.randrange(1, 5), rng.randrange(1, 4)
                        recent.append((sp, sub, tuple(step["subject"]), cols, rows))
                    step["space"], step["sub"], step["cols"], step["rows"] = sp, sub, cols, rows
                    if kind == "assign":
                        res = t.assign_id(image, cols=cols, rows=rows, id_space=sp, id_subspace=sub)
                    elif kind == "upload":
                        res = t.upload(image, cols=cols, rows=rows, id_space=sp, id_subspace=sub, **kw)
                    else:
                        res = t.upload_and_display(image, cols=cols, rows=rows, id_space=sp, id_subspace=sub, **kw)
                elif kind == "inst":
                    si = rng.randrange(len(stash))
                    inst, desc = stash[si]
                    step["subject"] = ["inst", desc]
                    step["display"] = rng.random() < 0.85
                    if step["display"]:
                        res = t.upload_and_display(inst, **kw)
                    else:
                        res = t.upload(inst, **kw)
                else:
                    id_ = rng.choice(known_ids)
                    step["subject"] = ["id", id_]
                    inst = t.get_image_instance(id_)
                    step["found"] = inst is not None
                    if inst is None:
                        raise KeyError("not assigned")
                    res = t.upload_and_display(inst, **kw)
            except Exception as e:  # noqa
                exc = type(e).__name__
                step["exc_msg"] = str(e)[:200]
            step["exc"] = exc
            if res is not None:
                if hasattr(res, "image_id"):
                    step["result"] = {"id": res.image_id, "cols": res.end_col, "rows": res.end_row}
                else:
                    step["result"] = {"id": res.id, "cols": res.cols, "rows": res.rows}
                    src = step["subject"]
                    if src[0] in ("mem", "file"):
                        d = {"kind": src[0], "index": src[1], "cols": res.cols, "rows": res.rows, "id": res.id,
                             "mtime": int(round(res.mtime.timestamp() * 1e6)) if src[0] == "file" else 0}
                        stash.append((res, d))
                if step["result"]["id"] not in known_ids:
                    known_ids.append(step["result"]["id"])
            step["samples"] = list(samples)
            step["pre"] = pre
            step["post"] = dump_ids()
            step["up"] = dump_up()
            step["cmd"] = cmd_log[n_cmd:]
            step["disp"] = b"".join(disp.writes[n_disp:]).hex()
            log["steps"].append(step)
        conn.close()
        left = [n for n in os.listdir(os.environ["TMPDIR"])]
        log["leftover_tmp"] = left
        for n in left:
            try:
                os.remove(os.path.join(os.environ["TMPDIR"], n))
            except OSError:
                pass
        log["paths"] = paths
    finally:
        idm.datetime, idm.secrets, idm.IDSpace.gen_random_id = saved
    return log


# ------------------------------------------------------------------------------ the parent: simulator, model, comparison
def plan_jobs(ctx, n):
    jobs = []
    for _ in range(n):
        r = ctx.rng.random()
        b = ctx.rng.randrange(1, 250)
        if r < 0.8:
            sp = ctx.rng.choice(["8bit", "8bit", "8bit_diacritic"])
            spaces = [[sp, f"{b}:{b + ctx.rng.choice([1, 1, 2, 3])}"]]
            if ctx.rng.random() < 0.4:
                spaces.append([ctx.rng.choice(["8bit", "8bit_diacritic"]), f"{b}:{b + ctx.rng.choice([1, 2])}"])
        elif r < 0.9:
            spaces = [["16bit", f"{b}:{b + 1}"]]
        else:
            spaces = [[ctx.rng.choice(["24bit", "32bit"]), f"{b}:{b + 2}"]]
        jobs.append({"seed": ctx.rng.randrange(2**40), "pool_seed": 11, "n_steps": ctx.rng.randrange(5, 31), "spaces": spaces})
    return jobs


class Judge:
    """Everything the parent knows about one history log; produces violations, impl events, model tokens."""

    def __init__(self, log):
        from PIL import Image  # noqa

        self.log = log
        self.mem, self.files = make_pool(log["job"]["pool_seed"])
        self.pt = PixTokens()
        self.paths = log["paths"]
        self.path_tok = {p: i + 1 for i, p in enumerate(self.paths)}
        self.world = {}       # (path index, mtime us) -> PIL image: "(path, mtime) determines the content"
        self.fs = {}          # path index -> (mtime, variant)
        self.md5_new, self.md5_old = {}, {}
        for im in self.mem:
            self.md5_new[hashlib.md5(f"{im.mode}:{im.size[0]}x{im.size[1]}:".encode() + im.tobytes()).hexdigest()] = im
            self.md5_old.setdefault(hashlib.md5(im.tobytes()).hexdigest(), im)
        self.store = [dict() for _ in log["terms"]]   # per terminal: id -> dict(img=PIL, r, c, fmt)
        self.pending = [None for _ in log["terms"]]

    # ---- descriptions
    def descr_struct(self, s):
        """the library's description string -> the driver's structured form"""
        try:
            d = json.loads(s)
            path, mt, cols, rows = d["path"], d["mtime"], int(d["cols"]), int(d["rows"])
        except Exception:  # noqa
            return "?" + s[:40]
        if path.startswith(":tupimage:"):
            h = path[len(":tupimage:"):]
            if h in self.md5_new:
                im = self.md5_new[h]
                return f"M.{MODES[im.mode]}.{im.size[0]}.{im.size[1]}.{self.pt.tok(im)}.{cols}.{rows}"
            if h in self.md5_old:
                return f"M.0.0.0.{self.pt.tok(self.md5_old[h])}.{cols}.{rows}"
            return "?md5"
        if path in self.path_tok:
            return f"F.{self.path_tok[path]}.{int(round(mt * 1e6))}.{cols}.{rows}"
        return "?path"

    def described_image(self, s):
        """Spec side: the image a description describes (None = nothing)"""
        try:
            d = json.loads(s)
        except Exception:  # noqa
            return None
        path = d["path"]
        if path.startswith(":tupimage:"):
            h = path[len(":tupimage:"):]
            return self.md5_new.get(h) or self.md5_old.get(h)
        if path in self.path_tok:
            return self.world.get((self.path_tok[path] - 1, int(round(d["mtime"] * 1e6))))
        return None

    # ---- pixels
    @staticmethod
    def same_pixels(a, b):
        return a.mode == b.mode and a.size == b.size and a.tobytes() == b.tobytes()

    def shows(self, entry, want, limit_info):
        """the decoded transmission `entry` is the wanted image, downscaled only if over the limit -> None | reason"""
        got = entry["img"]
        if got.size == want.size:
            if self.same_pixels(got, want):
                return None
            if entry.get("fmt") == "JPEG" and got.mode == want.mode:
                diff = sum(abs(x - y) for x, y in zip(got.tobytes(), want.tobytes())) / max(1, len(want.tobytes()))
                return None if diff < 40 else f"JPEG re-encoding differs by {diff:.1f} per byte"
            return f"pixels differ: got {summary(got)} want {summary(want)}"
        w, h = want.size
        limit = limit_info
        if limit is None or not (w * h * (3 if want.mode == "RGB" else 4) > limit):
            return f"downscaled {want.size} -> {got.size} although not over the limit {limit}"
        if got.size[0] > w or got.size[1] > h:
            return f"enlarged {want.size} -> {got.size}"
        exp = want.resize(got.size)
        if self.same_pixels(got, exp):
            return None
        if entry.get("fmt") == "JPEG":
            return None
        return f"downscaled pixels differ from Pillow's resize: got {summary(got)} want {summary(exp)}"


def names_allowed_spec(method, ssh):
    return method == "file" or (method == "auto" and not ssh)


def norm_method(m):
    return {"file": "file", "f": "file", "direct": "direct", "d": "direct", "stream": "direct", "auto": "auto"}.get(m, "other")


def judge_history(ctx, model, log, cov):
    """-> (violations, corr_breaks) for one history"""
    from PIL import Image

    J = Judge(log)
    viol, breaks = [], []
    terms = log["terms"]
    steps = log["steps"]
    case = {"kind": "history", "job": log["job"]}

    def V(klass, what, step_i):
        viol.append({"signature": {"class": klass}, "what": what, "case": dict(case, step=step_i)})

    # ---- pass 1: parse all command writes and display chunks with the extracted Spec
    reqs, where = [], []
    for si, st in enumerate(steps):
        if st["op"] in ("write", "delete"):
            continue
        layers = terms[st["term"]]["layers"]
        for wi, w in enumerate(st["cmd"]):
            reqs.append(f"c11.spec_unwrapn {layers} {w['w']}")
            where.append((si, wi))
    unwrapped = model.batch(reqs) if reqs else []
    reqs2 = [f"cmd.spec_parse {u}" if u != "NONE" else "cmd.spec_parse 00" for u in unwrapped]
    parsed = model.batch(reqs2) if reqs2 else []
    parsed_at = {}
    for (si, wi), u, p in zip(where, unwrapped, parsed):
        parsed_at[(si, wi)] = None if (u == "NONE" or p == "NONE") else p
    dreqs, dwhere = [], []
    for si, st in enumerate(steps):
        if st["op"] in ("write", "delete") or not st["disp"]:
            continue
        dreqs.append(f"c07.render 40 12 0 0 0 {st['disp']}")
        dwhere.append(si)
    rendered = dict(zip(dwhere, model.batch(dreqs))) if dreqs else {}

    # ---- pass 2: replay the history through the simulator; collect the implementation's events and the model tokens
    toks, impl_events, tok_steps = [], [], []
    for si, st in enumerate(steps):
        if st["op"] == "write":
            i = st["path"]
            fmt, im, data = J.files[i]["variants"][st["variant"]]
            J.world[(i, st["mtime"])] = im
            J.fs[i] = (st["mtime"], st["variant"])
            toks.append(f"W:{i + 1}:{st['mtime']}:{FMTS[fmt.lower()]}:{st['size']}:{img_tok(J.pt, im)}")
            impl_events.append(None)
            tok_steps.append(si)
            continue
        if st["op"] == "delete":
            J.fs.pop(st["path"], None)
            toks.append(f"X:{st['path'] + 1}")
            impl_events.append(None)
            tok_steps.append(si)
            continue
        k = st["term"]
        cfg = terms[k]
        method = norm_method(st["kw"].get("upload_method", cfg["method"]))
        ssh = cfg["ssh"] is not None and cfg["ssh"] in SSH_VARS_SPEC
        resolved = "direct" if (method == "direct" or (method == "auto" and ssh)) else "file" if method in ("file", "auto") else None
        limit = None if resolved is None else (cfg["stream_max"] if resolved == "direct" else cfg["file_max"])
        force = bool(st["kw"].get("force_upload", cfg["force"]))
        # -- what is requested (Spec side, before the call)
        subj = st["subject"]
        want = None
        if subj[0] == "mem":
            want = J.mem[subj[1]]
        elif subj[0] == "file":
            if subj[1] in J.fs:
                want = J.files[subj[1]]["variants"][J.fs[subj[1]][1]][1]
        elif subj[0] == "inst":
            d = subj[1]
            want = J.mem[d["index"]] if d["kind"] == "mem" else J.world.get((d["index"], d["mtime"]))
        elif subj[0] == "id":
            pre = st["pre"].get(str(subj[1]))
            want = J.described_image(pre[0]) if pre else None
        # -- transmissions of this call
        events = []
        rx_bytes = {}
        txs = []
        for wi, w in enumerate(st["cmd"]):
            p = parsed_at.get((si, wi))
            if p is None:
                V("unparsable-command", f"write {wi} of step {si} is not a well-formed graphics escape (after removing {cfg['layers']} tmux layers)", si)
                continue
            kvs, payload = p.split(";")
            kv = {}
            if kvs != "_":
                for item in kvs.split(","):
                    kk, vv = item.split(":")
                    kv[kk] = bytes.fromhex(vv).decode() if vv != "-" else ""
            data = b"" if payload in ("NOPAYLOAD", "-") else bytes.fromhex(payload)
            pend = J.pending[k]
            if "a" in kv:
                if pend is not None:
                    V("interleaved-transmission", "a new transmission starts before the previous one completed", si)
                pend = {"kv": kv, "data": data, "snap": w["snap"]}
            else:
                if pend is None:
                    V("continuation-without-start", "a continuation chunk without a transmission in progress", si)
                    continue
                pend["data"] += data
            if kv.get("m") == "1":
                J.pending[k] = pend
                continue
            J.pending[k] = None
            txs.append(pend)
        for tx in txs:
            kv = tx["kv"]
            med = kv.get("t", "d")
            ident = int(kv.get("i", "0"))
            r, c = int(kv.get("r", "0")), int(kv.get("c", "0"))
            if kv.get("a") != "T" or kv.get("U") != "1":
                V("not-a-virtual-placement", f"transmission with a={kv.get('a')} U={kv.get('U')}", si)
            content, fmt, pk = None, None, "D"
            if med in ("f", "t"):
                name = tx["data"].decode("utf-8", "surrogateescape")
                snap = tx["snap"]
                if not names_allowed_spec(method, ssh):
                    V("file-name-announced-against-method", f"t={med} announced although the upload method is {method!r}" + (" inside an SSH session" if ssh else ""), si)
                if med == "t":
                    pk = "K"
                    if not os.path.basename(name).startswith(PREFIX_SPEC):
                        V("temp-medium-for-foreign-file", f"t=t announced for {os.path.basename(name)!r}, which does not carry the library's prefix", si)
                    if name in J.path_tok:
                        V("temp-medium-for-user-file", f"the user's own file {os.path.basename(name)} is announced as t=t (delete after reading)", si)
                else:
                    pk = "U" + str(J.path_tok.get(name, 0))
                    if name not in J.path_tok:
                        V("foreign-file-as-t=f", f"t=f announced for {name!r}, which is not the user's file", si)
                if snap is None or snap.get("name") != name:
                    V("named-file-unreadable", f"the file named in t={med} could not be opened at the moment of the command: {snap}", si)
                else:
                    raw = bytes.fromhex(snap["data"])
                    try:
                        im = Image.open(io.BytesIO(raw))
                        im.load()
                        content, fmt = im, im.format
                    except Exception as e:  # noqa
                        V("payload-not-an-image", f"t={med} file does not decode: {e}", si)
            else:
                try:
                    im = Image.open(io.BytesIO(tx["data"]))
                    im.load()
                    content, fmt = im, im.format
                except Exception as e:  # noqa
                    V("payload-not-an-image", f"inline payload does not decode: {e}", si)
            if content is not None:
                J.store[k][ident] = {"img": content, "r": r, "c": c, "fmt": fmt, "step": si, "limit": limit}
            else:
                J.store[k].pop(ident, None)
            # the number of bytes this terminal received for the image: the inline payload, or the named file as it was
            received = len(tx["data"]) if med not in ("f", "t") else (len(bytes.fromhex(tx["snap"]["data"])) if tx.get("snap") and tx["snap"].get("data") is not None else None)
            rx_bytes[ident] = received
            events.append(("T", k + 1, ident, med, pk, r, c))
        # -- the placeholder printed by this call
        printed = None
        if st["disp"]:
            rep = rendered.get(si, "")
            m = re.search(r"cells=(\S*)", rep)
            cells = [tuple(int(x) for x in cc.split(",")) for cc in (m.group(1).split(";") if m else []) if cc]
            if cells:
                ids = {cc[2] for cc in cells}
                rows_ = max(cc[4] for cc in cells) + 1
                cols_ = max(cc[5] for cc in cells) + 1
                if len(ids) != 1 or len(cells) != rows_ * cols_:
                    V("garbled-placeholder", f"the display stream of step {si} does not decode to one full rectangle: ids {sorted(ids)}, {len(cells)} cells", si)
                printed = (ids.pop(), rows_, cols_)
        if printed:
            pid, prow, pcol = printed
            events.append(("P", k + 1, pid, prow, pcol))
            entry = J.store[k].get(pid)
            klass = what = None
            if want is None:
                klass, what = "printed-without-request", f"a placeholder for id {pid} was printed although the request names no existing image"
            elif entry is None:
                klass, what = "printed-before-transmission", f"placeholder for id {pid} printed on terminal {k} which never received a complete transmission under that id"
            else:
                why = J.shows(entry, want, entry["limit"])
                if why:
                    klass = "shows-other-image"
                    if entry["step"] != si and entry["img"].tobytes() == want.tobytes():
                        klass = "same-bytes-different-shape-not-transmitted"
                    what = f"terminal {k} holds under id {pid} (transmitted in step {entry['step']}) not the requested image: {why}"
                elif (entry["r"], entry["c"]) != (prow, pcol):
                    klass, what = "placement-differs-from-print", f"placement r={entry['r']} c={entry['c']} but the placeholder has {prow} rows x {pcol} cols"
            if klass and subj[0] == "inst" and (entry is None or entry["step"] != si):
                # one root cause: upload(ImageInstance) trusted an id that is no longer bound to the instance's image
                what = f"upload_and_display(ImageInstance id={pid}) transmitted nothing although the id is no longer bound to the instance's image: " + what
                klass = "stale-instance-not-retransmitted"
            if klass:
                V(klass, what, si)
        if st["exc"] is not None:
            events.append(("R",))
        # every transmission of this call: right id / placement w.r.t. the print
        for e in events:
            if e[0] == "T" and printed and (e[2], e[5], e[6]) != printed:
                V("transmission-differs-from-print", f"transmission i={e[2]} r={e[5]} c={e[6]} but printed {printed}", si)
        impl_events.append(events)
        # -- model token
        res = st.get("result")
        cols = st.get("cols") or (res["cols"] if res else 1)
        rows = st.get("rows") or (res["rows"] if res else 1)
        fit = (1, 1)
        for tx_ev in events:
            if tx_ev[0] == "T":
                e = J.store[k].get(tx_ev[2])
                if e and e["step"] == si:
                    fit = e["img"].size
        enc_size = 0
        for row in st["up"]:
            if row[1] == f"term{k}" and row[4] == st["now"]:
                enc_size = row[3]
                # C04 counts bytes: what is recorded for an upload is what the terminal received for it
                if row[0] in rx_bytes and rx_bytes[row[0]] is not None and rx_bytes[row[0]] != row[3]:
                    V("recorded-size-differs-from-received-bytes",
                      f"terminal {k} received {rx_bytes[row[0]]} bytes for id {row[0]}, the upload table records size {row[3]} (needs_uploading's byte threshold counts the recorded sizes)", si)
        got_id = res["id"] if res else 0
        if subj[0] in ("mem", "file") and not res:
            # the id get_id returned (and the cols x rows it computed) are visible in the table dump even when the call raised later
            for i_, (d_, at) in st["post"].items():
                if at == st["now"]:
                    got_id = int(i_)
                    try:
                        dd = json.loads(d_)
                        cols, rows = int(dd["cols"]), int(dd["rows"])
                    except Exception:  # noqa
                        pass
        sp, sub = (st.get("space"), st.get("sub")) if "space" in st else (log["job"]["spaces"][0][0], log["job"]["spaces"][0][1])
        b_, e_ = sub.split(":")
        fl = cfg["formats"]
        formats = ["png"] if fl == "auto" else ["png", "jpeg"] if fl == "auto-st" else [x.lower() for x in fl]
        fm = "+".join(str(FMTS[x]) for x in formats) or "-"
        if subj[0] == "mem":
            sj = "M," + img_tok(J.pt, J.mem[subj[1]])
        elif subj[0] == "file":
            sj = f"F,{subj[1] + 1}"
        elif subj[0] == "inst":
            d = subj[1]
            cols, rows = d["cols"], d["rows"]
            if d["kind"] == "mem":
                sj = f"I,m,{img_tok(J.pt, J.mem[d['index']])},{d['cols']},{d['rows']},{d['id']}"
            else:
                sj = f"I,f,{d['index'] + 1},{d['mtime']},{d['cols']},{d['rows']},{d['id']}"
        else:
            sj = f"N,{subj[1]}"
        act = {"display": "d", "upload": "u", "assign": "a", "redisplay": "d"}.get(st["op"]) or ("d" if st.get("display") else "u")
        meth = {"auto": "a", "file": "f", "direct": "d", "other": "o"}[method]
        smp = "+".join(str(x) for x in st["samples"]) or "-"
        opts = [k + 1, meth, int(ssh), int(force), SPACE_NAMES[sp], b_, e_, 1024, cols, rows, fm, cfg["file_max"], cfg["stream_max"], fit[0], fit[1], enc_size,
                st["now"], cfg["nmax"], cfg["bmax"], cfg["seconds"] * 10**6, got_id, got_id, smp, int("cols" in st and st["cols"] is None)]
        toks.append(f"C:{act}:{sj}:" + ",".join(str(x) for x in opts))
        tok_steps.append(si)
        klass = f"{st['op']}/{subj[0]}/{method}{'+ssh' if ssh else ''}/" + ("raise" if st["exc"] else "tx=" + "".join(e[3] for e in events if e[0] == "T") if any(e[0] == "T" for e in events) else "raise" if st["exc"] else "skip")
        cov.add({"job": log["job"]["seed"], "step": si, "op": st["op"], "subject": subj if subj[0] != "inst" else ["inst", subj[1]["kind"], subj[1]["index"]], "term": k, "method": method, "ssh": ssh, "events": events},
                nontrivial=bool(events), klass=klass)
    for left in log.get("leftover_tmp", []):
        pass  # temp files are removed by the simulated terminal when it reads them; leftovers belong to failed calls
    # ---- pass 3: the model on the same history
    rep = model.one("c08.hist gen " + " ".join(toks))
    if rep.startswith("ERR"):
        breaks.append({"what": "model run failed: " + rep[:300], "case": case})
        return viol, breaks
    parts = rep.split(" | ")
    for idx, (part, si) in enumerate(zip(parts, tok_steps)):
        st = steps[si]
        evs, up, dbs = [x.strip() for x in part.split(" # ")]
        if st["op"] in ("write", "delete"):
            continue
        mevents = []
        for e in ([] if evs == "-" else evs.split(";")):
            f = e.split(",")
            if f[0] == "T":
                pk = f[4][0] + (f[4][1:] if f[4][0] == "U" else "")
                mevents.append(("T", int(f[1]), int(f[2]), f[3], pk, int(f[5]), int(f[6])))
            elif f[0] == "P":
                mevents.append(("P", int(f[1]), int(f[2]), int(f[3]), int(f[4])))
            elif f[0] == "R":
                mevents.append(("R",))
        ievents = impl_events[idx]
        if mevents != ievents:
            breaks.append({"what": f"events of step {si} ({st['op']} {st['subject'][0]}) differ from Model.SystemModel.step_gen", "case": dict(case, step=si),
                           "impl": ievents, "model": mevents, "exc": st.get("exc"), "exc_msg": st.get("exc_msg"), "token": toks[idx]})
            break
        iup = sorted(f"{r[0]},{int(r[1][4:]) + 1},{J.descr_struct(r[2])},{r[3]},{r[4]}" for r in st["up"])
        mup = [] if up == "-" else up.split("+")
        idb = sorted(f"{i_}={J.descr_struct(v[0])}@{v[1]}" for i_, v in st["post"].items())
        mdb = [] if dbs == "-" else dbs.split("+")
        if iup != sorted(mup) or idb != sorted(mdb):
            breaks.append({"what": f"upload table / id tables after step {si} differ from the model", "case": dict(case, step=si), "impl": [iup, idb], "model": [mup, mdb], "token": toks[idx]})
            break
    return viol, breaks


def run_jobs(ctx, jobs, chunk=25):
    logs = []
    work = ctx.work
    for i in range(0, len(jobs), chunk):
        part = jobs[i:i + chunk]
        r = common.in_pty(lambda part=part: child_main(work, part), timeout=900)
        if "ok" not in r:
            return logs, {k: v for k, v in r.items() if k != "tty"}
        logs += r["ok"]
    return logs, None


WITNESS_STALE = {"kind": "witness-stale-instance"}
WITNESS_DIGEST = {"kind": "witness-same-bytes"}


def witness_child(work, which):
    """hand-written witnesses run on the real code; returns what the terminal holds and what is printed"""
    common.scrub_process_env()
    os.environ["HOME"] = work
    os.environ["TMPDIR"] = os.path.join(work, "tmp")
    os.makedirs(os.environ["TMPDIR"], exist_ok=True)
    tupimage = common.import_impl()
    from PIL import Image

    tty_in = open("/dev/tty", "rb", buffering=0)
    db = os.path.join(work, f"w-{which}-{os.getpid()}.db")
    for sfx in ("", "-wal", "-shm"):
        if os.path.exists(db + sfx):
            os.remove(db + sfx)
    log = []
    cmd = TermStream(log)
    t = tupimage.TupimageTerminal(out_command=cmd, out_display=common.RecStream(), in_response=tty_in, id_database=db, terminal_id="w", session_id="w",
                                  config="DEFAULT", upload_method="direct", id_space="8bit", id_subspace="77:78", redetect_terminal=False)
    sent = []

    def new_payloads():
        out = []
        for e in log[len(sent):]:
            sent.append(e)
            m = re.search(rb";([A-Za-z0-9+/=]*)", bytes.fromhex(e["w"]))
            out.append(base64.b64decode(m.group(1)) if m else b"")
        return out

    if which == "stale":
        a_img = Image.new("RGB", (4, 2), (255, 0, 0))
        b_img = Image.new("RGB", (4, 2), (0, 0, 255))
        a = t.assign_id(a_img, cols=2, rows=1)
        new_payloads()
        pb = t.upload_and_display(b_img, cols=2, rows=1)
        pay_b = new_payloads()
        pa = t.upload_and_display(a)
        pay_a = new_payloads()
        held = pay_a[-1] if pay_a else (pay_b[-1] if pay_b else b"")
        im = Image.open(io.BytesIO(held))
        im.load()
        return {"ids": [a.id, pb.image_id, pa.image_id], "transmitted_in_third_call": len(pay_a), "held": summary(im), "requested": summary(a_img)}
    if which == "mark":
        # F-C04 / F-C08b, first half, replayed sequentially in one process: A is transmitted under an id that meanwhile
        # belongs to B; the record must say "A", so that the next request for B transmits B
        a_img = Image.new("RGB", (4, 2), (255, 0, 0))
        b_img = Image.new("RGB", (4, 2), (0, 0, 255))
        a = t.assign_id(a_img, cols=2, rows=1)
        b = t.assign_id(b_img, cols=2, rows=1)
        t.upload_and_display(a)
        new_payloads()
        pb = t.upload_and_display(b_img, cols=2, rows=1)
        pay_b = new_payloads()
        held = pay_b[-1] if pay_b else sent and base64.b64decode(re.search(rb";([A-Za-z0-9+/=]*)", bytes.fromhex(sent[-1]["w"])).group(1))
        im = Image.open(io.BytesIO(held))
        im.load()
        return {"ids": [a.id, b.id, pb.image_id], "transmitted_in_last_call": len(pay_b), "held": summary(im), "requested": summary(b_img)}
    a_img = Image.new("RGB", (4, 1), (0, 0, 0))
    b_img = Image.new("RGB", (1, 4), (0, 0, 0))
    t2 = tupimage.TupimageTerminal(out_command=cmd, out_display=common.RecStream(), in_response=tty_in, id_database=db, terminal_id="w", session_id="w",
                                   config="DEFAULT", upload_method="direct", id_space="8bit", id_subspace="77:80", redetect_terminal=False)
    pa = t2.upload_and_display(a_img, cols=2, rows=1)
    pay_a = new_payloads()
    pb = t2.upload_and_display(b_img, cols=2, rows=1)
    pay_b = new_payloads()
    held = pay_b[-1] if pay_b else pay_a[-1]
    im = Image.open(io.BytesIO(held))
    im.load()
    return {"ids": [pa.image_id, pb.image_id], "transmitted_in_second_call": len(pay_b), "held": summary(im) if pa.image_id == pb.image_id or pay_b else None,
            "requested": summary(b_img), "same_id": pa.image_id == pb.image_id}


def run_witness(ctx, which):
    work = ctx.work
    r = common.in_pty(lambda: witness_child(work, which), timeout=120)
    if "ok" not in r:
        return {"violates": False, "error": {k: v for k, v in r.items() if k != "tty"}}
    o = r["ok"]
    if which in ("stale", "mark"):
        bad = o["held"] != o["requested"]
    else:
        bad = o["same_id"] and o["transmitted_in_second_call"] == 0
    return dict(o, violates=bool(bad))


# ------------------------------------------------------------------------------ chunk-boundary probes
def _png_of_size(rnd, target):
    """a valid PNG file of exactly `target` bytes (a private ancillary chunk carries the padding)"""
    import struct
    import zlib
    from PIL import Image
    b = io.BytesIO()
    _noise(rnd, "RGB", (6, 5)).save(b, format="PNG")
    data = b.getvalue()
    pad = target - len(data) - 12
    if pad < 0:
        return None
    body = bytes(rnd.randrange(256) for _ in range(pad))
    chunk = struct.pack(">I", pad) + b"prVt" + body + struct.pack(">I", zlib.crc32(b"prVt" + body) & 0xFFFFFFFF)
    out = data[:-12] + chunk + data[-12:]          # before IEND
    assert len(out) == target
    Image.open(io.BytesIO(out)).load()
    return out


def boundary_child(work, seed):
    """For several command-size limits and tmux depths: transmit a file inline, read the raw payload length L of its first
    chunk off the wire, then make the SAME file (same path, same mtime => same description, same id, same header)
    exactly 1, 2 and 3 chunks long (and one byte more / less) and upload_and_display it again."""
    common.scrub_process_env()
    os.environ["HOME"] = work
    os.environ["XDG_STATE_HOME"] = os.path.join(work, "state")
    os.environ["XDG_CONFIG_HOME"] = os.path.join(work, "config")
    import tupimage
    rnd = _random.Random(seed)
    tty_in = open("/dev/tty", "rb", buffering=0)
    out = []
    for mcs, layers in ((4096, 0), (300, 0), (700, 1), (400, 0)):
        d = os.path.join(work, f"bnd-{mcs}-{layers}")
        os.makedirs(d, exist_ok=True)
        path = os.path.join(d, "img.png")
        cmd = common.RecStream()
        disp = common.RecStream()
        t = tupimage.TupimageTerminal(out_command=cmd, out_display=disp, in_response=tty_in, id_database=os.path.join(d, "s.db"), terminal_id="b", session_id="b",
                                      config="DEFAULT", upload_method="direct", max_command_size=mcs, num_tmux_layers=layers, id_space="8bit", id_subspace="30:40",
                                      redetect_terminal=False)

        def put(content):
            with open(path, "wb") as f:
                f.write(content)
            os.utime(path, ns=(1_700_000_000_000_000_000, 1_700_000_000_000_000_000))

        put(_png_of_size(rnd, 9000))
        n0 = len(cmd.writes)
        t.upload_and_display(path, cols=2, rows=1, force_upload=True)
        first = [bytes(w) for w in cmd.writes[n0:]]
        out.append({"mcs": mcs, "layers": layers, "phase": "probe", "size": 9000, "cmd": [w.hex() for w in first], "disp": len(disp.writes)})
        out[-1]["path"] = path
    return out


def boundary_second(work, plan):
    """plan: list of (mcs, layers, path, [sizes]) -> per size the command writes of upload_and_display and the file content"""
    common.scrub_process_env()
    os.environ["HOME"] = work
    os.environ["XDG_STATE_HOME"] = os.path.join(work, "state")
    os.environ["XDG_CONFIG_HOME"] = os.path.join(work, "config")
    import tupimage
    rnd = _random.Random(99)
    tty_in = open("/dev/tty", "rb", buffering=0)
    out = []
    for mcs, layers, path, sizes in plan:
        d = os.path.dirname(path)
        cmd = common.RecStream()
        disp = common.RecStream()
        t = tupimage.TupimageTerminal(out_command=cmd, out_display=disp, in_response=tty_in, id_database=os.path.join(d, "s.db"), terminal_id="b", session_id="b",
                                      config="DEFAULT", upload_method="direct", max_command_size=mcs, num_tmux_layers=layers, id_space="8bit", id_subspace="30:40",
                                      redetect_terminal=False)
        for size in sizes:
            content = _png_of_size(rnd, size)
            if content is None:
                continue
            with open(path, "wb") as f:
                f.write(content)
            os.utime(path, ns=(1_700_000_000_000_000_000, 1_700_000_000_000_000_000))
            n0, d0 = len(cmd.writes), len(disp.writes)
            exc = None
            try:
                t.upload_and_display(path, cols=2, rows=1, force_upload=True)
            except Exception as e:  # noqa
                exc = f"{type(e).__name__}: {e}"
            out.append({"mcs": mcs, "layers": layers, "size": size, "content": content.hex(), "cmd": [bytes(w).hex() for w in cmd.writes[n0:]],
                        "printed": len(disp.writes) > d0, "exc": exc})
    return out


def chunk_boundaries(ctx, model, cov):
    """Inline transmissions whose length is an exact multiple of the chunk payload (and one byte around it): the terminal must
    hold the complete file when the placeholder is printed — the last chunk closes the transmission (m=0 or no m), the
    concatenated payloads are the file."""
    work = ctx.work
    r = common.in_pty(lambda: boundary_child(work, ctx.rng.randrange(2**30)), timeout=300)
    if "ok" not in r:
        ctx.corr_breaks.append({"what": "chunk-boundary probes failed in the pty sandbox", "error": {k: v for k, v in r.items() if k != "tty"}})
        return

    def parse(writes_hex, layers):
        """-> list of (keys dict, payload bytes) per escape, through the Spec unwrapper and the Spec command parser"""
        reqs = [f"c11.spec_unwrapn {layers} {w}" for w in writes_hex]
        inner = model.batch(reqs) if reqs else []
        esc = [x for x in inner]
        reps = model.batch([f"cmd.spec_parse {e}" for e in esc]) if esc else []
        outp = []
        for rep in reps:
            if rep == "NONE" or ";" not in rep:
                outp.append(None)
                continue
            kvs, payload = rep.split(";")
            kv = {}
            if kvs != "_":
                for item in kvs.split(","):
                    kk, vv = item.split(":")
                    kv[kk] = bytes.fromhex(vv).decode() if vv != "-" else ""
            outp.append((kv, b"" if payload in ("NOPAYLOAD", "-") else bytes.fromhex(payload)))
        return outp

    plan = []
    for rec in r["ok"]:
        chunks = parse(rec["cmd"], rec["layers"])
        if not chunks or chunks[0] is None or len(chunks) < 2:
            ctx.corr_breaks.append({"what": "chunk-boundary probe: the 9000-byte file was not transmitted in several parsable chunks", "case": {k: rec[k] for k in ("mcs", "layers")}})
            continue
        L = len(chunks[0][1])
        sizes = sorted({k * L + dlt for k in (1, 2, 3) for dlt in (-1, 0, 1) if k * L + dlt >= 200})
        plan.append((rec["mcs"], rec["layers"], rec["path"], sizes))
        cov.bump("boundary-probe-chunk-bytes-%d-%d" % (rec["mcs"], rec["layers"]), L)
    if not plan:
        return
    r2 = common.in_pty(lambda: boundary_second(work, plan), timeout=300)
    if "ok" not in r2:
        ctx.corr_breaks.append({"what": "chunk-boundary uploads failed in the pty sandbox", "error": {k: v for k, v in r2.items() if k != "tty"}})
        return
    for rec in r2["ok"]:
        case = {"kind": "chunk-boundary", "mcs": rec["mcs"], "layers": rec["layers"], "size": rec["size"]}
        chunks = parse(rec["cmd"], rec["layers"])
        content = bytes.fromhex(rec["content"])
        cov.add(dict(case, chunks=len(chunks)), klass=f"chunk-boundary/mcs={rec['mcs']}/layers={rec['layers']}")
        bad = None
        if rec["exc"]:
            bad = ("unexpected-exception", f"upload_and_display raised {rec['exc']}")
        elif not chunks or any(c is None for c in chunks):
            bad = ("unparsable-command", "a command of the transmission does not parse by the protocol's format")
        else:
            data = b"".join(pl for _, pl in chunks)
            opened = [kv.get("m") == "1" for kv, _ in chunks]
            if opened[-1]:
                bad = ("image-not-complete-when-displayed", f"the last of {len(chunks)} chunks says m=1: the transmission is never closed, the terminal holds no image when the placeholder is printed")
            elif not all(opened[:-1]):
                bad = ("image-not-complete-when-displayed", "a chunk before the last one closes the transmission (m=0): the rest is lost")
            elif data != content:
                bad = ("transmitted-bytes-differ-from-file", f"the chunks concatenate to {len(data)} bytes, the file has {len(content)}")
            elif not rec["printed"]:
                bad = ("nothing-printed", "no placeholder was printed")
        if bad:
            ctx.violations.append({"signature": {"class": bad[0], "path": "chunk-boundary"},
                                   "what": f"inline upload of a {rec['size']}-byte file with max_command_size={rec['mcs']}, {rec['layers']} tmux layer(s): {bad[1]}", "case": case})


def run(ctx, model):
    cov = common.Coverage("case = one call of a history (operation, subject kind, resolved method, SSH, what was transmitted/printed/raised); non-trivial = the call transmitted, printed or raised; distinct by hash; every call is judged by the terminal simulator and compared with the model")
    if model is None:
        return cov
    # the Spec-side literals are those of the property text
    spec = model.one("c08.spec_literals").split()
    if bytes.fromhex(spec[0]).decode() != PREFIX_SPEC or [bytes.fromhex(x).decode() for x in spec[1].split(",")] != SSH_VARS_SPEC:
        ctx.corr_breaks.append({"what": "Spec literals differ from the harness's reading of the property text", "spec": spec})
    # the two hand-written witnesses first (F-C08, F-C08b second half)
    for which, klass, what in (("digest", "same-bytes-different-shape-not-transmitted", "a 4x1 and a 1x4 black RGB image: the second is never transmitted, the terminal shows the first"),
                               ("mark", "recorded-description-is-not-the-transmitted-one", "a = assign_id(A); assign_id(B) recycles a.id; upload_and_display(a) transmits A; upload_and_display(B) is told nothing needs uploading and shows A"),
                               ("stale", "stale-instance-not-retransmitted", "a = assign_id(A); upload_and_display(B) recycles a.id; upload_and_display(a) prints the id while the terminal holds B")):
        o = run_witness(ctx, which)
        cov.add({"witness": which, "out": {k: v for k, v in o.items() if k != "error"}}, klass=f"witness/{which}")
        if o.get("error"):
            ctx.corr_breaks.append({"what": f"witness {which} could not run", "error": o["error"]})
        elif o["violates"]:
            ctx.violations.append({"signature": {"class": klass}, "what": what + f" — observed {o}", "case": {"kind": f"witness-{which}"}})
    chunk_boundaries(ctx, model, cov)
    # the glue around the verified calls: the command line, and settings re-assigned on a live terminal object
    import c08_cli
    c08_cli.cli_equivalence(ctx, cov, ctx.pick(14, 60))
    c08_cli.cli_id_scenarios(ctx, cov)
    c08_cli.reconfigure_equivalence(ctx, cov, ctx.pick(40, 300))
    # one long-lived terminal object whose attached tmux client changes between requests: an image the newly attached terminal
    # never received must be transmitted to it before it can show it (the history oracle of harness/c04.py: what each client
    # received, in order)
    import c04
    c04.highlevel(ctx, cov)
    n = ctx.pick(200, 5000)
    jobs = plan_jobs(ctx, n)
    logs, err = run_jobs(ctx, jobs)
    if err:
        ctx.corr_breaks.append({"what": "histories failed in the pty sandbox", "error": err})
    for log in logs:
        try:
            viol, breaks = judge_history(ctx, model, log, cov)
        except Exception:  # noqa
            import traceback

            ctx.corr_breaks.append({"what": "judge crashed", "case": {"kind": "history", "job": log["job"]}, "log": traceback.format_exc()[-1500:]})
            continue
        ctx.violations += viol[:3]
        ctx.corr_breaks += breaks[:1]
        if len(ctx.corr_breaks) > 20 or len(ctx.violations) > 60:
            break
    if not ctx.quick():
        cli_concurrent(ctx, model, cov)
    return cov


def cli_concurrent(ctx, model, cov):
    """3 concurrent `python -m tupimage.cli display` processes, one controlling terminal, one session database; the
    commands all go to the shared terminal, each process prints its placeholders to its own file.  Judged at the end:
    every printed (id, rows, cols) is held by the terminal with the image of the file that process displayed."""
    import subprocess
    import sys
    from PIL import Image

    work = ctx.work
    rounds = 6
    for rd in range(rounds):
        d = os.path.join(work, f"cli{rd}")
        os.makedirs(os.path.join(d, "tmp"), exist_ok=True)
        rnd = _random.Random(ctx.rng.randrange(2**40))
        names = []
        for i in range(5):
            p = os.path.join(d, f"img{i}.png")
            _noise(rnd, rnd.choice(["RGB", "RGBA", "L"]), (rnd.randrange(2, 9), rnd.randrange(2, 7))).save(p)
            names.append(p)
        plans = [[rnd.choice(names) for _ in range(rnd.randrange(2, 5))] for _ in range(3)]

        def child():
            common.scrub_process_env()
            env = common.clean_env({"HOME": d, "XDG_STATE_HOME": os.path.join(d, "state"), "XDG_CONFIG_HOME": os.path.join(d, "config"),
                                    "TMPDIR": os.path.join(d, "tmp"), "WINDOWID": "42", "TUPIMAGE_UPLOAD_METHOD": rnd.choice(["file", "direct"]),
                                    "TUPIMAGE_ID_SPACE": "8bit", "TUPIMAGE_ID_SUBSPACE": "10:60"})
            procs = []
            for j, plan in enumerate(plans):
                procs.append(subprocess.Popen([common.PY, "-m", "tupimage.cli", "display", "--out-display", os.path.join(d, f"disp{j}"), "--rows", "2", "--cols", "3"] + plan,
                                              env=env, cwd=d, stdout=subprocess.PIPE, stderr=subprocess.PIPE))
            rcs = []
            for p in procs:
                o, e = p.communicate(timeout=120)
                rcs.append([p.returncode, e.decode()[-300:]])
            return rcs

        r = common.in_pty(child, timeout=300)
        if "ok" not in r:
            ctx.corr_breaks.append({"what": "concurrent CLI run failed in the pty sandbox", "error": {k: v for k, v in r.items() if k != "tty"}})
            return
        if any(rc[0] != 0 for rc in r["ok"]):
            ctx.notes.append(f"cli round {rd}: exit codes {r['ok']}")
        stream = r["tty"]
        escapes = re.findall(rb"\x1b_G[^\x1b]*\x1b\\", stream)
        parsed = model.batch([f"cmd.spec_parse {e.hex()}" for e in escapes]) if escapes else []
        store, pend = {}, None
        for p in parsed:
            if p == "NONE":
                ctx.violations.append({"signature": {"class": "unparsable-command", "path": "cli"}, "what": "the shared terminal received a malformed graphics escape", "case": {"kind": "cli"}})
                continue
            kvs, payload = p.split(";")
            kv = {}
            if kvs != "_":
                for item in kvs.split(","):
                    kk, vv = item.split(":")
                    kv[kk] = bytes.fromhex(vv).decode() if vv != "-" else ""
            data = b"" if payload in ("NOPAYLOAD", "-") else bytes.fromhex(payload)
            if "a" in kv:
                pend = {"kv": kv, "data": data}
            elif pend is not None:
                pend["data"] += data   # NB: chunks of concurrent inline transmissions can interleave on a shared tty (known limit of the protocol)
            if kv.get("m") == "1":
                continue
            if pend is None:
                continue
            k2 = pend["kv"]
            try:
                if k2.get("t", "d") in ("f", "t"):
                    name = pend["data"].decode()
                    if k2.get("t") == "t" and not os.path.basename(name).startswith(PREFIX_SPEC):
                        ctx.violations.append({"signature": {"class": "temp-medium-for-foreign-file", "path": "cli"}, "what": f"t=t for {name}", "case": {"kind": "cli"}})
                    im = Image.open(name)
                else:
                    im = Image.open(io.BytesIO(pend["data"]))
                im.load()
                store.setdefault(int(k2.get("i", "0")), []).append({"img": im, "r": int(k2.get("r", "0")), "c": int(k2.get("c", "0"))})
            except Exception:  # noqa
                pass
            pend = None
        for j, plan in enumerate(plans):
            try:
                with open(os.path.join(d, f"disp{j}"), "rb") as f:
                    disp = f.read()
            except OSError:
                disp = b""
            # one placeholder block per image, separated by the final cursor movement: render block by block
            blocks = [b for b in re.split(rb"\n", disp) if b"\xf4\x8e\xbb\xae" in b]
            reps = model.batch([f"c07.render 40 6 0 0 1 {(b + bytes([10])).hex()}" for b in blocks]) if blocks else []
            seen = []
            for rep in reps:
                m = re.search(r"cells=(\S*)", rep)
                for cc in (m.group(1).split(";") if m else []):
                    if cc:
                        y, x, i_, pid, row, col = (int(v) for v in cc.split(","))
                        if i_ not in seen:
                            seen.append(i_)
            cov.add({"cli_round": rd, "process": j, "images": len(plan), "ids_printed": seen}, klass="cli-concurrent")
            wanted = [Image.open(p) for p in plan]
            for w in wanted:
                w.load()
            for i_ in seen:
                cands = store.get(i_, [])
                if not cands:
                    ctx.violations.append({"signature": {"class": "printed-before-transmission", "path": "cli"}, "what": f"process {j} printed id {i_} which the shared terminal never received", "case": {"kind": "cli", "round": rd}})
                elif not any(Judge.same_pixels(c["img"].convert(w.mode) if c["img"].mode != w.mode else c["img"], w) for c in cands for w in wanted):
                    ctx.violations.append({"signature": {"class": "shows-other-image", "path": "cli"}, "what": f"process {j} printed id {i_}; no transmission under it carries one of the images that process displayed", "case": {"kind": "cli", "round": rd}})


def replay(ctx, model, rec):
    case = rec["case"]
    kind = case.get("kind")
    if kind == "witness-stale":
        return run_witness(ctx, "stale")
    if kind == "witness-mark":
        return run_witness(ctx, "mark")
    if kind in ("witness-digest", "witness-same-bytes"):
        return run_witness(ctx, "digest")
    if kind == "cli-id":
        import c08_cli
        sub = common.Ctx(ctx.prop, ctx.tier, ctx.seed)
        sub.work = ctx.work
        c08_cli.cli_id_scenarios(sub, common.Coverage("replay"))
        return {"violates": bool(sub.violations), "violations": [v["what"] for v in sub.violations][:4]}
    if kind == "highlevel":
        import c04
        sub = common.Ctx(ctx.prop, ctx.tier, ctx.seed)
        sub.work = ctx.work
        c04.highlevel(sub, common.Coverage("replay"))
        return {"violates": bool(sub.violations), "violations": [v["what"] for v in sub.violations][:4]}
    if kind in ("cli-equivalence", "reconfigure"):
        import c08_cli
        sub = common.Ctx(ctx.prop, ctx.tier, ctx.seed)
        sub.work = ctx.work
        if kind == "cli-equivalence":
            c08_cli.cli_equivalence(sub, common.Coverage("replay"), 14)
        else:
            c08_cli.reconfigure_equivalence(sub, common.Coverage("replay"), 60, must_change=sorted(k for k in case["after"] if case["after"][k] != case["before"][k])[:1] or None)
        return {"violates": bool(sub.violations), "violations": [v["what"] for v in sub.violations][:4]}
    if kind == "chunk-boundary":
        sub = common.Ctx(ctx.prop, ctx.tier, ctx.seed)
        sub.work = ctx.work
        chunk_boundaries(sub, model, common.Coverage("replay"))
        hits = [v for v in sub.violations if v["case"].get("mcs") == case.get("mcs") and v["case"].get("layers") == case.get("layers")]
        return {"violates": bool(hits), "violations": [v["what"] for v in hits][:4]}
    if kind == "history":
        logs, err = run_jobs(ctx, [case["job"]])
        if err or not logs:
            return {"violates": False, "error": err}
        cov = common.Coverage("replay")
        viol, breaks = judge_history(ctx, model, logs[0], cov)
        want = rec.get("signature", {}).get("class")
        hit = [v for v in viol if want is None or v["signature"]["class"] == want]
        return {"violates": bool(hit), "violations": [v["what"] for v in hit[:3]], "corr_breaks": breaks[:1]}
    return {"violates": False, "note": "unknown case kind"}
